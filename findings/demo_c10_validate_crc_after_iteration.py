"""C10 defect found by ./check C10 (rule ctor-invariant, not-after-rebind): LegacyRecordBatch.validate_crc after iteration.

Iterating a compressed v0/v1 wrapper re-binds the batch's buffer to the decompressed payload, whose size is whatever the payload says
(0 bytes here).  validate_crc() checksums `len(buffer) - 16` bytes from offset 16, justified only by the constructor's minimum-size check
of the ORIGINAL buffer: called after iteration it computed a size of -16 (as size_t: 2^64 - 16) and read far outside the buffer -- the
interpreter died with SIGSEGV.  The v2 reader refuses with `assert self._decompressed == 0`; the legacy reader now does the same.

Run in a child interpreter: the defect kills the process.
"""
import subprocess
import sys

CHILD = r'''
import gzip, struct, sys, zlib
from aiokafka.record._crecords.legacy_records import LegacyRecordBatch

def msg(magic, offset, key, value, attrs=0, ts=1000):
    body = struct.pack(">bb", magic, attrs) + (struct.pack(">q", ts) if magic else b"")
    body += struct.pack(">i", -1) if key is None else struct.pack(">i", len(key)) + key
    body += struct.pack(">i", -1) if value is None else struct.pack(">i", len(value)) + value
    m = struct.pack(">I", zlib.crc32(body) & 0xFFFFFFFF) + body
    return struct.pack(">qi", offset, len(m)) + m

magic = int(sys.argv[1])
batch = LegacyRecordBatch(bytearray(msg(magic, 10, None, gzip.compress(b""), attrs=1)), magic)
assert batch.validate_crc() is True
assert list(batch) == []
try:
    batch.validate_crc()
except Exception as e:          # an ordinary exception is a clean failure
    print("raised", type(e).__name__)
else:
    print("returned")
'''


def test_validate_crc_after_iterating_a_compressed_wrapper_does_not_crash_the_interpreter():
    for magic in (0, 1):
        p = subprocess.run([sys.executable, "-c", CHILD, str(magic)], capture_output=True, text=True, timeout=60)
        assert p.returncode == 0, f"magic {magic}: interpreter exited with {p.returncode} (negative = signal)\n{p.stderr[-400:]}"
