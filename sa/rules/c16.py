"""C16 -- transactional API is a strict state machine with recoverable and fatal errors."""
from __future__ import annotations

import ast

from .. import finite
from ..loader import AnalysisError, call_attr, dotted, unparse
from ..rulekit import arg_of, const_value, def_value, is_none_test, local_defs
from . import c07

TXN = c07.TXN
PRODUCER = c07.PRODUCER
SENDER = c07.SENDER
TS = "aiokafka.producer.transaction_manager.TransactionState"

# KIP-98 / the property's statement: allowed sources per target (Appendix A.3 of DESIGN.md)
ALLOWED = {
    "IN_TRANSACTION": {"READY"},
    "COMMITTING_TRANSACTION": {"IN_TRANSACTION"},
    "ABORTING_TRANSACTION": {"IN_TRANSACTION", "ABORTABLE_ERROR"},
    "READY": {"UNINITIALIZED", "COMMITTING_TRANSACTION", "ABORTING_TRANSACTION"},
}
ERROR_STATES = {"ABORTABLE_ERROR", "FATAL_ERROR"}


def rule_table(ctx):
    R = "transition-table"
    ctx.rep.rule(R, "finite evaluation of TransactionState.is_transition_valid over all 7x7 (source, target) pairs: "
                    "->IN_TRANSACTION only from READY; ->COMMITTING only from IN_TRANSACTION; ->ABORTING only from IN_TRANSACTION or "
                    "ABORTABLE_ERROR; ->READY only from UNINITIALIZED/COMMITTING/ABORTING (each of those admitted); FATAL_ERROR is left only "
                    "towards an error state; an error state is always enterable")
    ci = ctx.repo.cls(TS)
    members = [s.targets[0].id for s in ci.node.body if isinstance(s, ast.Assign) and isinstance(s.targets[0], ast.Name)]
    ctx.anchor(set(members) == {"UNINITIALIZED", "READY", "IN_TRANSACTION", "COMMITTING_TRANSACTION", "ABORTING_TRANSACTION", "ABORTABLE_ERROR", "FATAL_ERROR"},
               f"TransactionState members {members}")
    vals = [const_value(s.value) for s in ci.node.body if isinstance(s, ast.Assign)]
    ctx.anchor(len(set(vals)) == len(vals), "distinct enum values")
    fi = ctx.fn(f"{TS}.is_transition_valid")
    ps = fi.params()
    n = 0
    for src in members:
        for tgt in members:
            got = bool(finite.call(fi.node, {ps[1]: finite.Enum(src), ps[2]: finite.Enum(tgt)}, enum_prefixes=(ps[0], "TransactionState")))
            n += 1
            if tgt in ALLOWED:
                want = src in ALLOWED[tgt]
                ctx.rep.ob(R, f"{fi.path}:{fi.node.lineno} {fi.qualname}", f"{fi.qualname}|{src}->{tgt}", got == want,
                           f"{src} -> {tgt} is {'accepted' if got else 'refused'}; the protocol order {'allows' if want else 'forbids'} it")
            elif src == "FATAL_ERROR":
                ctx.rep.ob(R, f"{fi.path}:{fi.node.lineno} {fi.qualname}", f"{fi.qualname}|{src}->{tgt}", got == (tgt in ERROR_STATES),
                           f"FATAL_ERROR -> {tgt}: {got}")
            elif tgt in ERROR_STATES:
                ctx.rep.ob(R, f"{fi.path}:{fi.node.lineno} {fi.qualname}", f"{fi.qualname}|{src}->{tgt}", got is True,
                           f"{src} -> {tgt} (error state) refused: errors could not be recorded")
            else:
                # target UNINITIALIZED: never valid
                ctx.rep.ob(R, f"{fi.path}:{fi.node.lineno} {fi.qualname}", f"{fi.qualname}|{src}->{tgt}", got is False, f"{src} -> {tgt} accepted")
    ctx.rep.extra["transition_pairs_evaluated"] = n
    # _transition_to asserts validity before the write; every state write goes through it
    ft = ctx.fn(f"{TXN}._transition_to")
    c = ctx.cfg(ft)
    st = c.stores(attr="state")
    asr = [a for a in c.nodes if a.kind == "assert" and "is_transition_valid" in unparse(a.ast.test)]
    ok = len(st) == 1 and len(asr) == 1 and c.dominates(asr[0], st[0]) and unparse(st[0].stmt.value) == ft.params()[1]
    if ok:
        call = [x for x in ast.walk(asr[0].ast.test) if isinstance(x, ast.Call) and call_attr(x) == "is_transition_valid"][0]
        ok = [unparse(a) for a in call.args] == ["self.state", ft.params()[1]] and not isinstance(asr[0].ast.test, ast.BoolOp)
    ctx.ob(R, ft, ft.node, ok, "_transition_to does not validate (self.state, target) before writing the state", text="validated-write")
    for wf, wn, how in ctx.attr_writers_of("state", "TransactionManager", fields=("_txn_manager", "txn_manager")):
        ctx.ob(R, wf, wn, wf.qualname in (f"{TXN}.__init__", f"{TXN}._transition_to"), f"{wf.qualname} writes the transaction state directly", text="state-writer")
    f0 = ctx.fn(f"{TXN}.__init__")
    s0 = ctx.cfg(f0).stores(attr="state")
    ctx.ob(R, f0, f0.node, len(s0) == 1 and unparse(s0[0].stmt.value).endswith("UNINITIALIZED"), "initial state is not UNINITIALIZED", text="initial")
    # which method requests which transition
    want = {"begin_transaction": "IN_TRANSACTION", "committing_transaction": "COMMITTING_TRANSACTION", "aborting_transaction": "ABORTING_TRANSACTION",
            "complete_transaction": "READY", "error_transaction": "ABORTABLE_ERROR", "fatal_error": "FATAL_ERROR", "set_pid_and_epoch": "READY"}
    seen = {}
    for cf, cn in ctx.callers("_transition_to"):
        tgt = unparse(arg_of(cn.ast, 0)).split(".")[-1]
        seen.setdefault(cf.name, []).append(tgt)
        ctx.ob(R, cf, cn, want.get(cf.name) == tgt, f"{cf.name} requests transition to {tgt}", text=f"transition:{cf.name}")
    for m, t in want.items():
        f = ctx.fn(f"{TXN}.{m}")
        cc = ctx.cfg(f)
        calls = cc.calls(attr="_transition_to")
        ok = len(calls) == 1
        if ok and m != "set_pid_and_epoch":
            # the transition happens on every normal path and before any other state change of the method
            ok = cc.exit not in cc.reachable([cc.entry], avoid=set(calls), exc=False)
            muts = [n for n in cc.nodes if (n.kind == "store" and isinstance(n.ast, ast.Attribute)) or (n.kind == "call" and call_attr(n.ast) in ("clear", "set_result", "set_exception", "notify_task_waiter"))]
            ok = ok and all(cc.dominates(calls[0], x) for x in muts)
        ctx.ob(R, f, f.node, ok, f"{m} does not (first, on every path) transition to {t}", text=f"transition-first:{m}")
    fi2 = ctx.fn(f"{TXN}.is_in_transaction")
    r = [n for n in ctx.cfg(fi2).nodes if n.kind == "return"]
    ctx.ob(R, fi2, fi2.node, len(r) == 1 and unparse(r[0].ast.value) == "self.state == TransactionState.IN_TRANSACTION", "is_in_transaction", text="in-txn-def")
    ff = ctx.fn(f"{TXN}.is_fatal_error")
    r = [n for n in ctx.cfg(ff).nodes if n.kind == "return"]
    ctx.ob(R, ff, ff.node, len(r) == 1 and unparse(r[0].ast.value) == "self.state == TransactionState.FATAL_ERROR", "is_fatal_error", text="fatal-def")


def rule_guards(ctx):
    R = "api-guards"
    ctx.rep.rule(R, "begin/commit/abort/send_offsets call _ensure_transactional before anything else; the manager call that performs the "
                    "transition precedes every wait; send_offsets_to_transaction tests is_in_transaction and raises IllegalOperation before "
                    "queuing offsets; a refused call has no effect (raise precedes every state-changing call)")
    api = {"begin_transaction": "begin_transaction", "commit_transaction": "committing_transaction", "abort_transaction": "aborting_transaction",
           "send_offsets_to_transaction": "add_offsets_to_txn"}
    for m, mgr in api.items():
        fi = ctx.fn(f"{PRODUCER}.{m}")
        c = ctx.cfg(fi)
        en = c.calls(attr="_ensure_transactional")
        ctx.ob(R, fi, fi.node, len(en) == 1, f"{m} does not call _ensure_transactional", text=f"ensure:{m}")
        if len(en) == 1:
            others = [n for n in c.nodes if n.kind in ("call", "await") and n is not en[0] and not (n.kind == "call" and (dotted(n.ast.func) or "").startswith("log."))]
            ctx.ob(R, fi, en[0], all(c.dominates(en[0], n) for n in others), f"{m} acts before checking that the producer is transactional", text=f"ensure-first:{m}")
        mc = [n for n in c.calls(attr=mgr) if "_txn_manager" in unparse(n.ast.func.value)]
        ctx.ob(R, fi, fi.node, len(mc) == 1, f"{m} does not call txn_manager.{mgr}()", text=f"mgr-call:{m}")
        if len(mc) == 1 and m in ("commit_transaction", "abort_transaction"):
            aw = [n for n in c.nodes if n.kind == "await"]
            ctx.ob(R, fi, mc[0], all(c.dominates(mc[0], a) for a in aw) and any("wait_for_transaction_end" in unparse(a.ast) for a in aw),
                   f"{m} waits before requesting the transition, or does not wait for the end of the transaction", text=f"transition-then-wait:{m}")
            ctx.ob(R, fi, mc[0], all("shield" in unparse(a.ast) for a in aw), f"{m}: cancellation of the caller would cancel the shared waiter", text=f"shielded:{m}")
        if len(mc) == 1 and m == "begin_transaction":
            aw = [n for n in c.nodes if n.kind == "await"]
            ctx.ob(R, fi, mc[0], all(c.dominates(a, mc[0]) for a in aw) and any("wait_for_pid" in unparse(a.ast) for a in aw), "begin before the producer id is known", text="pid-before-begin")
    fe = ctx.fn(f"{PRODUCER}._ensure_transactional")
    ce = ctx.cfg(fe)
    rs = [n for n in ce.nodes if n.kind == "raise"]
    tests = [t for t in ce.nodes if t.kind == "test" and not isinstance(t.ast, ast.Constant)]
    ok = len(rs) == 1 and "IllegalOperation" in unparse(rs[0].ast.exc) and {unparse(t.ast) for t in tests} == {"self._txn_manager is None", "self._txn_manager.transactional_id is None"} \
        and all(rs[0] in ce.reachable([m for m, l in t.succ if l == "T"], include_src=True) for t in tests)
    ctx.ob(R, fe, fe.node, ok, "_ensure_transactional does not raise IllegalOperation for a non-transactional producer", text="ensure-def")
    fs = ctx.fn(f"{PRODUCER}.send_offsets_to_transaction")
    cs = ctx.cfg(fs)
    tests = [t for t in cs.nodes if t.kind == "test" and isinstance(t.ast, ast.Call) and call_attr(t.ast) == "is_in_transaction"]
    add = cs.calls(attr="add_offsets_to_txn")
    ok = len(tests) == 1 and len(add) == 1
    if ok:
        fb = cs.reachable([m for m, l in tests[0].succ if l == "F"], exc=False, include_src=True)
        ok = any(n.kind == "raise" and "IllegalOperation" in unparse(n.ast.exc) for n in fb) and add[0] not in cs.reachable([m for m, l in tests[0].succ if l == "F"], include_src=True) \
            and cs.dominates(tests[0], add[0])
        nos, w = ctx.no_suspension_between(fs, tests[0], add[0])
        ok = ok and nos
    ctx.ob(R, fs, fs.node, ok, "offsets can be queued outside an open transaction", text="send-offsets-guard")
    fa = ctx.fn(f"{TXN}.add_offsets_to_txn")
    ca = ctx.cfg(fa)
    asr = [a for a in ca.nodes if a.kind == "assert" and "is_in_transaction" in unparse(a.ast.test)]
    app = [n for n in ca.calls(attr="append") if unparse(n.ast.func.value) == "self._pending_txn_offsets"]
    ctx.ob(R, fa, fa.node, len(asr) >= 1 and len(app) == 1 and ca.dominates(asr[0], app[0]), "manager queues offsets without asserting the state", text="add-offsets-assert")
    # send(): shares C07 send-guard
    c07.rule_send_guard(ctx)


def rule_abortable(ctx):
    R = "abortable"
    ctx.rep.rule(R, "after an abortable error commit raises the stored error before any transition; abort re-arms the finished waiter so "
                    "that it waits for the EndTxn; error_transaction fails queued offset futures and the waiter; after the abort the state is "
                    "READY again (shares C07 registry-reset: the abort really reaches the coordinator)")
    fc = ctx.fn(f"{TXN}.committing_transaction")
    c = ctx.cfg(fc)
    tests = [t for t in c.nodes if t.kind == "test" and isinstance(t.ast, ast.Compare) and unparse(t.ast.left) == "self.state" and unparse(t.ast.comparators[0]).endswith("ABORTABLE_ERROR")]
    res = [n for n in c.calls(attr="result") if unparse(n.ast.func.value) == "self._transaction_waiter"]
    tr = c.calls(attr="_transition_to")
    ok = len(tests) == 1 and len(res) == 1 and len(tr) == 1 and c.dominated_by_branch(tests[0], "T", res[0]) and \
        tr[0] not in c.reachable([m for m, l in tests[0].succ if l == "T"], avoid=set(res), exc=False, include_src=True)
    ctx.ob(R, fc, fc.node, ok, "commit after an abortable error does not re-raise the stored error before transitioning", text="commit-raises")
    fa = ctx.fn(f"{TXN}.aborting_transaction")
    ca = ctx.cfg(fa)
    tests = [t for t in ca.nodes if t.kind == "test" and isinstance(t.ast, ast.Call) and call_attr(t.ast) == "done" and unparse(t.ast.func.value) == "self._transaction_waiter"]
    st = ca.stores(attr="_transaction_waiter")
    ok = len(tests) == 1 and len(st) == 1 and ca.dominated_by_branch(tests[0], "T", st[0]) and isinstance(st[0].stmt.value, ast.Call) and call_attr(st[0].stmt.value) == "create_future" \
        and ca.exit not in ca.reachable([m for m, l in tests[0].succ if l == "T"], avoid=set(st), exc=False, include_src=True)
    ctx.ob(R, fa, fa.node, ok, "abort after an abortable error would return at once with the old (failed) waiter", text="abort-rearms")
    nt = ca.calls(attr="notify_task_waiter")
    ctx.ob(R, fa, fa.node, len(nt) == 1 and ca.exit not in ca.reachable([ca.entry], avoid=set(nt), exc=False), "abort does not wake the sender", text="abort-notifies")
    nt = c.calls(attr="notify_task_waiter")
    ctx.ob(R, fc, fc.node, len(nt) == 1 and all(c.dominates(t, nt[0]) for t in tr), "commit does not wake the sender", text="commit-notifies")
    for m in ("error_transaction", "fatal_error"):
        fe = ctx.fn(f"{TXN}.{m}")
        ce = ctx.cfg(fe)
        se = ce.calls(attr="set_exception")
        onfut = [n for n in se if dotted(n.ast.func.value) not in (None,) and not unparse(n.ast.func.value).startswith("self.")]
        onw = [n for n in se if unparse(n.ast.func.value) == "self._transaction_waiter"]
        loops = [unparse(a.iter) for n in onfut for a, r in n.within if isinstance(a, ast.For)]
        clr = [n for n in ce.calls(attr="clear") if unparse(n.ast.func.value) == "self._pending_txn_offsets"]
        ok = len(onfut) == 1 and loops == ["self._pending_txn_offsets"] and len(onw) == 1 and len(clr) == 1 and \
            all(unparse(arg_of(n.ast, 0)) == fe.params()[1] for n in se) and ce.exit not in ce.reachable([ce.entry], avoid=set(onw), exc=False)
        ctx.ob(R, fe, fe.node, ok, f"{m} does not fail every queued offset future and the transaction waiter with the error", text=f"fails-waiters:{m}")
    ff = ctx.fn(f"{TXN}.fatal_error")
    cf = ctx.cfg(ff)
    tests = [t for t in cf.nodes if t.kind == "test" and isinstance(t.ast, ast.Call) and call_attr(t.ast) == "done"]
    st = cf.stores(attr="_transaction_waiter")
    onw = [n for n in cf.calls(attr="set_exception") if unparse(n.ast.func.value) == "self._transaction_waiter"]
    ok = len(tests) == 1 and len(st) == 1 and cf.dominated_by_branch(tests[0], "T", st[0]) and bool(onw) and \
        onw[0] not in cf.reachable([m for m, l in tests[0].succ if l == "T"], avoid=set(st), exc=False, include_src=True)
    ctx.ob(R, ff, ff.node, ok, "fatal_error sets an exception on a waiter that may already be done (InvalidStateError)", text="fatal-rearms")
    fb = ctx.fn(f"{TXN}.begin_transaction")
    cb = ctx.cfg(fb)
    st = cb.stores(attr="_transaction_waiter")
    ctx.ob(R, fb, fb.node, len(st) == 1 and isinstance(st[0].stmt.value, ast.Call) and call_attr(st[0].stmt.value) == "create_future", "begin does not create a fresh waiter", text="begin-waiter")
    fx = ctx.fn(f"{TXN}.complete_transaction")
    cx = ctx.cfg(fx)
    sr = [n for n in cx.calls(attr="set_result") if unparse(n.ast.func.value) == "self._transaction_waiter"]
    ctx.ob(R, fx, fx.node, len(sr) == 1, "complete_transaction does not release the commit/abort caller", text="complete-releases")
    c07.rule_registry_reset(ctx)


def rule_fatal(ctx):
    R = "fatal"
    ctx.rep.rule(R, "fatal errors stop everything: the sender loop re-raises exactly ProducerFenced / OutOfOrderSequenceNumber / "
                    "TransactionalIdAuthorizationFailed (others become KafkaError), which kills the task; _fail_all then fails every batch and "
                    "puts the manager in FATAL_ERROR; TransactionContext.__aexit__ does not try to abort after a fatal error")
    fi = ctx.fn(f"{SENDER}._sender_routine")
    c = ctx.cfg(fi)
    hs = [n for n in c.nodes if n.kind == "handler"]
    fatal = {"ProducerFenced", "OutOfOrderSequenceNumber", "TransactionalIdAuthorizationFailed"}
    found = False
    for h in hs:
        t = h.ast.type
        names = {unparse(e).split(".")[-1] for e in (t.elts if isinstance(t, ast.Tuple) else [t])} if t is not None else set()
        r = c.reachable([h], exc=False)
        reraise = any(n.kind == "raise" and n.ast.exc is None for n in r)
        if names & fatal:
            found = True
            ctx.ob(R, fi, h, names == fatal and reraise, f"fatal handler catches {sorted(names)} / re-raises: {reraise}", text="fatal-reraise")
        elif names == {"Exception"}:
            ctx.ob(R, fi, h, any(n.kind == "raise" and n.ast.exc is not None and "KafkaError" in unparse(n.ast.exc) for n in r), "unexpected sender errors are swallowed", text="unexpected-raise")
    ctx.ob(R, fi, fi.node, found, "no handler re-raises the fatal transactional errors", text="fatal-handler-exists")
    # fatal errors raised by handlers / produce path
    fh = ctx.fn("aiokafka.producer.sender.SendProduceReqHandler.handle_response")
    src = unparse(fh.node)
    ctx.ob(R, fh, fh.node, "InvalidProducerEpoch" in src and "ProducerFenced()" in src, "produce path does not map InvalidProducerEpoch to ProducerFenced", text="produce-fenced")
    # _fail_all: shared with C02 fail-all
    from . import c02
    c02.rule_fail_all(ctx)
    fx = ctx.fn("aiokafka.producer.producer.TransactionContext.__aexit__")
    cx = ctx.cfg(fx)
    ab = [n for n in cx.nodes if n.kind == "await" and "abort_transaction" in unparse(n.ast)]
    cm = [n for n in cx.nodes if n.kind == "await" and "commit_transaction" in unparse(n.ast)]
    ft = [t for t in cx.nodes if t.kind == "test" and isinstance(t.ast, ast.Call) and call_attr(t.ast) == "is_fatal_error"]
    from ..rulekit import none_tests
    et = none_tests(cx, fx.params()[1])   # (test, label `exc_type is None`, label `is not None`)
    ok = len(ab) == 1 and len(cm) == 1 and len(ft) == 1 and len(et) == 1 and cx.dominated_by_branch(ft[0], "F", ab[0]) and cx.dominated_by_branch(et[0][0], et[0][2], ab[0]) \
        and cx.dominated_by_branch(et[0][0], et[0][1], cm[0])
    ctx.ob(R, fx, fx.node, ok, "context exit: exception -> abort (unless fatal), no exception -> commit", text="aexit")
    fe = ctx.fn("aiokafka.producer.producer.TransactionContext.__aenter__")
    ctx.ob(R, fe, fe.node, any("begin_transaction" in unparse(n.ast) for n in ctx.cfg(fe).nodes if n.kind == "await"), "context enter does not begin", text="aenter")


def run(ctx):
    rep = ctx.rep
    rep.explanation = ("C16: the transition predicate is evaluated exhaustively (49 pairs) on its AST against the protocol order; every state "
                       "write is shown to go through the validated transition; API entry points are shown to check before acting; the "
                       "abortable and fatal error paths are decided as dominance / who-calls rules.")
    rule_table(ctx)
    rule_guards(ctx)
    rule_abortable(ctx)
    rule_fatal(ctx)
    # a transaction may be declared finished (READY again) only after its batches were flushed: otherwise a batch of the aborted
    # transaction survives into the next one (rule shared with C07)
    c07.rule_flush_before_end(ctx)
    from .common import rule_get_conn_contains
    rule_get_conn_contains(ctx, "fatal")
    from .common import rule_instance_state
    rule_instance_state(ctx, ("aiokafka.producer.",))
    rep.nd("'without any effect on the cluster' beyond the absence of a request-creating call on the raising path")
