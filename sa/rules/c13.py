"""C13 -- consumption starts at the committed offset, else per auto_offset_reset; seek wins."""
from __future__ import annotations

import ast

from ..loader import AnalysisError, call_attr, call_name, dotted, unparse
from ..prototab import ProtoTable, elem_schema, find_field
from ..rulekit import arg_of, const_value, def_value, is_none_test, local_defs
from ..symeval import Const, Field, SymEval, Tup, Unk, make_struct
from . import c03, c06

GC = c06.GC
FETCHER = c03.FETCHER
TPS = c03.TPS
NOGROUP = "aiokafka.consumer.group_coordinator.NoGroupCoordinator"


def _awaits(c, attr):
    return [n for n in c.nodes if n.kind == "await" and isinstance(n.ast, ast.Await) and isinstance(n.ast.value, ast.Call) and call_attr(n.ast.value) == attr]


def _state_tests(c):
    return [t for t in c.nodes if t.kind == "test" and unparse(t.ast) in ("tp_state.has_valid_position", "tp_state.awaiting_reset")]


def rule_revalidate(ctx):
    R = "revalidate-after-await"
    ctx.rep.rule(R, "_update_fetch_positions: every reset_to / await_reset / _set_error is separated from the function entry and from every "
                    "suspension point by a re-test of has_valid_position / awaiting_reset (a seek() that landed meanwhile wins); the reset after "
                    "ListOffsets happens only while the partition is still awaiting a reset")
    fi = ctx.fn(f"{FETCHER}._update_fetch_positions")
    c = ctx.cfg(fi)
    eff = [n for n in c.nodes if n.kind == "call" and call_attr(n.ast) in ("reset_to", "await_reset", "_set_error")]
    ctx.floor(eff, 4, "position effects in _update_fetch_positions")
    tests = _state_tests(c)
    susp = ctx.suspension_nodes(fi)
    ctx.floor(susp, 2, "suspension points in _update_fetch_positions")
    for e in eff:
        bad = None
        for s in [c.entry] + susp:
            if e in c.reachable([s], avoid=set(tests)):
                bad = s
                break
        ctx.ob(R, fi, e, bad is None, f"{unparse(e.ast)[:40]} reachable from {bad!r} without re-testing the partition state", text="retest:" + unparse(e.ast)[:40])
    # first phase: effects only when neither valid nor awaiting
    fc = ctx.one(_awaits(c, "fetch_committed"), "await fetch_committed")
    first = [e for e in eff if c.path_exists(fc, e) and not any(c.path_exists(s, e) for s in _awaits(c, "_proc_offset_request"))]
    for e in first:
        ok = True
        for t in tests:
            if c.dominates(fc, t) and c.dominates(t, e):
                heads = [h for h in (c.loop_head(a) for a, r in e.within if isinstance(a, ast.For) and r == "body") if h is not None]
                if e in c.reachable([m for m, l in t.succ if l == "T"], avoid=set(heads) | ({t2 for t2 in tests if t2 is not t}), include_src=True):
                    ok = False
        ctx.ob(R, fi, e, ok, f"{unparse(e.ast)[:40]} can override a position / reset that appeared while waiting for the committed offset", text="seek-wins-1:" + unparse(e.ast)[:40])
    po = ctx.one(_awaits(c, "_proc_offset_request"), "await _proc_offset_request")
    # (reachability rather than dominance: when the lookup lives in a try whose handlers fall through to a `result is None` return, those
    # handler paths reach the code below in the graph although they cannot at run time)
    second = [e for e in eff if c.path_exists(po, e, exc=False) and not c.path_exists(e, po)]
    ctx.floor(second, 1, "reset after ListOffsets")
    for e in second:
        at = [t for t in tests if unparse(t.ast) == "tp_state.awaiting_reset" and c.path_exists(po, t, exc=False) and not c.path_exists(t, po)]
        ok = call_attr(e.ast) == "reset_to" and any(c.dominated_by_branch(t, "T", e) for t in at)
        ctx.ob(R, fi, e, ok, "the looked-up offset is applied although a seek() ended the reset meanwhile", text="seek-wins-2")
        # state re-read after the await
        ds = [d for d in c.reaching_defs()[e].get("tp_state", ())]
        ctx.ob(R, fi, e, all(c.path_exists(po, d, exc=False) and not c.path_exists(d, po) for d in ds) and bool(ds), "partition state used after ListOffsets was read before it", text="state-reread")
        a0 = arg_of(e.ast, 0)
        od = local_defs(c, unparse(a0)) if isinstance(a0, ast.Name) else []
        okl = len(od) == 1 and def_value(od[0]) is not None and unparse(def_value(od[0])) == "offsets[tp][0]"
        if len(od) == 1 and not okl and isinstance(od[0].stmt, ast.Assign) and isinstance(od[0].stmt.targets[0], ast.Tuple) and od[0].stmt.targets[0].elts \
                and unparse(od[0].stmt.targets[0].elts[0]) == unparse(a0) and unparse(od[0].stmt.value) == "offsets[tp]":
            okl = True      # offset, _ = offsets[tp]
        ctx.ob(R, fi, e, okl, "offset applied is not the looked-up offset of this partition", text="applies-lookup")
    # tp_state bound per partition from the task's assignment
    for d in local_defs(c, "tp_state"):
        ctx.ob(R, fi, d, unparse(def_value(d)) == "assignment.state_value(tp)", "tp_state is not the partition's state in the task's assignment", text="tp-state-def")
    # request built from the strategies of partitions still awaiting reset
    app = [n for n in c.calls(attr="append") if unparse(n.ast.func.value).startswith("topic_data[")]
    ok = len(app) == 1 and unparse(arg_of(app[0].ast, 0)) == "(tp.partition, strategy)"
    sd = local_defs(c, "strategy")
    ok = ok and len(sd) == 1 and unparse(def_value(sd[0])) == "tp_state.reset_strategy"
    at = [t for t in tests if unparse(t.ast) == "tp_state.awaiting_reset"]
    ok = ok and any(c.dominates(t, app[0]) and app[0] not in c.reachable([m for m, l in t.succ if l == "F"], avoid=[h for h in [c.loop_head(a) for a, r in app[0].within if isinstance(a, ast.For)] if h], include_src=True) for t in at)
    ctx.ob(R, fi, fi.node, ok, "ListOffsets is not asked (partition, strategy) for exactly the partitions awaiting a reset", text="lookup-request")
    ctx.ob(R, fi, po, [unparse(a) for a in po.ast.value.args] == [fi.params()[2], "topic_data"], "lookup sent elsewhere / with other data", text="lookup-args")


def rule_seek_wins_state(ctx):
    R = "seek-state"
    ctx.rep.rule(R, "TopicPartitionState: seek() sets the position, clears the pending reset and marks CONSUMING; reset_to() requires "
                    "AWAITING_RESET and does the same; await_reset() records the strategy, invalidates the position and marks AWAITING_RESET; "
                    "awaiting_reset <=> strategy is not None")
    def stores(q):
        f = ctx.fn(q)
        c = ctx.cfg(f)
        return f, c, {unparse(s.ast): unparse(s.stmt.value) for s in c.nodes if s.kind == "store" and isinstance(s.ast, ast.Attribute)}
    f, c, st = stores(f"{TPS}.seek")
    p = f.params()[1]
    ctx.ob(R, f, f.node, st.get("self._position") == p and st.get("self._reset_strategy") == "None" and st.get("self._status", "").endswith("CONSUMING"), f"seek() writes {st}", text="seek")
    ctx.ob(R, f, f.node, any(unparse(n.ast.func.value) == "self._position_fut" for n in c.calls(attr="set_result")), "seek() does not release position waiters", text="seek-releases")
    f, c, st = stores(f"{TPS}.reset_to")
    asr = [a for a in c.nodes if a.kind == "assert" and "AWAITING_RESET" in unparse(a.ast.test) and "self._status ==" in unparse(a.ast.test)]
    ss = c.stores(attr="_position")
    ctx.ob(R, f, f.node, st.get("self._position") == f.params()[1] and st.get("self._reset_strategy") == "None" and st.get("self._status", "").endswith("CONSUMING") and len(asr) == 1 and all(c.dominates(asr[0], s) for s in ss),
           "reset_to() does not require AWAITING_RESET / set position, clear strategy, mark CONSUMING", text="reset-to")
    f, c, st = stores(f"{TPS}.await_reset")
    ctx.ob(R, f, f.node, st.get("self._reset_strategy") == f.params()[1] and st.get("self._position") == "None" and st.get("self._status", "").endswith("AWAITING_RESET"), f"await_reset() writes {st}", text="await-reset")
    fa = ctx.fn(f"{TPS}.awaiting_reset")
    r = [x for x in ctx.cfg(fa).nodes if x.kind == "return"]
    ctx.ob(R, fa, fa.node, len(r) == 1 and unparse(r[0].ast.value) == "self._reset_strategy is not None", "awaiting_reset", text="awaiting-def")
    fr = ctx.fn(f"{TPS}.reset_strategy")
    r = [x for x in ctx.cfg(fr).nodes if x.kind == "return"]
    ctx.ob(R, fr, fr.node, len(r) == 1 and unparse(r[0].ast.value) == "self._reset_strategy", "reset_strategy", text="strategy-def")
    for wf, wn, how in ctx.attr_writers("_reset_strategy"):
        ctx.ob(R, wf, wn, wf.qualname in (f"{TPS}.__init__", f"{TPS}.await_reset", f"{TPS}.reset_to", f"{TPS}.seek"), f"{wf.qualname} writes the reset strategy", text="strategy-writer")
    f0 = ctx.fn(f"{TPS}.__init__")
    st = {unparse(s.ast): unparse(s.stmt.value) for s in ctx.cfg(f0).nodes if s.kind == "store" and isinstance(s.ast, ast.Attribute)}
    ctx.ob(R, f0, f0.node, st.get("self._position") == "None" and st.get("self._reset_strategy") == "None", "a fresh partition state already has a position / pending reset", text="init")


def rule_policy(ctx):
    R = "policy"
    ctx.rep.rule(R, "start-position policy arms: committed offset known -> reset_to(committed.offset); unknown -> await_reset(configured policy) or "
                    "NoOffsetForPartitionError when the policy is none; OffsetOutOfRange -> await_reset(configured policy) or OffsetOutOfRangeError; "
                    "latest = -1, earliest = -2 (the ListOffsets sentinels), none = 0; config strings map to them")
    fi = ctx.fn(f"{FETCHER}._update_fetch_positions")
    c = ctx.cfg(fi)
    ut = [t for t in c.nodes if t.kind == "test" and isinstance(t.ast, ast.Compare) and {unparse(t.ast.left), unparse(t.ast.comparators[0])} == {"committed.offset", "UNKNOWN_OFFSET"}]
    ut = ctx.one(ut, "`committed.offset == UNKNOWN_OFFSET` test")
    known = "F" if isinstance(ut.ast.ops[0], ast.Eq) else "T"
    unknown = "T" if known == "F" else "F"
    heads = [n for n in c.nodes if n.kind == "loop"]
    kb = c.reachable([m for m, l in ut.succ if l == known], avoid=heads, exc=False, include_src=True)
    ub = c.reachable([m for m, l in ut.succ if l == unknown], avoid=heads, exc=False, include_src=True)
    rt = [n for n in kb if n.kind == "call" and call_attr(n.ast) == "reset_to"]
    other = [n for n in kb if n.kind == "call" and call_attr(n.ast) in ("await_reset", "_set_error", "seek", "consumed_to")]
    ctx.ob(R, fi, ut, len(rt) == 1 and unparse(arg_of(rt[0].ast, 0)) == "committed.offset" and not other, "with a committed offset the position is not set to exactly that offset", text="committed-arm")
    cd = local_defs(c, "committed")
    ctx.ob(R, fi, ut, len(cd) == 1 and isinstance(def_value(cd[0]), ast.Await) and call_attr(def_value(cd[0]).value) == "fetch_committed" and unparse(def_value(cd[0]).value.func.value) == "tp_state",
           "`committed` is not this partition's committed offset", text="committed-def")
    _policy_arm(ctx, R, fi, c, ub, "NoOffsetForPartitionError", "unknown-arm")
    fp = ctx.fn(f"{FETCHER}._proc_fetch_request")
    cp = ctx.cfg(fp)
    from ..chains import chain_arms
    arms = chain_arms(cp, "error_type")
    ctx.anchor("OffsetOutOfRangeError" in arms, "OffsetOutOfRange arm of _proc_fetch_request")
    t = arms["OffsetOutOfRangeError"].test
    ob = cp.reachable([m for m, l in t.succ if l == "T"], avoid=[n for n in cp.nodes if n.kind == "loop"], exc=False, include_src=True)
    _policy_arm(ctx, R, fp, cp, ob, "OffsetOutOfRangeError", "out-of-range-arm")
    # strategy constants
    ci = ctx.repo.cls("aiokafka.consumer.fetcher.OffsetResetStrategy")
    vals = {s.targets[0].id: const_value(s.value) for s in ci.node.body if isinstance(s, ast.Assign) and isinstance(s.targets[0], ast.Name)}
    ctx.rep.ob(R, f"{ci.module.relpath}:{ci.node.lineno} OffsetResetStrategy", "OffsetResetStrategy|values", vals.get("LATEST") == -1 and vals.get("EARLIEST") == -2 and vals.get("NONE") == 0, f"strategy constants {vals}; ListOffsets sentinels are latest=-1, earliest=-2")
    ff = ctx.fn("aiokafka.consumer.fetcher.OffsetResetStrategy.from_str")
    cf = ctx.cfg(ff)
    m = {}
    for r in cf.nodes:
        if r.kind == "return":
            for t in cf.nodes:
                if t.kind == "test" and isinstance(t.ast, ast.Compare) and cf.dominated_by_branch(t, "T", r) and const_value(t.ast.comparators[0]) is not None:
                    m[const_value(t.ast.comparators[0])] = unparse(r.ast.value)
    ctx.ob(R, ff, ff.node, m == {"latest": "cls.LATEST", "earliest": "cls.EARLIEST", "none": "cls.NONE"}, f"auto_offset_reset mapping {m}", text="from-str")
    f0 = ctx.fn(f"{FETCHER}.__init__")
    st = ctx.cfg(f0).stores(attr="_default_reset_strategy")
    ctx.ob(R, f0, f0.node, len(st) == 1 and unparse(st[0].stmt.value) == "OffsetResetStrategy.from_str(auto_offset_reset)", "configured policy not stored", text="policy-config")
    fcs = ctx.fn("aiokafka.consumer.consumer.AIOKafkaConsumer.start")
    ft = ctx.cfg(fcs).calls(name="Fetcher")
    ctx.ob(R, fcs, fcs.node, bool(ft) and all(unparse(arg_of(n.ast, kw="auto_offset_reset") or ast.Constant(None)) == "self._auto_offset_reset" for n in ft), "consumer does not pass auto_offset_reset", text="policy-passed")
    # seek_to_beginning / seek_to_end use the sentinels
    for m_, s in (("seek_to_beginning", "EARLIEST"), ("seek_to_end", "LATEST")):
        f = ctx.fn(f"aiokafka.consumer.consumer.AIOKafkaConsumer.{m_}")
        rr = ctx.cfg(f).calls(attr="request_offset_reset")
        ctx.ob(R, f, f.node, len(rr) == 1 and unparse(arg_of(rr[0].ast, 1)).endswith(s), f"{m_} does not request {s}", text=m_)


def _policy_arm(ctx, R, fi, c, branch, errname, tag):
    pt = [t for t in branch if t.kind == "test" and isinstance(t.ast, ast.Compare) and {unparse(t.ast.left), unparse(t.ast.comparators[0])} == {"self._default_reset_strategy", "OffsetResetStrategy.NONE"}]
    ok = len(pt) == 1
    ctx.ob(R, fi, fi.node, ok, f"{tag}: no test of the configured policy", text=tag + ":policy-test")
    if not ok:
        return
    t = pt[0]
    has = "T" if isinstance(t.ast.ops[0], ast.NotEq) else "F"
    none = "F" if has == "T" else "T"
    heads = [n for n in c.nodes if n.kind == "loop"]
    hb = c.reachable([m for m, l in t.succ if l == has], avoid=heads + [m for m, l in t.succ if l == none], exc=False, include_src=True)
    nb = c.reachable([m for m, l in t.succ if l == none], avoid=heads + [m for m, l in t.succ if l == has], exc=False, include_src=True)
    ar = [n for n in c.nodes if n.kind == "call" and call_attr(n.ast) == "await_reset" and c.dominated_by_branch(t, has, n)]
    ctx.ob(R, fi, t, len(ar) == 1 and unparse(arg_of(ar[0].ast, 0)) == "self._default_reset_strategy" and unparse(ar[0].ast.func.value) == "tp_state", f"{tag}: with a policy the partition is not reset per that policy", text=tag + ":resets")
    se = [n for n in c.nodes if n.kind == "call" and call_attr(n.ast) == "_set_error" and c.dominated_by_branch(t, none, n)]
    ok = len(se) == 1
    if ok:
        ev = arg_of(se[0].ast, 1)
        ds = local_defs(c, unparse(ev)) if isinstance(ev, ast.Name) else []
        ds = [d for d in ds if c.dominated_by_branch(t, none, d)]
        ok = len(ds) == 1 and errname in unparse(def_value(ds[0])) and unparse(arg_of(se[0].ast, 0)) == "tp"
    ctx.ob(R, fi, t, ok, f"{tag}: policy none does not surface {errname} to the caller", text=tag + ":raises")
    ctx.ob(R, fi, t, not any(c.dominated_by_branch(t, none, n) for n in ar) and not any(n.kind == "call" and call_attr(n.ast) in ("reset_to", "seek") for n in nb), f"{tag}: policy none still moves the position", text=tag + ":none-keeps")


def rule_reply_shape(ctx):
    R = "reply-shape"
    ctx.rep.rule(R, "symbolic evaluation of _proc_offset_request for every selectable ListOffsets version: the offset reported is the entry's "
                    "offset (v0: the first element of its offsets array), the timestamp its timestamp (None in v0); the request carries "
                    "replica -1, the isolation level and the (partition, sentinel) pairs")
    pt = ProtoTable(ctx.repo)
    b = ctx.one([x for x in pt.builders() if x.name == "OffsetRequest"], "OffsetRequest builder")
    fi = ctx.fn(f"{FETCHER}._proc_offset_request")
    site = f"{fi.path}:{fi.node.lineno} {fi.qualname}"
    # an offset is taken only from an entry whose error code is NoError (facts on every path to the store)
    from ..rulekit import must_facts
    co = ctx.cfg(fi)
    mfo = must_facts(co)
    sts = [n for n in co.nodes if n.kind == "store" and isinstance(n.ast, ast.Subscript) and unparse(n.ast.value) == "res_offsets"]
    ctx.anchor(len(sts) >= 2, "res_offsets[partition] = ... stores in _proc_offset_request")
    for n in sts:
        ctx.ob(R, fi, n, ("error_type", "is", "Errors.NoError") in mfo[n] or ("error_type", "==", "Errors.NoError") in mfo[n],
               "an offset is recorded from a ListOffsets entry whose error code was not found to be NoError", text="offset-only-noerror:" + unparse(n.stmt.value)[:30])
    for rc in pt.builder_classes(b):
        v = pt.const(rc, "API_VERSION")
        resp = pt.response_type(rc)
        sch = pt.schema(resp)
        part = elem_schema(find_field(sch, ["topics", "partitions"]))
        names = [n for n, _ in part[1]]
        se = SymEval(interest=lambda c: c in ("<store>", "<unpack-mismatch>", "TopicPartition") or c.endswith("for_code"))
        paths = c03._run_with_response(se, fi.node, {"self": Unk("self"), "node_id": Unk("n"), "topic_data": Unk("td")}, make_struct(sch, pt.const(resp, "API_VERSION"), resp.name))
        st = [e for p in paths for e in p.events if e.callee == "<store>" and e.args[0].v.startswith("res_offsets[")]
        mism = [e for p in paths for e in p.events if e.callee == "<unpack-mismatch>"]
        codes = [e for p in paths for e in p.events if e.callee.endswith("for_code")]
        base = "topics[].partitions[]."
        k = f"{fi.qualname}|v{v}"
        ctx.rep.ob(R, site, k + "-unpack", not mism, f"ListOffsets v{v}: unpack arity mismatch against {names}")
        ctx.rep.ob(R, site, k + "-error", bool(codes) and all(e.args and e.args[0] == Field(base + "error_code") for e in codes), f"v{v}: error class from {codes[0].args if codes else None}")
        good = []
        for e in st:
            val = e.args[1]
            if isinstance(val, Tup) and len(val.items) == 2:
                off, ts = val.items
                if "offset" in names:
                    good.append(off == Field(base + "offset") and ts == Field(base + "timestamp"))
                else:
                    okv = (isinstance(off, Field) and off.path == base + "offsets[]") or (isinstance(off, Const) and off.v == -1) or \
                        (isinstance(off, Unk) and off.why == "UNKNOWN_OFFSET")
                    good.append(okv and ts == Const(None))
            else:
                good.append(False)
        ctx.rep.ob(R, site, k + "-offset", bool(st) and all(good), f"ListOffsets v{v}: recorded (offset, timestamp) = {[e.args[1] for e in st][:2]} against fields {names}")
        ctx.rep.ob(R, site, k + "-key", bool(st) and all(isinstance(e.args[2], __import__('sa.symeval', fromlist=['Unk']).Unk) for e in st), f"v{v}: offsets filed under {st[0].args[2] if st else None}")
    c = ctx.cfg(fi)
    rq = ctx.one(c.calls(name="OffsetRequest"), "OffsetRequest(...)")
    a = [unparse(x) for x in rq.ast.args]
    ctx.ob(R, fi, rq, a == ["-1", "self._isolation_level", "list(topic_data.items())"], f"OffsetRequest({a})", text="request")
    tp = [n for n in c.calls(name="TopicPartition")]
    ctx.ob(R, fi, fi.node, len(tp) == 1 and [unparse(x) for x in tp[0].ast.args] == ["topic", "part"], "partition identity of the reply entry", text="tp")



def sentinel_exact(ctx, R):
    fi = ctx.fn(f"{GC}._do_fetch_commit_offsets")
    c = ctx.cfg(fi)
    st = [n for n in c.nodes if n.kind == "store" and isinstance(n.ast, ast.Subscript) and unparse(n.ast.value) == "offsets"]
    ctx.anchor(len(st) == 1, "offsets[tp] = ... in _do_fetch_commit_offsets")
    if len(st) == 1:
        # which reply offsets count as `committed`: exactly the non-negative ones (-1 = UNKNOWN_OFFSET is the only sentinel); decided by
        # evaluating the guard facts that hold at the store for the boundary values -1, 0, 1
        import re
        from ..rulekit import must_facts
        facts = [a for a in must_facts(c)[st[0]] if re.search(r"(?<![\w.])offset(?![\w])", a[0] + " " + a[2])]
        OPS = {"<": lambda a, b: a < b, "<=": lambda a, b: a <= b, "==": lambda a, b: a == b, "!=": lambda a, b: a != b}

        def val(tx, v):
            if tx == "offset":
                return v
            if tx in ("UNKNOWN_OFFSET", "-1"):
                return -1
            if re.fullmatch(r"-?\d+", tx):
                return int(tx)
            return None
        verdict = {}
        evaluable = True
        for v in (-1, 0, 1, 2 ** 40):
            r = True
            for l, op, rr in facts:
                a, b = val(l, v), val(rr, v)
                if a is None or b is None or op not in OPS:
                    evaluable = False
                    continue
                r = r and OPS[op](a, b)
            verdict[v] = r
        ok = evaluable and bool(facts) and verdict == {-1: False, 0: True, 1: True, 2 ** 40: True}
        ctx.ob(R, fi, st[0], ok, f"the reply offset is recorded as committed under the guards {sorted(facts)}: recorded for {[v for v, r in verdict.items() if r]} "
                                 "-- it must be recorded exactly when it is not -1 (a committed offset of 0 is a commit; dropping it resets the position by policy)",
               text="sentinel-exact")


def rule_committed_source(ctx):
    R = "committed-source"
    ctx.rep.rule(R, "waiters for the committed offset are answered from the OffsetFetch reply for exactly the partitions that were asked about "
                    "(list captured before the round-trip), UNKNOWN when the reply has none; group-less consumers answer UNKNOWN; the refresh task "
                    "serves the assignment it was started for")
    fi = ctx.fn(f"{GC}._maybe_refresh_commit_offsets")
    c = ctx.cfg(fi)
    fo = ctx.one(_awaits(c, "_do_fetch_commit_offsets"), "await _do_fetch_commit_offsets")
    asked = arg_of(fo.ast.value, 0)
    ok = isinstance(asked, ast.Name)
    loops = [n for n in c.nodes if n.kind == "foriter" and c.dominates(fo, n)]
    if ok:
        ds = local_defs(c, asked.id)
        ok = len(ds) == 1 and unparse(def_value(ds[0])) == f"{fi.params()[1]}.requesting_committed()" and c.dominates(ds[0], fo)
        ok = ok and len(loops) == 1 and unparse(loops[0].ast.iter) == asked.id
    ctx.ob(R, fi, fo, ok, "the partitions answered after the OffsetFetch are not exactly the ones asked about before it: a partition that started "
                          "waiting meanwhile would be told 'nothing committed'", text="answers-what-was-asked")
    # every waiter is answered: a partition is listed as requesting exactly when it has waiters -- nothing else may exclude it,
    # or the update task that awaits fetch_committed() hangs for ever (and with it the node it occupies)
    frq = ctx.fn("aiokafka.consumer.subscription_state.Assignment.requesting_committed")
    conds = [n.test for n in ast.walk(frq.node) if isinstance(n, ast.If)] + [i for n in ast.walk(frq.node) if isinstance(n, ast.comprehension) for i in n.ifs]
    ctx.anchor(len(conds) >= 1, "filter of requesting_committed")
    attrs = {x.attr for cnd in conds for x in ast.walk(cnd) if isinstance(x, ast.Attribute)}
    calls_ = [x for cnd in conds for x in ast.walk(cnd) if isinstance(x, ast.Call)]
    okf = "_committed_futs" in attrs and attrs <= {"_committed_futs", "state_value"} and all(call_attr(x) == "state_value" for x in calls_) \
        and all(not isinstance(x, (ast.UnaryOp, ast.BoolOp, ast.Compare)) for cnd in conds for x in ast.walk(cnd))
    ctx.ob(R, frq, frq.node, okf, f"requesting_committed() filters on {sorted(attrs)}: a partition with pending fetch_committed() waiters can be left out, "
                                  "its waiters are never answered and the position update that awaits them never finishes", text="all-waiters-listed")
    ffc = ctx.fn("aiokafka.consumer.subscription_state.TopicPartitionState.fetch_committed")
    sfc = unparse(ffc.node)
    ctx.ob(R, ffc, ffc.node, "self._committed_futs.append(" in sfc and "commit_refresh_needed.set()" in sfc, "fetch_committed does not register its future and wake the refresh task", text="waiter-registered")
    fuc = ctx.fn("aiokafka.consumer.subscription_state.TopicPartitionState.update_committed")
    cu = ctx.cfg(fuc)
    srs = [n for n in cu.calls(attr="set_result")]
    lp = [h for h in cu.nodes if h.kind == "loop" and isinstance(h.ast, ast.For) and unparse(h.ast.iter) == "self._committed_futs"]
    ctx.ob(R, fuc, fuc.node, len(lp) == 1 and len(srs) == 1 and srs[0] in cu.loop_body(lp[0]), "update_committed does not resolve every registered waiter", text="all-waiters-resolved")
    uc = c.calls(attr="update_committed")
    it = [t for t in c.nodes if t.kind == "test" and isinstance(t.ast, ast.Compare) and len(t.ast.ops) == 1 and isinstance(t.ast.ops[0], (ast.In, ast.NotIn)) and unparse(t.ast.comparators[0]) == "offsets"]
    ok = len(uc) in (1, 2) and len(it) == 1
    if len(uc) == 1 and not it:
        # the dict.get spelling: update_committed(offsets.get(tp, <nothing committed>))
        a0 = arg_of(uc[0].ast, 0)
        if isinstance(a0, ast.Call) and unparse(a0.func) == "offsets.get" and len(a0.args) == 2:
            dflt = a0.args[1]
            if isinstance(dflt, ast.Name):
                dd = local_defs(c, dflt.id)
                dflt = def_value(dd[0]) if len(dd) == 1 else None
            la_ = c.enclosing(uc[0], types=(ast.For,), role="body")
            ok = dflt is not None and "UNKNOWN_OFFSET" in unparse(dflt) and bool(la_) and unparse(a0.args[0]) == unparse(la_[0][0].target)
            ctx.ob(R, fi, fi.node, ok, "committed waiters are not answered `reply offset, else UNKNOWN`", text="answer-values")
            it = None
    if it is not None and ok:
        l_in, l_out = ("T", "F") if isinstance(it[0].ast.ops[0], ast.In) else ("F", "T")     # `tp in offsets` / `tp not in offsets`
        # the values handed to update_committed, each with the node that decides under which arm it is chosen (the call itself, or the
        # definition of the local that is passed)
        vals = []
        for u in uc:
            a0 = arg_of(u.ast, 0)
            ds = local_defs(c, a0.id) if isinstance(a0, ast.Name) else []
            if ds:
                vals += [(def_value(d), d) for d in ds]
            else:
                vals.append((a0, u))
        a = [v for v, n in vals if v is not None and c.dominated_by_branch(it[0], l_in, n)]
        b = [v for v, n in vals if v is not None and c.dominated_by_branch(it[0], l_out, n)]
        ok = len(a) == 1 and len(b) == 1 and len(vals) == 2 and unparse(a[0]) == f"offsets[{unparse(it[0].ast.left)}]" and "UNKNOWN_OFFSET" in unparse(b[0]) \
            and all(c.exit not in c.reachable([m for m, l in it[0].succ if l == lab], avoid=set(uc), exc=False, include_src=True) or True for lab in ("T", "F"))
    if it is not None:
        ctx.ob(R, fi, fi.node, ok, "committed waiters are not answered `reply offset, else UNKNOWN`", text="answer-values")
    sentinel_exact(ctx, R)
    ds = local_defs(c, "offsets")
    ctx.ob(R, fi, fi.node, len(ds) == 1 and ds[0].stmt is fo.stmt, "`offsets` is not the OffsetFetch result", text="offsets-def")
    hs = [m for m, l in fo.succ if l == "exc" and m.kind == "handler"]
    ok = any("KafkaError" in unparse(h.ast.type) for h in hs)
    if ok:
        h = [h for h in hs if "KafkaError" in unparse(h.ast.type)][0]
        r = c.reachable([h], exc=False)
        ok = not any(n.kind == "call" and call_attr(n.ast) == "update_committed" for n in r) and any(n.kind == "return" and const_value(n.ast.value) is False for n in r)
    ctx.ob(R, fi, fo, ok, "a failed OffsetFetch answers the waiters (with 'nothing committed') instead of retrying", text="failure-retries")
    fu = ctx.fn(f"{TPS}.update_committed")
    cu = ctx.cfg(fu)
    sr = cu.calls(attr="set_result")
    ctx.ob(R, fu, fu.node, len(sr) == 1 and unparse(arg_of(sr[0].ast, 0)) == fu.params()[1] and any(unparse(a.iter) == "self._committed_futs" for a, r in sr[0].within if isinstance(a, ast.For)), "update_committed does not resolve every waiter with the given offset", text="update-committed")
    ff = ctx.fn(f"{TPS}.fetch_committed")
    cf = ctx.cfg(ff)
    ok = any(unparse(n.ast.func.value) == "self._committed_futs" for n in cf.calls(attr="append")) and any("commit_refresh_needed" in unparse(n.ast.func.value) for n in cf.calls(attr="set"))
    ctx.ob(R, ff, ff.node, ok, "fetch_committed does not register a waiter and wake the refresh task", text="fetch-committed")
    fr = ctx.fn(f"{GC}._commit_refresh_routine")
    cr = ctx.cfg(fr)
    mr = ctx.one(_awaits(cr, "_maybe_refresh_commit_offsets"), "await _maybe_refresh_commit_offsets")
    ctx.ob(R, fr, mr, unparse(arg_of(mr.ast.value, 0)) == fr.params()[1], "refresh task serves another assignment", text="refresh-assignment")
    clr = [n for n in cr.calls(attr="clear")]
    ctx.ob(R, fr, mr, len(clr) == 1 and cr.dominates(clr[0], mr) and clr[0] in cr.loop_body(cr.find("loop")[0]), "refresh event is cleared after (not before) reading the waiters: a request could be lost", text="clear-before-read")
    fn = ctx.fn(f"{NOGROUP}._reset_committed_routine")
    cn = ctx.cfg(fn)
    uc = cn.calls(attr="update_committed")
    ok = len(uc) == 1 and "UNKNOWN_OFFSET" in unparse(arg_of(uc[0].ast, 0)) and any(unparse(a.iter) == "assignment.requesting_committed()" for a, r in uc[0].within if isinstance(a, ast.For))
    ctx.ob(R, fn, fn.node, ok, "group-less consumer does not answer UNKNOWN to committed-offset waiters", text="nogroup-unknown")
    fa = ctx.fn("aiokafka.consumer.subscription_state.Assignment.requesting_committed")
    src = unparse(fa.node)
    ctx.ob(R, fa, fa.node, "_committed_futs" in src and "requesting.append(tp)" in src, "requesting_committed", text="requesting-def")


def run(ctx):
    rep = ctx.rep
    rep.explanation = ("C13 structural clauses: re-validation of the partition state after every suspension in the position update (a concurrent seek "
                       "wins), state transitions of seek / reset_to / await_reset, the policy arms (committed, unknown, out of range x policy), "
                       "ListOffsets reply shape per version by symbolic evaluation, and where the committed offset comes from.")
    rule_revalidate(ctx)
    rule_seek_wins_state(ctx)
    rule_policy(ctx)
    rule_reply_shape(ctx)
    rule_committed_source(ctx)
    c03.rule_seek_drop(ctx)
    c03.rule_accept(ctx)
    from . import c08
    c08.rule_level_flow(ctx)
    from . import c11
    c11.rule_nested_fresh(ctx, "reply-shape")      # the ListOffsets v0 builder assembles (partition, timestamp, 1) lists per topic
    from .common import rule_iterator_reraises, rule_isolation_mapping
    rule_iterator_reraises(ctx, "policy")
    rule_isolation_mapping(ctx, "level-flow")
    from .common import rule_instance_state
    rule_instance_state(ctx, ("aiokafka.consumer.",))
    rep.nd("that the offsets the broker reports are what is finally consumed")
