"""C11 -- API messages encode to the Kafka wire format and negotiate versions safely."""
from __future__ import annotations

import ast
import json
import os

from ..loader import AnalysisError, call_attr, call_name, dotted, unparse, walk_own
from ..prototab import ProtoTable, elem_schema, field_names, find_field, sig
from ..rulekit import arg_of, const_value, def_value, is_none_test, local_defs, holds_at, must_facts
from ..symeval import Const, Field, ListV, StructV, SymEval, Tup, Unk, deps_of
from . import c12

HERE = os.path.dirname(os.path.abspath(__file__))
FLEX_MAP = {"String": "CompactString", "Bytes": "CompactBytes"}

# parameters that change the request's meaning: never silently dropped (the property names them)
MUST_TRANSMIT_OR_REFUSE = {
    "ProduceRequest": ["transactional_id"], "FetchRequest": ["isolation_level"], "OffsetRequest": ["isolation_level"],
    "FindCoordinatorRequest": ["coordinator_type"], "DescribeGroupsRequest": ["include_authorized_operations"],
}
# silent drops accepted today, one reason each (frozen by reading; anything else that is dropped is reported)
ALLOWED_DROPS = {
    ("JoinGroupRequest", "rebalance_timeout"): "v0 has no rebalance timeout; the broker uses the session timeout",
    ("JoinGroupRequest", "group_instance_id"): "static membership (KIP-345) does not exist below v5; member behaves as dynamic",
    ("SyncGroupRequest", "group_instance_id"): "as JoinGroup: static membership does not exist below v3",
    ("FetchRequest", "rack_id"): "rack-aware fetching needs v11; the fetcher falls back to the leader and logs it",
    ("FetchRequest", "max_bytes"): "v1-2 have no request-level byte limit (KIP-74)",
    ("MetadataRequest", "allow_auto_topic_creation"): "below v4 brokers always auto-create; default is True",
    ("DescribeAclsRequest", "resource_pattern_type_filter"): "v0 predates prefixed ACLs; only LITERAL exists there",
    ("CreateAclsRequest", "resource_pattern_type_filter"): "v0 predates prefixed ACLs",
    ("DeleteAclsRequest", "resource_pattern_type_filter"): "v0 predates prefixed ACLs",
    ("CreateTopicsRequest", "validate_only"): "v0 has no validate_only",
    ("CreatePartitionsRequest", "validate_only"): "-",
}


def _pt(ctx):
    if not hasattr(ctx, "_prototab"):
        ctx._prototab = ProtoTable(ctx.repo)
    return ctx._prototab


def rule_pairing(ctx):
    R = "pairing"
    ctx.rep.rule(R, "for every struct a builder can select: API_KEY is the same through builder -> request struct -> RESPONSE_TYPE; the reply is "
                    "parsed with the schema registered for the version put in the header (the response class of that key and version, or one with an "
                    "identical schema); FLEXIBLE_VERSION <=> compact types and trailing tagged fields in request and response; _CLASSES are in "
                    "non-decreasing version order so that the reversed scan of prepare() returns the highest")
    pt = _pt(ctx)
    builders = pt.builders()
    if len(builders) < 30:
        raise AnalysisError(f"pairing: {len(builders)} builders found (floor 30)")
    resp_by = {}
    for pc in pt.response_structs():
        resp_by.setdefault((pt.const(pc, "API_KEY"), pt.const(pc, "API_VERSION")), []).append(pc)
    n = 0
    for b in builders:
        classes = pt.builder_classes(b)
        bkey = pt.const(b, "API_KEY")
        vers = [pt.const(c, "API_VERSION") for c in classes]
        site = f"{b.module.relpath}:{b.lineno} {b.name}"
        ctx.rep.ob(R, site, f"{b.name}|classes-order", all(isinstance(v, int) for v in vers) and vers == sorted(vers), f"{b.name}: struct versions {vers} are not ascending (prepare() scans them in reverse)")
        for rc in classes:
            n += 1
            v = pt.const(rc, "API_VERSION")
            rs = f"{rc.module.relpath}:{rc.lineno} {rc.name}"
            ctx.rep.ob(R, rs, f"{rc.name}|key", pt.const(rc, "API_KEY") == bkey, f"{rc.name}.API_KEY {pt.const(rc, 'API_KEY')} != builder's {bkey}")
            resp = pt.response_type(rc)
            ctx.rep.ob(R, rs, f"{rc.name}|has-response", resp is not None, f"{rc.name}: RESPONSE_TYPE is not a response class")
            if resp is None:
                continue
            ctx.rep.ob(R, rs, f"{rc.name}|response-key", pt.const(resp, "API_KEY") == bkey, f"{rc.name}: reply class {resp.name} has API_KEY {pt.const(resp, 'API_KEY')}")
            want = resp_by.get((bkey, v), [])
            got_sig = sig(pt.schema(resp))
            if want:
                ok = any(sig(pt.schema(w)) == got_sig and _names(pt.schema(w)) == _names(pt.schema(resp)) for w in want)
                ctx.rep.ob(R, rs, f"{rc.name}|response-version", ok,
                           f"{rc.name} (header version {v}) parses its reply with {resp.name} [{got_sig[:70]}] but {want[0].name} is [{sig(pt.schema(want[0]))[:70]}]")
            else:
                ctx.rep.ob(R, rs, f"{rc.name}|response-version", pt.const(resp, "API_VERSION") is not None, f"{rc.name}: no response class registered for version {v}")
            flex = bool(pt.const(rc, "FLEXIBLE_VERSION"))
            for which, sch in (("request", pt.schema(rc)), ("response", pt.schema(resp))):
                cm, tagged = _compactness(sch)
                if flex:
                    ok = cm in ("compact", "none") and tagged
                    ctx.rep.ob(R, rs, f"{rc.name}|flexible-{which}", ok, f"{rc.name} is FLEXIBLE but its {which} schema is {cm}, trailing tagged fields: {tagged}")
                else:
                    ok = cm in ("plain", "none") and not tagged
                    ctx.rep.ob(R, rs, f"{rc.name}|flexible-{which}", ok, f"{rc.name} is not flexible but its {which} schema is {cm}, tagged fields: {tagged}")
    if n < 95:
        raise AnalysisError(f"pairing: {n} selectable versions (floor 95)")
    ctx.rep.extra["selectable_versions"] = n
    # header form follows FLEXIBLE_VERSION
    fb = ctx.fn("aiokafka.protocol.api.RequestStruct.build_request_header")
    cb = ctx.cfg(fb)
    t = [x for x in cb.nodes if x.kind == "test" and unparse(x.ast) == "self.FLEXIBLE_VERSION"]
    ok = len(t) == 1
    if ok:
        def classes_on(label):
            out = set()
            for n in cb.nodes:
                if n.ast is not None and n.kind in ("call", "stmt", "return", "store") and cb.dominated_by_branch(t[0], label, n):
                    src_ = n.stmt if n.kind in ("stmt", "store") and n.stmt is not None else n.ast
                    out |= {x.id for x in ast.walk(src_) if isinstance(x, ast.Name) and x.id.startswith("RequestHeader_v")}
            return out
        # the flexible arm names only the v2 header, the other arm only the v1 header, and whatever they chose is what gets constructed
        rets = [n for n in cb.nodes if n.kind == "return" and isinstance(n.ast.value, ast.Call)]
        ok = classes_on("T") == {"RequestHeader_v2"} and classes_on("F") == {"RequestHeader_v1"} and bool(rets) and \
            all(cb.dominates(t[0], r) for r in rets)
    ctx.ob(R, fb, fb.node, ok, "request header form does not follow FLEXIBLE_VERSION", text="request-header-form")
    fp = ctx.fn("aiokafka.protocol.api.RequestStruct.parse_response_header")
    cp = ctx.cfg(fp)
    t = [x for x in cp.nodes if x.kind == "test" and unparse(x.ast) == "self.FLEXIBLE_VERSION"]
    ok = len(t) == 1 and any("ResponseHeader_v1.decode" in unparse(n.ast) and cp.dominated_by_branch(t[0], "T", n) for n in cp.nodes if n.kind == "call") and \
        any("ResponseHeader_v0.decode" in unparse(n.ast) and cp.dominated_by_branch(t[0], "F", n) for n in cp.nodes if n.kind == "call")
    ctx.ob(R, fp, fp.node, ok, "response header form does not follow FLEXIBLE_VERSION", text="response-header-form")
    hdr = {"RequestHeader_v1": "Int16 Int16 Int32 String", "RequestHeader_v2": "Int16 Int16 Int32 String TaggedFields", "ResponseHeader_v0": "Int32", "ResponseHeader_v1": "Int32 TaggedFields"}
    for hn, want in hdr.items():
        pc = pt.by_name.get(hn, [None])[0]
        ctx.anchor(pc is not None, f"header class {hn}")
        ctx.rep.ob(R, f"{pc.module.relpath}:{pc.lineno} {hn}", f"{hn}|layout", sig(pt.schema(pc)) == want, f"{hn} layout is [{sig(pt.schema(pc))}], Kafka: [{want}]")
    for hn in ("RequestHeader_v1", "RequestHeader_v2"):
        f = ctx.fn(f"aiokafka.protocol.api.{hn}.__init__")
        sc = [n for n in ctx.cfg(f).calls(attr="__init__")]
        a = [unparse(x) for x in sc[0].ast.args] if sc else []
        ctx.ob(R, f, f.node, a[:4] == ["request.API_KEY", "request.API_VERSION", "correlation_id", "client_id"], f"{hn} is filled with {a}", text=f"{hn}-fields")


def _names(t):
    if t is None:
        return None
    if t[0] == "schema":
        return [(n, _names(x)) for n, x in t[1]]
    if t[0] == "array":
        return _names(t[1])
    return None


def _compactness(t):
    """('compact'|'plain'|'mixed'|'none', has trailing TaggedFields at top level)"""
    kinds = set()

    def walk(x):
        if x is None:
            return
        if x[0] == "prim":
            if x[1] in ("String", "Bytes"):
                kinds.add("plain")
            elif x[1] in ("CompactString", "CompactBytes"):
                kinds.add("compact")
        elif x[0] == "array":
            kinds.add("compact" if x[2] else "plain")
            walk(x[1])
        elif x[0] == "schema":
            for _, y in x[1]:
                walk(y)
    walk(t)
    tagged = bool(t and t[0] == "schema" and t[1] and t[1][-1][1] == ("prim", "TaggedFields"))
    if not kinds:
        return "none", tagged
    if kinds == {"compact"}:
        return "compact", tagged
    if kinds == {"plain"}:
        return "plain", tagged
    return "mixed", tagged


def _select_via_helper(ctx, R, fi, c, builds, chooser):
    cc = ctx.cfg(chooser)
    rng = [d for d in c.nodes if d.kind == "stmt" and isinstance(d.ast, ast.Assign) and isinstance(d.ast.targets[0], ast.Tuple) and unparse(d.ast.value) == "versions[api_key]"]
    rng = ctx.one(rng, "min_version, max_version = versions[api_key]")
    mn, mx = [unparse(x) for x in rng.ast.targets[0].elts]
    kd = local_defs(c, "api_key")
    ctx.ob(R, fi, rng, len(kd) == 1 and unparse(def_value(kd[0])) == "self.API_KEY", "range looked up under another key", text="range-key")
    call = ctx.one(c.calls(attr=chooser.name), f"call of {chooser.name} in prepare")
    ps = chooser.params()[1:]
    okc = [unparse(a) for a in call.ast.args] == [mn, mx] and len(ps) == 2 and c.dominates(rng, call)
    ctx.ob(R, fi, call, okc, "the class chooser is not given the broker's (min, max) of this API key", text="chooser-args")
    pmn, pmx = (ps + ["?", "?"])[:2]
    loop = [n for n in ast.walk(chooser.node) if isinstance(n, ast.For) and unparse(n.iter) == "reversed(self._CLASSES)"][0]
    lv = unparse(loop.target)
    rets = [r for r in cc.nodes if r.kind == "return" and r.ast.value is not None and not (isinstance(r.ast.value, ast.Constant) and r.ast.value.value is None)]
    ok = bool(rets) and all(unparse(r.ast.value) == lv and holds_at(cc, r, pmn, "<=", f"{lv}.API_VERSION") and holds_at(cc, r, f"{lv}.API_VERSION", "<=", pmx) for r in rets)
    ctx.ob(R, chooser, chooser.node, ok, f"{chooser.name}() can hand out a struct class without `{pmn} <= class.API_VERSION <= {pmx}`: a version outside the broker's range would be put in the header", text="in-range:" + lv)
    ctx.ob(R, chooser, chooser.node, all(any(a is loop for a, _r in r.within) for r in rets), "candidates are not scanned highest version first (first match returned from the reversed scan)", text="highest-first:" + lv)
    res = unparse(call.stmt.targets[0]) if isinstance(call.stmt, ast.Assign) else None
    for b in builds:
        a0 = unparse(arg_of(b.ast, 0))
        if c.dominates(rng, b):
            from ..rulekit import none_tests
            nt = none_tests(c, res) if res else []
            ok = a0 == res and isinstance(b.stmt, ast.Return) and bool(nt) and c.dominated_by_branch(nt[0][0], nt[0][2], b) and \
                any(n.kind == "raise" for n in c.reachable([m for m, l in nt[0][0].succ if l == nt[0][1]], exc=False, include_src=True))
            ctx.ob(R, fi, b, ok, "prepare() does not build exactly the class the chooser returned (raising when it found none)", text="builds-chosen")
        else:
            ut = [t for t in c.nodes if t.kind == "test" and isinstance(t.ast, ast.Compare) and isinstance(t.ast.ops[0], ast.NotIn) and unparse(t.ast.comparators[0]) == "versions"]
            at = [t for t in c.nodes if t.kind == "test" and unparse(t.ast) == "self.ALLOW_UNKNOWN_API_VERSION"]
            ok = len(ut) == 1 and len(at) == 1 and c.dominated_by_branch(ut[0], "T", b) and c.dominated_by_branch(at[0], "T", b) and a0 == "self._CLASSES[0]"
            ctx.ob(R, fi, b, ok, "a struct is built without consulting the broker's range (allowed only for ALLOW_UNKNOWN_API_VERSION on an unknown key, lowest version)", text="unknown-key-build")
    ut = [t for t in c.nodes if t.kind == "test" and isinstance(t.ast, ast.Compare) and isinstance(t.ast.ops[0], ast.NotIn) and unparse(t.ast.comparators[0]) == "versions"]
    if ut:
        tb = c.reachable([m for m, l in ut[0].succ if l == "T"], include_src=True)
        ok = any(n.kind == "raise" and "IncompatibleBrokerVersion" in unparse(n.ast.exc) for n in tb) and rng not in tb
        ctx.ob(R, fi, ut[0], ok, "an API key the broker did not advertise does not raise IncompatibleBrokerVersion", text="unknown-key-raises")
    ok = c.exit not in c.reachable([rng], avoid=[n for n in c.nodes if n.kind == "return"], exc=False)
    ctx.ob(R, fi, fi.node, ok, "prepare() can return None when no version is in range", text="no-match-raises")


def rule_select(ctx):
    R = "select"
    ctx.rep.rule(R, "Request.prepare: every struct it builds after the version lookup satisfies min <= API_VERSION <= max of the broker's "
                    "advertised range (scanning reversed(_CLASSES): highest first); an API key the broker did not advertise raises "
                    "IncompatibleBrokerVersion unless the request allows unknown versions; nothing in range raises")
    fi = ctx.fn("aiokafka.protocol.api.Request.prepare")
    c = ctx.cfg(fi)
    builds = c.calls(attr="build")
    ctx.floor(builds, 2, "self.build(...) calls in prepare")
    # the scan over the known struct classes may live in prepare() itself or in a helper it calls
    chooser = None
    for q, f in ctx.repo.funcs.items():
        if q.startswith("aiokafka.protocol.api.Request.") and f is not fi and any(isinstance(n, ast.For) and unparse(n.iter) == "reversed(self._CLASSES)" for n in ast.walk(f.node)):
            chooser = f
    if chooser is not None and not any(isinstance(n, ast.For) for n in ast.walk(fi.node)):
        return _select_via_helper(ctx, R, fi, c, builds, chooser)
    rng = [d for d in c.nodes if d.kind == "stmt" and isinstance(d.ast, ast.Assign) and isinstance(d.ast.targets[0], ast.Tuple) and unparse(d.ast.value) == "versions[api_key]"]
    rng = ctx.one(rng, "min_version, max_version = versions[api_key]")
    mn, mx = [unparse(x) for x in rng.ast.targets[0].elts]
    kd = local_defs(c, "api_key")
    ctx.ob(R, fi, rng, len(kd) == 1 and unparse(def_value(kd[0])) == "self.API_KEY", "range looked up under another key", text="range-key")
    for b in builds:
        a0 = arg_of(b.ast, 0)
        if c.dominates(rng, b):
            # guard facts that hold on every path to the build (any spelling: chained, two tests, negated skip-guards)
            ver = f"{unparse(a0)}.API_VERSION"
            ok = holds_at(c, b, mn, "<=", ver) and holds_at(c, b, ver, "<=", mx)
            chosen_local = False
            if not ok and isinstance(a0, ast.Name):
                # the search-then-build form: `found = None; for c in reversed(_CLASSES): if in range: found = c; break` ... build(found)
                ds = local_defs(c, a0.id)
                hits = [d for d in ds if isinstance(def_value(d), ast.Name)]
                nones = [d for d in ds if isinstance(def_value(d), ast.Constant) and def_value(d).value is None]
                if len(hits) == 1 and len(hits) + len(nones) == len(ds):
                    lv_ = def_value(hits[0]).id
                    la_ = c.enclosing(hits[0], types=(ast.For,), role="body")
                    nxt_ = [m for m, _l in hits[0].succ] if hits[0].kind != "store" else []
                    after = c.reachable([hits[0]], exc=False)
                    brk = [n for n in after if n.kind == "break"]
                    ok = holds_at(c, hits[0], mn, "<=", f"{lv_}.API_VERSION") and holds_at(c, hits[0], f"{lv_}.API_VERSION", "<=", mx) \
                        and ((a0.id, "is not", "None") in must_facts(c)[b]) and bool(la_) and unparse(la_[0][0].iter) == "reversed(self._CLASSES)" \
                        and unparse(la_[0][0].target) == lv_ and bool(brk) and c.loop_head(la_[0][0]) not in c.reachable([hits[0]], avoid=set(brk), exc=False)
                    chosen_local = ok
            ctx.ob(R, fi, b, ok, f"prepare() can build {unparse(a0)} without `{mn} <= {unparse(a0)}.API_VERSION <= {mx}`: a version outside the broker's range would be put in the header", text="in-range:" + unparse(a0))
            la = c.enclosing(b, types=(ast.For,), role="body")
            ok = chosen_local or (bool(la) and unparse(la[0][0].iter) == "reversed(self._CLASSES)" and unparse(la[0][0].target) == unparse(a0))
            ctx.ob(R, fi, b, ok, "candidates are not scanned highest version first", text="highest-first:" + unparse(a0))
            ctx.ob(R, fi, b, isinstance(b.stmt, ast.Return), "the first struct in range is not returned", text="returns-first")
        else:
            # decided on guard facts (either polarity of the membership test, either order of the two arms)
            fb_ = must_facts(c)[b]
            ok = any(a[1] == "not in" and a[2] == "versions" for a in fb_) and ("self.ALLOW_UNKNOWN_API_VERSION", "truthy", "") in fb_ and unparse(a0) == "self._CLASSES[0]"
            ctx.ob(R, fi, b, ok, "a struct is built without consulting the broker's range (allowed only for ALLOW_UNKNOWN_API_VERSION on an unknown key, lowest version)", text="unknown-key-build")
    ut = [t for t in c.nodes if t.kind == "test" and isinstance(t.ast, ast.Compare) and isinstance(t.ast.ops[0], (ast.NotIn, ast.In)) and unparse(t.ast.comparators[0]) == "versions"]
    if ut:
        unknown_arm = "T" if isinstance(ut[0].ast.ops[0], ast.NotIn) else "F"
        tb = c.reachable([m for m, l in ut[0].succ if l == unknown_arm], include_src=True)
        ok = any(n.kind == "raise" and "IncompatibleBrokerVersion" in unparse(n.ast.exc) for n in tb) and rng not in tb
        ctx.ob(R, fi, ut[0], ok, "an API key the broker did not advertise does not raise IncompatibleBrokerVersion", text="unknown-key-raises")
    else:
        ctx.ob(R, fi, fi.node, False, "prepare() does not test whether the broker advertised the API key", text="unknown-key-raises")
    # no match -> raise, never fall off the end
    ok = c.exit not in c.reachable([rng], avoid=[n for n in c.nodes if n.kind == "return"], exc=False)
    ctx.ob(R, fi, fi.node, ok, "prepare() can return None when no version is in range", text="no-match-raises")
    # _CLASSES comes from the generic argument, in order
    fs = ctx.fn("aiokafka.protocol.api.Request.__init_subclass__")
    src = unparse(fs.node)
    ctx.ob(R, fs, fs.node, "cls._CLASSES = get_args(get_args(base_classes[0])[0])" in src and "cls._CLASSES = (generic_type,)" in src, "_CLASSES is not the builder's generic argument", text="classes-source")
    # connection: versions table filled from ApiVersions, (min, max) per key
    fv = ctx.fn("aiokafka.conn.AIOKafkaConnection._do_version_lookup")
    cv = ctx.cfg(fv)
    st = [n for n in cv.nodes if n.kind == "store" and isinstance(n.ast, ast.Subscript) and unparse(n.ast.value) == "versions"]
    ok = len(st) == 1 and unparse(st[0].stmt.value) == "(min_version, max_version)" and unparse(st[0].ast.slice) == "api_key"
    la = cv.enclosing(st[0], types=(ast.For,), role="body") if st else []
    ok = ok and bool(la) and unparse(la[0][0].iter) == "response.api_versions" and unparse(la[0][0].target) == "(api_key, min_version, max_version)"
    sv = cv.stores(attr="_versions")
    ok = ok and len(sv) == 1 and unparse(sv[0].stmt.value) == "versions"
    ctx.ob(R, fv, fv.node, ok, "the per-connection version table is not {api_key: (min, max)} of the ApiVersions reply", text="versions-table")
    pt = _pt(ctx)
    av = pt.by_name.get("ApiVersionResponse_v0", [None])[0]
    if av is not None:
        e = elem_schema(find_field(pt.schema(av), ["api_versions"]))
        ctx.rep.ob(R, f"{av.module.relpath}:{av.lineno} ApiVersionResponse_v0", "ApiVersionResponse|entry", field_names(e) == ["api_key", "min_version", "max_version"], f"api_versions entry fields {field_names(e)}")
    b = [x for x in pt.builders() if x.name == "ApiVersionRequest"]
    ctx.rep.ob(R, "aiokafka/protocol/admin.py ApiVersionRequest", "ApiVersionRequest|allow-unknown", len(b) == 1 and pt.const(b[0], "ALLOW_UNKNOWN_API_VERSION") is True, "ApiVersionRequest must be sendable before versions are known")
    for x in pt.builders():
        if x.name != "ApiVersionRequest":
            ctx.rep.ob(R, f"{x.module.relpath}:{x.lineno} {x.name}", f"{x.name}|allow-unknown", not pt.const(x, "ALLOW_UNKNOWN_API_VERSION"), f"{x.name} may be sent without knowing the broker's versions")


def _self_struct(pt, b):
    """StructV standing for `self` inside build(): attribute -> Field('param:<name>') from the stores of __init__."""
    init = b.methods.get("__init__")
    fields, params = {}, []
    if init is None:
        return StructV({}, None, b.name), params
    params = [a.arg for a in init.args.posonlyargs + init.args.args + init.args.kwonlyargs][1:]
    for s in ast.walk(init):
        if isinstance(s, ast.Assign) and len(s.targets) == 1 and isinstance(s.targets[0], ast.Attribute) and unparse(s.targets[0].value) == "self":
            used = [x.id for x in ast.walk(s.value) if isinstance(x, ast.Name) and x.id in params]
            if isinstance(s.value, ast.Name) and s.value.id in params:
                fields[s.targets[0].attr] = Field("param:" + s.value.id)
            elif used:
                fields[s.targets[0].attr] = Unk(unparse(s.value), ["param:" + u for u in used])
    return StructV(fields, None, b.name), params


class _ClassV(StructV):
    pass


def rule_builders(ctx):
    R = "builders"
    ctx.rep.rule(R, "partial evaluation of every builder's build() for every version it can select: each returning path constructs the struct "
                    "with exactly as many arguments as the version's schema has fields; a constructor parameter that has the same name as a schema "
                    "field lands in that field's position; a parameter is transmitted, or the path that omits it is guarded (raises "
                    "IncompatibleBrokerVersion when the parameter is set), or the omission is on the reviewed allow-list; the parameters the "
                    "property names are never silently dropped")
    pt = _pt(ctx)
    n_eval = 0
    for b in pt.builders():
        build = b.methods.get("build")
        ctx.anchor(build is not None, f"{b.name}.build")
        selfv, params = _self_struct(pt, b)
        pcls = build.args.args[1].arg
        for rc in pt.builder_classes(b):
            v = pt.const(rc, "API_VERSION")
            sch = pt.schema(rc)
            names = field_names(sch)
            n_eval += 1
            se = SymEval(interest=lambda c, pcls=pcls: c in (pcls, "<raise>", "<return>"))
            cls_v = _ClassV({}, v, rc.name)
            try:
                paths = se.run_function(build, {"self": selfv, pcls: cls_v})
            except AnalysisError as e:
                ctx.rep.ob(R, f"{b.module.relpath}:{build.lineno} {b.name}.build", f"{b.name}|v{v}-evaluable", False, f"{b.name}.build cannot be evaluated for v{v}: {e}")
                continue
            site = f"{b.module.relpath}:{build.lineno} {b.name}.build"
            rets = []
            for p in paths:
                cons = [e for e in p.events if e.callee == pcls]
                raised = [e for e in p.events if e.callee == "<raise>"]
                if p.end == "raise":
                    continue
                if cons:
                    rets.append((p, cons[-1]))
                elif p.end == "return" or p.end is None:
                    rets.append((p, None))
            ctx.rep.ob(R, site, f"{b.name}|v{v}-returns", bool(rets) and all(c is not None for _, c in rets), f"{b.name} v{v}: a path returns without constructing the struct")
            for p, con in rets:
                if con is None:
                    continue
                args = list(con.args)
                kw = con.kwargs
                ok = (len(args) == len(names) and not kw) or (not args and set(kw) <= set(names))
                ctx.rep.ob(R, site, f"{b.name}|v{v}-arity", ok, f"{b.name} v{v}: constructs {rc.name} with {len(args)} arguments, schema has {len(names)} fields {names}")
                if not ok or kw:
                    continue
                # name alignment
                for i, a in enumerate(args):
                    if isinstance(a, Field) and a.path.startswith("param:"):
                        pn = a.path[6:]
                        if pn in names and names.index(pn) != i:
                            ctx.rep.ob(R, site, f"{b.name}|v{v}-position-{pn}", False, f"{b.name} v{v}: parameter `{pn}` is passed as field #{i} `{names[i]}` but the schema has a field of that name at #{names.index(pn)}")
                        else:
                            ctx.rep.ob(R, site, f"{b.name}|v{v}-position-{pn}", True, "")
                # dropped parameters
                used = set()
                for a in args:
                    used |= {d[6:] for d in deps_of(a) if d.startswith("param:")}
                for pn in params:
                    if pn in used:
                        continue
                    guarded = _guarded(p.conds, pn, selfv)
                    must = pn in MUST_TRANSMIT_OR_REFUSE.get(b.name, [])
                    allowed = (b.name, pn) in ALLOWED_DROPS
                    ok = guarded or (allowed and not must)
                    ctx.rep.ob(R, site, f"{b.name}|v{v}-drop-{pn}", ok,
                               f"{b.name} v{v}: parameter `{pn}` does not reach the wire on a path with conditions {p.conds} and nothing refuses a set value"
                               + (" (the property names this parameter)" if must else ""))
    ctx.rep.extra["builder_versions_evaluated"] = n_eval
    if n_eval < 95:
        raise AnalysisError(f"builders: evaluated {n_eval} builder x version pairs (floor 95)")
    for k, ps in MUST_TRANSMIT_OR_REFUSE.items():
        bs = [x for x in pt.builders() if x.name == k]
        ctx.anchor(len(bs) == 1, f"builder {k}")
        _, params = _self_struct(pt, bs[0])
        for pn in ps:
            ctx.anchor(pn in params, f"{k} parameter {pn}")


def _guarded(conds, pn, selfv):
    """The path carries a condition saying the parameter is falsy / None (so a set value took the raising path)."""
    attrs = [a for a, f in selfv.fields.items() if isinstance(f, Field) and f.path == "param:" + pn]
    for text, val in conds:
        for a in attrs:
            t = f"self.{a}"
            if text == t and val is False:
                return True
            if text == f"not {t}" and val is True:
                return True
            if text == f"{t} is None" and val is True:
                return True
            if text == f"{t} is not None" and val is False:
                return True
            if text.startswith(f"{t} ") and val is False and any(op in text for op in (" != ", " > ", " >= ")):
                return True
    return False



# ---- nested elements built by build(): arity and source of every field, siblings across versions ---------------------------------
# reviewed sources of the per-partition entry the hot-path builders construct themselves (slot i of the caller's tuple / constant)
NESTED_SOURCES = {
    ("FetchRequest", "topics.partitions"): {"partition": "slot0", "fetch_offset": "slot1", "offset": "slot1", "max_bytes": "slot2",
                                            "log_start_offset": "const(-1)", "current_leader_epoch": "const(-1)"},
}


def _src(v):
    if isinstance(v, Const):
        return f"const({v.v!r})"
    sl = getattr(v, "slot", None)
    if sl is not None and sl[0] is not None:
        return f"slot{sl[0]}"
    if isinstance(v, Field):
        return v.path
    return "?"


def rule_nested(ctx):
    R = "builders-nested"
    ctx.rep.rule(R, "where build() constructs the elements of a nested array itself (tuples appended in a loop), every such tuple has exactly "
                    "the fields of the nested schema of the selected version, and a field of a given name is fed from the same source "
                    "(component i of the caller's tuple, or a constant) in every version that has it -- sibling versions must agree -- and, "
                    "for the reviewed hot-path builders, from the source the table states")
    pt = _pt(ctx)
    seen = {}
    n = 0
    for b in pt.builders():
        build = b.methods.get("build")
        selfv, params = _self_struct(pt, b)
        pcls = build.args.args[1].arg
        site = f"{b.module.relpath}:{build.lineno} {b.name}.build"
        for rc in pt.builder_classes(b):
            v = pt.const(rc, "API_VERSION")
            sch = pt.schema(rc)
            se = SymEval(interest=lambda c, pcls=pcls: c in (pcls, "<raise>", "<return>"))
            try:
                paths = se.run_function(build, {"self": selfv, pcls: _ClassV({}, v, rc.name)})
            except AnalysisError:
                continue      # reported by the builders rule
            for p in paths:
                cons = [e for e in p.events if e.callee == pcls]
                if p.end == "raise" or not cons:
                    continue
                args = list(cons[-1].args)
                if len(args) != len(sch[1]):
                    continue

                def walk(val, t, path):
                    nonlocal n
                    if t[0] == "array" and t[1][0] == "schema" and isinstance(val, ListV):
                        fields = t[1][1]
                        for it in val.items:
                            if not isinstance(it, Tup):
                                continue
                            n += 1
                            ok = len(it.items) == len(fields)
                            ctx.rep.ob(R, site, f"{b.name}|v{v}|{path}|arity", ok, f"{b.name} v{v}: an element of `{path}` is built with {len(it.items)} components, "
                                                                                   f"the schema has {[f for f, _ in fields]}")
                            if not ok:
                                continue
                            for (fname, ft), x in zip(fields, it.items):
                                if ft[0] == "array":
                                    walk(x, ft, f"{path}.{fname}")
                                    continue
                                src = _src(x)
                                seen.setdefault((b.name, path, fname), {}).setdefault(src, []).append(v)
                                want = NESTED_SOURCES.get((b.name, path), {}).get(fname)
                                if want is not None:
                                    ctx.rep.ob(R, site, f"{b.name}|v{v}|{path}.{fname}|source", src == want,
                                               f"{b.name} v{v}: field `{fname}` of `{path}` is fed from {src}, reviewed source is {want} "
                                               "(the bytes would not follow the layout for the given builder parameters)")
                for (fname, ft), a in zip(sch[1], args):
                    walk(a, ft, fname)
    for (bn, path, fname), srcs in sorted(seen.items()):
        ok = len(srcs) == 1
        bb = [x for x in pt.builders() if x.name == bn][0]
        ctx.rep.ob(R, f"{bb.module.relpath}:{bb.methods['build'].lineno} {bn}.build", f"{bn}|{path}.{fname}|siblings", ok,
                   f"{bn}: field `{fname}` of `{path}` is fed from different sources in different versions: { {k: sorted(set(vs)) for k, vs in srcs.items()} }")
    for key in NESTED_SOURCES:
        if not any(k[0] == key[0] and k[1] == key[1] for k in seen):
            raise AnalysisError(f"builders-nested: no nested construction found for {key} (anchor lost)")
    ctx.rep.extra["nested_elements_checked"] = n



def rule_conn_published_ready(ctx):
    R = "select"
    # a request is prepared against conn._versions; senders find connections in client._conns without taking a lock: a connection may
    # therefore be put there only once its handshake (ApiVersions, SASL) has finished, i.e. as the result of `await create_conn(...)`
    # (or after `await conn.connect()`), never before
    n = 0
    for q, fi in sorted(ctx.repo.funcs.items()):
        if not q.startswith("aiokafka.client.AIOKafkaClient."):
            continue
        c = None
        for st in walk_own(fi.node):
            if not (isinstance(st, ast.Assign) and any(isinstance(t_, ast.Subscript) and unparse(t_.value) == "self._conns" for t_ in st.targets)):
                continue
            n += 1
            c = c or ctx.cfg(fi)
            v = st.value
            ok = isinstance(v, ast.Await) and isinstance(v.value, ast.Call) and call_name(v.value) == "create_conn"
            if not ok and isinstance(v, ast.Name):
                node = [x for x in c.nodes if x.kind == "store" and x.stmt is st]
                ds = local_defs(c, v.id)
                for d in ds:
                    dv = def_value(d)
                    if isinstance(dv, ast.Await) and isinstance(dv.value, ast.Call) and call_name(dv.value) == "create_conn":
                        ok = True
                if not ok and node:
                    conn_aw = [x for x in c.nodes if x.kind == "await" and isinstance(x.ast, ast.Await) and isinstance(x.ast.value, ast.Call)
                               and call_attr(x.ast.value) == "connect" and unparse(x.ast.value.func.value) == v.id]
                    ok = any(c.dominates(a, node[0]) for a in conn_aw)
            ctx.ob(R, fi, st, ok, f"`{unparse(st)[:60]}` makes a connection visible to concurrent senders before its handshake has finished: "
                                  "their requests are prepared against an empty version table (spurious IncompatibleBrokerVersion, or the lowest version for lenient APIs) "
                                  "and, with SASL, are written into the authentication exchange", text="conn-visible-after-handshake")
    ctx.anchor(n >= 2, f"stores into client._conns: {n} < 2")


def rule_evolution(ctx):
    R = "evolution"
    ctx.rep.rule(R, "between consecutive versions of one message a field that keeps its name keeps its wire type (String/Bytes/Array may become "
                    "their compact forms at the flexible boundary) and fields common to both keep their relative order")
    pt = _pt(ctx)
    fam = {}
    for pc in pt.request_structs() + pt.response_structs():
        k = (pt.const(pc, "API_KEY"), pt.is_subclass(pc, "RequestStruct"))
        base = pc.name.rsplit("_v", 1)[0]
        fam.setdefault((k, base), []).append(pc)
    n = 0
    for (k, base), lst in sorted(fam.items(), key=lambda x: str(x[0])):
        lst = sorted(lst, key=lambda p: (pt.const(p, "API_VERSION") if isinstance(pt.const(p, "API_VERSION"), int) else -1, p.name))
        for a, b in zip(lst, lst[1:]):
            n += 1
            da, db = _flat(pt.schema(a)), _flat(pt.schema(b))
            bad = []
            for path, ta in da.items():
                tb = db.get(path)
                if tb is None:
                    continue
                if ta != tb and FLEX_MAP.get(ta, ta) != tb and not (ta.startswith("[") and tb.startswith("c[")):
                    bad.append((path, ta, tb))
            common_a = [p for p in da if p in db]
            common_b = [p for p in db if p in da]
            site = f"{b.module.relpath}:{b.lineno} {b.name}"
            ctx.rep.ob(R, site, f"{b.name}|types-vs-{a.name}", not bad, f"{a.name} -> {b.name}: field types changed {bad[:3]}")
            ctx.rep.ob(R, site, f"{b.name}|order-vs-{a.name}", common_a == common_b, f"{a.name} -> {b.name}: common fields reordered")
    if n < 100:
        raise AnalysisError(f"evolution: {n} consecutive pairs (floor 100)")


def _flat(t, prefix=""):
    out = {}
    if t is None or t[0] != "schema":
        return out
    for name, x in t[1]:
        p = f"{prefix}{name}"
        if x[0] == "prim":
            out[p] = x[1]
        elif x[0] == "array":
            out[p] = ("c[" if x[2] else "[")
            e = x[1]
            if e[0] == "schema":
                out.update(_flat(e, p + "."))
            else:
                out[p + ".[]"] = e[1] if e[0] == "prim" else "?"
        elif x[0] == "schema":
            out.update(_flat(x, p + "."))
    return out


def rule_layout(ctx):
    R = "layout"
    ctx.rep.rule(R, "wire signatures (field types in order, names ignored) of the client-path APIs equal the reference table transcribed from "
                    "the Kafka protocol guide (sa/ref_wire.json; DESIGN.md Appendix A.1)")
    pt = _pt(ctx)
    with open(os.path.join(os.path.dirname(HERE), "ref_wire.json")) as f:
        ref = json.load(f)
    reach = set()
    for b in pt.builders():
        for rc in pt.builder_classes(b):
            reach.add(rc.name)
            r = pt.response_type(rc)
            if r is not None:
                reach.add(r.name)
    n = 0
    for name, want in sorted(ref.items()):
        if name.startswith("_"):
            continue
        pcs = pt.by_name.get(name, [])
        ctx.anchor(len(pcs) == 1, f"struct class {name}")
        got = sig(pt.schema(pcs[0]))
        if name not in reach:
            # not selectable by any builder: outside the property's reach, reported as a note only
            if got != want:
                ctx.rep.note(f"unreachable struct {name}: layout [{got}] differs from Kafka's [{want}]")
            continue
        n += 1
        ctx.rep.ob(R, f"{pcs[0].module.relpath}:{pcs[0].lineno} {name}", f"{name}|wire", got == want, f"{name}: wire layout [{got}] differs from the Kafka protocol's [{want}]")
    ctx.rep.extra["layout_structs_compared"] = n
    if n < 100:
        raise AnalysisError(f"layout: {n} structs in the reference (floor 100)")


LEN_TYPES = {
    "String": ("Int16", 0), "Bytes": ("Int32", 0), "Array": ("Int32", 0),
    "CompactString": ("UnsignedVarInt32", 1), "CompactBytes": ("UnsignedVarInt32", 1), "CompactArray": ("UnsignedVarInt32", 1),
}
FIXED = {"Int8": (">b", 1), "Int16": (">h", 2), "Int32": (">i", 4), "UInt32": (">I", 4), "Int64": (">q", 8), "Float64": (">d", 8), "Boolean": (">?", 1)}


def rule_nested_fresh(ctx, R="builders"):
    """Request builders that assemble nested arrays themselves (per topic: a list of partition tuples): the inner list is created anew for
    every element of the outer loop.  One list created before the outer loop would be shared by all topics -- each topic entry would carry
    the partitions of every topic."""
    n = 0
    for q, fi in sorted(ctx.repo.funcs.items()):
        if not (q.startswith("aiokafka.protocol.") and fi.name == "build"):
            continue
        for outer in [x for x in ast.walk(fi.node) if isinstance(x, ast.For)]:
            for inner in [x for st in outer.body for x in ast.walk(st) if isinstance(x, ast.For)]:
                accs = {unparse(c_.func.value) for st in inner.body for c_ in ast.walk(st)
                        if isinstance(c_, ast.Call) and isinstance(c_.func, ast.Attribute) and c_.func.attr in ("append", "extend") and isinstance(c_.func.value, ast.Name)}
                for acc in accs:
                    # consumed by the outer iteration (attached to the outer element) after the inner loop
                    used = any(isinstance(x, ast.Name) and x.id == acc and isinstance(x.ctx, ast.Load) for st in outer.body if st is not inner and not any(y is inner for y in ast.walk(st))
                               for x in ast.walk(st) if not (isinstance(getattr(x, "_parent", None), ast.Attribute)))
                    if not used:
                        continue
                    n += 1
                    fresh = any(isinstance(st, (ast.Assign, ast.AnnAssign)) and any(isinstance(t, ast.Name) and t.id == acc for t in (st.targets if isinstance(st, ast.Assign) else [st.target])
                                                                                   for t in ([t] if not isinstance(t, ast.Tuple) else t.elts))
                                for st in outer.body)
                    ctx.ob(R, fi, outer, fresh, f"`{acc}` collects the inner elements of every `{unparse(outer.target)}` but is created outside the loop over `{unparse(outer.iter)[:30]}`: all outer "
                                                f"entries share one list (each topic is sent the partitions of every topic)", text=f"nested-list-fresh:{acc}")
    ctx.anchor(n >= 1, f"builders assembling nested arrays ({n})")


def _rest_terms(e):
    """Terms after the first of a left-nested `a + b + c` concatenation."""
    out = []
    while isinstance(e, ast.BinOp) and isinstance(e.op, ast.Add):
        out.insert(0, e.right)
        e = e.left
    return out


def rule_codec_symmetry(ctx):
    R = "codec-symmetry"
    ctx.rep.rule(R, "primitive codecs of protocol/types.py agree with themselves: fixed-width types pack and unpack with one struct format and "
                    "read exactly its size; every length-prefixed type writes its prefix with the same integer type it reads it with, with the "
                    "same bias (+1 compact) and the same null encoding, and nothing else produces prefix bytes; TaggedFields writes count, then "
                    "per field tag, size, bytes -- what decode reads; Schema/Array encode and decode every field in order")
    TY = "aiokafka.protocol.types"
    for name, (fmt, size) in FIXED.items():
        ci = ctx.repo.cls(f"{TY}.{name}")
        attrs = {s.targets[0].id: unparse(s.value) for s in ci.node.body if isinstance(s, ast.Assign) and isinstance(s.targets[0], ast.Name)}
        ok = attrs.get("_pack") == f"struct.Struct('{fmt}').pack" and attrs.get("_unpack") == f"struct.Struct('{fmt}').unpack"
        ctx.rep.ob(R, f"{ci.module.relpath}:{ci.node.lineno} {name}", f"{name}|format", ok, f"{name}: pack {attrs.get('_pack')} / unpack {attrs.get('_unpack')}, Kafka: big-endian '{fmt}'")
        fd = ctx.fn(f"{TY}.{name}.decode")
        rd = [n for n in ctx.cfg(fd).calls(attr="read")]
        ctx.ob(R, fd, fd.node, len(rd) == 1 and const_value(arg_of(rd[0].ast, 0)) == size and "cls._unpack" in unparse(fd.node), f"{name}.decode does not read exactly {size} byte(s) with its own format", text="reads-size")
        fe = ctx.fn(f"{TY}.{name}.encode")
        ctx.ob(R, fe, fe.node, "_pack(cls._pack, value)" in unparse(fe.node), f"{name}.encode does not use its own format", text="packs")
    for name, (lt, bias) in LEN_TYPES.items():
        fe = ctx.fn(f"{TY}.{name}.encode")
        fd = ctx.fn(f"{TY}.{name}.decode")
        ce, cd = ctx.cfg(fe), ctx.cfg(fd)
        # decode: first length read
        ld = [n for n in cd.calls(attr="decode") if unparse(n.ast.func.value) in ("Int16", "Int32", "UnsignedVarInt32")]
        ok = len(ld) == 1 and unparse(ld[0].ast.func.value) == lt
        if ok:
            v = ld[0].stmt.value if isinstance(ld[0].stmt, ast.Assign) else None
            got_bias = 1 if (isinstance(v, ast.BinOp) and isinstance(v.op, ast.Sub) and const_value(v.right) == 1) else (0 if v is ld[0].ast else None)
            ok = got_bias == bias
        ctx.ob(R, fd, fd.node, ok, f"{name}.decode does not read its length as {lt}{' - 1' if bias else ''}", text="decode-length")
        # encode: every return starts with <lt>.encode(<len + bias | null>) and no other byte producer precedes it
        rets = [r for r in ce.nodes if r.kind == "return"]
        good = bool(rets)
        nulls, lens = 0, 0
        for r in rets:
            first = _first_term(r.ast.value)
            if not (isinstance(first, ast.Call) and unparse(first.func) == f"{lt}.encode" and len(first.args) == 1):
                good = False
                continue
            a = first.args[0]
            cv = const_value(a)
            if cv is not None and isinstance(a, (ast.Constant, ast.UnaryOp)):
                nulls += 1
                if cv != (0 if bias else -1):
                    good = False
            else:
                lens += 1
                base = a.left if (isinstance(a, ast.BinOp) and isinstance(a.op, ast.Add) and const_value(a.right) == 1) else a
                has_bias = base is not a
                if has_bias != bool(bias) or not (isinstance(base, ast.Call) and unparse(base.func) == "len"):
                    good = False
                elif "Array" not in name:
                    # the prefix counts the BYTES that follow: len() is taken of the very object that is appended (for a string, the encoded
                    # bytes, not the characters)
                    rest = _rest_terms(r.ast.value)
                    same = len(rest) == 1 and len(base.args) == 1 and unparse(base.args[0]) == unparse(rest[0])
                    ctx.ob(R, fe, r, same, f"{name}.encode: the length prefix is len({unparse(base.args[0]) if base.args else '?'}) but the payload written is "
                                           f"`{' + '.join(unparse(x)[:30] for x in rest)}`: for non-ASCII text characters and bytes differ, and the reader takes the surplus for the next field",
                           text="prefix-counts-payload")
        ctx.ob(R, fe, fe.node, good and nulls == 1 and lens == 1, f"{name}.encode does not write its prefix as {lt}.encode(len{'+1' if bias else ''}) / null {'0' if bias else '-1'} on every path (a hand-rolled prefix cannot be shown to match the reader)", text="encode-length")
        # null test on the decode side
        nt = [t for t in cd.nodes if t.kind == "test" and isinstance(t.ast, ast.Compare) and unparse(t.ast.left) == "length"]
        ok = len(nt) == 1 and ((isinstance(nt[0].ast.ops[0], ast.Lt) and const_value(nt[0].ast.comparators[0]) == 0) or (isinstance(nt[0].ast.ops[0], ast.Eq) and const_value(nt[0].ast.comparators[0]) == -1))
        ctx.ob(R, fd, fd.node, ok, f"{name}.decode null test", text="decode-null")
        if "Array" not in name:
            rd = [n for n in cd.calls(attr="read")]
            ctx.ob(R, fd, fd.node, len(rd) == 1 and unparse(arg_of(rd[0].ast, 0)) == "length", f"{name}.decode does not read exactly `length` bytes", text="decode-body")
            ur = [t for t in cd.nodes if t.kind == "test" and isinstance(t.ast, ast.Compare) and "len(value)" in unparse(t.ast) and "length" in unparse(t.ast)]
            ctx.ob(R, fd, fd.node, len(ur) == 1, f"{name}.decode does not detect a short read", text="decode-underrun")
        else:
            ctx.ob(R, fd, fd.node, "[self.array_of.decode(data) for _ in range(length)]" in unparse(fd.node), f"{name}.decode does not decode `length` elements", text="decode-elements")
            ctx.ob(R, fe, fe.node, "(self.array_of.encode(item) for item in items)" in unparse(fe.node) and "*encoded_items" in unparse(fe.node), f"{name}.encode does not encode every element in order", text="encode-elements")
    # Schema
    fe = ctx.fn(f"{TY}.Schema.encode")
    fd = ctx.fn(f"{TY}.Schema.decode")
    ctx.ob(R, fe, fe.node, "b''.join((field.encode(item[i]) for i, field in enumerate(self.fields)))" in unparse(fe.node) and "len(item) != len(self.fields)" in unparse(fe.node), "Schema.encode", text="schema-encode")
    ctx.ob(R, fd, fd.node, "tuple((field.decode(data) for field in self.fields))" in unparse(fd.node), "Schema.decode", text="schema-decode")
    fs = ctx.fn("aiokafka.protocol.struct.Struct.encode")
    ctx.ob(R, fs, fs.node, "self.SCHEMA.encode([self.__dict__[name] for name in self.SCHEMA.names])" in unparse(fs.node), "Struct.encode", text="struct-encode")
    fs = ctx.fn("aiokafka.protocol.struct.Struct.decode")
    ctx.ob(R, fs, fs.node, "cls(*[field.decode(data) for field in cls.SCHEMA.fields])" in unparse(fs.node), "Struct.decode", text="struct-decode")
    # TaggedFields
    fe = ctx.fn(f"{TY}.TaggedFields.encode")
    fd = ctx.fn(f"{TY}.TaggedFields.decode")
    ce, cd = ctx.cfg(fe), ctx.cfg(fd)
    dseq = [unparse(n.ast)[:40] for n in cd.nodes if n.kind == "call" and (unparse(n.ast).startswith("UnsignedVarInt32.decode") or call_attr(n.ast) == "read")]
    la = [n for n in ce.nodes if n.kind == "foriter"]
    eseq_pre = [unparse(n.ast.args[0]) for n in ce.calls(attr="encode") if unparse(n.ast.func.value) == "UnsignedVarInt32" and not ce.enclosing(n, types=(ast.For,))]
    eseq_loop = []
    for n in ce.nodes:
        if n.kind == "store" and isinstance(n.stmt, ast.AugAssign) and ce.enclosing(n, types=(ast.For,)):
            eseq_loop.append(unparse(n.stmt.value))
    okd = dseq == ["UnsignedVarInt32.decode(data)", "UnsignedVarInt32.decode(data)", "UnsignedVarInt32.decode(data)", "data.read(size)"]
    ctx.ob(R, fd, fd.node, okd, f"TaggedFields.decode reads {dseq}", text="tagged-decode")
    oke = eseq_pre == ["len(value)"] and len(eseq_loop) == 3 and eseq_loop[0] == "UnsignedVarInt32.encode(k)" and eseq_loop[1] == "UnsignedVarInt32.encode(len(v))" and eseq_loop[2] == "v"
    ctx.ob(R, fe, fe.node, oke, f"TaggedFields.encode writes count then per field {eseq_loop}; decode reads tag, size, bytes: non-empty tagged fields do not round-trip", text="tagged-encode")


def _first_term(e):
    """First byte-producing term of a returned concatenation."""
    while True:
        if isinstance(e, ast.BinOp) and isinstance(e.op, ast.Add):
            e = e.left
        elif isinstance(e, ast.Call) and unparse(e.func) == "b''.join" and e.args:
            a = e.args[0]
            if isinstance(a, (ast.Tuple, ast.List)) and a.elts:
                e = a.elts[0]
            else:
                return a
        else:
            return e


def run(ctx):
    rep = ctx.rep
    rep.explanation = ("C11: the declarative protocol table (103 request / 103 response structs, 34 builders, 95 selectable versions) is evaluated "
                       "statically from the AST; pairing of request version and reply schema, flexible-header consistency, version selection in "
                       "prepare(), partial evaluation of every build() per version (arity, field alignment, no silent drops), schema evolution, wire "
                       "signatures against a reference table, and self-agreement of the primitive codecs.")
    rule_pairing(ctx)
    rule_select(ctx)
    rule_conn_published_ready(ctx)
    rule_builders(ctx)
    rule_nested(ctx)
    rule_nested_fresh(ctx)
    from .common import rule_requests_built_per_call
    R = "request-from-arguments"
    ctx.rep.rule(R, "the values of an API call reach its request builder: every request the client layer itself sends (FindCoordinator, Metadata) is "
                    "constructed in the call that sends it, and coordinator_lookup passes its own key and type to the builder -- version selection "
                    "and the refusal to drop a value the chosen version cannot express act on the values of THIS call")
    rule_requests_built_per_call(ctx, R)
    rule_evolution(ctx)
    rule_layout(ctx)
    rule_codec_symmetry(ctx)
    c12.rule_queue(ctx)
    c12.rule_one_stream(ctx, "pairing")
    from .common import rule_instance_state
    rule_instance_state(ctx, ("aiokafka.protocol.types.", "aiokafka.protocol.api.", "aiokafka.conn.",))
    rep.nd("value-level round-trip for all field values (integer extremes, varint boundaries): the varint arithmetic of UnsignedVarInt32 is not decided")
    rep.nd("VarInt32 / VarInt64 are not reachable from any schema; their (known) defects are not alarmed")
