"""Behaviour-preserving whole-package rewrites used to measure false alarms (tools/neutral_variants.py, thorough self-test)."""
import ast


def _neg(e):
    """Logical negation of a test expression, exact for every operand type."""
    if isinstance(e, ast.UnaryOp) and isinstance(e.op, ast.Not):
        return e.operand
    if isinstance(e, ast.Compare) and len(e.ops) == 1:
        swap = {ast.Is: ast.IsNot, ast.IsNot: ast.Is, ast.In: ast.NotIn, ast.NotIn: ast.In}
        t = type(e.ops[0])
        if t in swap:
            return ast.Compare(left=e.left, ops=[swap[t]()], comparators=e.comparators)
    return ast.UnaryOp(op=ast.Not(), operand=e)


class Flip(ast.NodeTransformer):
    """`if c: A else: B`  ->  `if not c: B else: A` for every if with an else that is not an elif chain."""

    def visit_If(self, node):
        self.generic_visit(node)
        if node.orelse and not (len(node.orelse) == 1 and isinstance(node.orelse[0], ast.If)):
            return ast.If(test=_neg(node.test), body=node.orelse, orelse=node.body)
        return node


class Guard(ast.NodeTransformer):
    """An else-less `if c: BODY` that is the last statement of a loop body becomes `if not c: continue` + BODY; as the last
    statement of a function body (BODY not ending the function differently) `if not c: return` + BODY."""

    def _last(self, body, jump):
        if body and isinstance(body[-1], ast.If) and not body[-1].orelse and len(body[-1].body) >= 1:
            i = body[-1]
            return body[:-1] + [ast.If(test=_neg(i.test), body=[jump], orelse=[])] + i.body
        return body

    def visit_For(self, node):
        self.generic_visit(node)
        node.body = self._last(node.body, ast.Continue())
        return node

    visit_AsyncFor = visit_For

    def visit_While(self, node):
        self.generic_visit(node)
        node.body = self._last(node.body, ast.Continue())
        return node

    def _fn(self, node):
        self.generic_visit(node)
        is_gen = any(isinstance(x, (ast.Yield, ast.YieldFrom)) for x in ast.walk(node))
        if not is_gen:
            node.body = self._last(node.body, ast.Return(value=None))
        return node

    visit_FunctionDef = _fn
    visit_AsyncFunctionDef = _fn


class WhileTrue(ast.NodeTransformer):
    """`while c: BODY` (no else, c not a constant)  ->  `while True: if not c: break; BODY`."""

    def visit_While(self, node):
        self.generic_visit(node)
        if node.orelse or isinstance(node.test, ast.Constant):
            return node
        return ast.While(test=ast.Constant(value=True), body=[ast.If(test=_neg(node.test), body=[ast.Break()], orelse=[])] + node.body, orelse=[])


class DeMorgan(ast.NodeTransformer):
    """In if/while tests: `a and b` -> `not (not a or not b)`, `a or b` -> `not (not a and not b)`."""

    def _t(self, e):
        if isinstance(e, ast.BoolOp):
            op = ast.Or() if isinstance(e.op, ast.And) else ast.And()
            return ast.UnaryOp(op=ast.Not(), operand=ast.BoolOp(op=op, values=[_neg(v) for v in e.values]))
        return e

    def visit_If(self, node):
        self.generic_visit(node)
        node.test = self._t(node.test)
        return node

    def visit_While(self, node):
        self.generic_visit(node)
        node.test = self._t(node.test)
        return node


class TmpVar(ast.NodeTransformer):
    """`return <expr>` (expr a call / operation)  ->  `_retN = <expr>; return _retN`, a fresh local per site."""

    def __init__(self):
        self.k = 0

    def _block(self, stmts):
        out = []
        for st in stmts:
            if isinstance(st, ast.Return) and isinstance(st.value, (ast.Call, ast.BinOp, ast.Compare, ast.BoolOp, ast.Subscript, ast.Attribute)) \
                    and not any(isinstance(x, (ast.Await, ast.Yield, ast.YieldFrom, ast.NamedExpr)) for x in ast.walk(st.value)):
                self.k += 1
                nm = f"_ret{self.k}"
                out.append(ast.Assign(targets=[ast.Name(id=nm, ctx=ast.Store())], value=st.value, type_comment=None))
                out.append(ast.Return(value=ast.Name(id=nm, ctx=ast.Load())))
            else:
                out.append(st)
        return out

    def generic_visit(self, node):
        super().generic_visit(node)
        for f in ("body", "orelse", "finalbody"):
            lst = getattr(node, f, None)
            if isinstance(lst, list) and lst and isinstance(lst[0], ast.stmt):
                setattr(node, f, self._block(lst))
        return node

    def visit_ClassDef(self, node):
        # class bodies have no returns of their own; functions inside are visited
        for i, st in enumerate(node.body):
            node.body[i] = self.visit(st)
        return node


class CondVar(ast.NodeTransformer):
    """`if <comparison / and-or test>:`  ->  `_condN = <test>; if _condN:` (first test of an if/elif chain only; loops untouched)."""

    def __init__(self):
        self.k = 0

    def _block(self, stmts):
        out = []
        for st in stmts:
            if isinstance(st, ast.If) and isinstance(st.test, (ast.Compare, ast.BoolOp)) \
                    and not any(isinstance(x, (ast.Await, ast.Yield, ast.YieldFrom, ast.NamedExpr)) for x in ast.walk(st.test)):
                self.k += 1
                nm = f"_cond{self.k}"
                out.append(ast.Assign(targets=[ast.Name(id=nm, ctx=ast.Store())], value=st.test, type_comment=None))
                st.test = ast.Name(id=nm, ctx=ast.Load())
            out.append(st)
        return out

    def generic_visit(self, node):
        super().generic_visit(node)
        if isinstance(node, ast.ClassDef) or isinstance(node, ast.Module):
            return node
        for f in ("body", "orelse", "finalbody"):
            lst = getattr(node, f, None)
            if isinstance(lst, list) and lst and isinstance(lst[0], ast.stmt):
                # an `elif` is the single If in an orelse list: leave the chain's later tests where they are (evaluation order)
                if f == "orelse" and isinstance(node, ast.If) and len(lst) == 1 and isinstance(lst[0], ast.If):
                    continue
                setattr(node, f, self._block(lst))
        return node


class SortDefs(ast.NodeTransformer):
    """Methods of every class re-ordered alphabetically (stable: same-name definitions such as property setters keep their order;
    non-function statements stay in front in their order)."""

    def visit_ClassDef(self, node):
        self.generic_visit(node)
        fns = [x for x in node.body if isinstance(x, (ast.FunctionDef, ast.AsyncFunctionDef))]
        if any(isinstance(x, (ast.FunctionDef, ast.AsyncFunctionDef)) is False and i > min((node.body.index(f) for f in fns), default=0)
               and not (isinstance(x, ast.Expr) and isinstance(x.value, ast.Constant)) for i, x in enumerate(node.body)):
            return node        # class-level statements between methods may depend on the order: leave the class alone
        rest = [x for x in node.body if not isinstance(x, (ast.FunctionDef, ast.AsyncFunctionDef))]
        node.body = rest + sorted(fns, key=lambda f: f.name)
        return node


TRANSFORMS = {"flip": Flip, "guard": Guard, "whiletrue": WhileTrue, "demorgan": DeMorgan, "tmpvar": TmpVar, "condvar": CondVar, "sortdefs": SortDefs}
