#!/venv/bin/python
"""Prepare one round of sub-agent work: round_prep.py seed|neutral <suffix> [ids...]

For each claimed property creates /tmp/seedwork/<PID>-<suffix>/{wt (scratch worktree of /repo HEAD), PROMPT.md} from the
templates in tools/.  The prompt contains the property text only (plus, for seed rounds, one-line summaries of the changes
earlier rounds produced, so that the new one is different); nothing from /verif's machinery."""
import glob
import json
import os
import shutil
import subprocess
import sys

VERIF = os.path.dirname(os.path.dirname(os.path.abspath(__file__)))

SEED_HINTS = {
    "E": """- Earlier rounds already produced the following changes for this property. Do NOT repeat them or close variants of them; pick a different function/file among the anchors, a different clause of the statement, and a different kind of mistake. Prefer, this time, one of: (a) a mistake on an ERROR, TIMEOUT or CANCELLATION path (a handler that swallows, a cleanup that is skipped, a state flag that is left set/unset when an awaited call raises); (b) a boundary/identity mistake (`<` vs `<=`, `is` vs `==`, the wrong one of two similar fields, a stale copy instead of the live value); (c) a change of data-structure discipline (a set where order mattered, iterating a live dict, a shared mutable default, a cached value that is not invalidated):
@PRIOR@""",
    "F": """- Earlier rounds already produced the following changes for this property. Do NOT repeat them or close variants of them. This time look AWAY from the headline functions: break the property through code the mechanism merely relies on -- a small helper, a property/getter, a cache or memo, a default argument, configuration plumbing between two classes (a parameter passed under the wrong name, a unit mix-up ms vs s, a flag whose default flipped), an initialisation or reset path (what `__init__`, `seek`, `assign`, `begin_*`, `reset_*`, reconnect or re-subscribe leave behind), a utility/codec module the mechanism calls, or the condition under which a step is SKIPPED. The change must still genuinely violate the property's statement, not just an internal detail:
@PRIOR@""",
    "G": """- Earlier rounds already produced the following changes for this property. Do NOT repeat them or close variants of them. This time make it a CONCURRENCY or TIMING mistake: a statement moved across an `await` (state read before the await and used after it, or a flag set after instead of before), a lock / `async with` dropped or narrowed, two tasks or a task and a done-callback that now interleave differently, a waiter that is woken before the state it waits for is written (or never woken on one path), a shared collection mutated while another coroutine iterates it, deadline / timeout / backoff arithmetic (ms vs s, monotonic vs wall clock, a deadline recomputed inside a loop so that it never expires), a retry that now happens once too often or not at all. It must genuinely violate the property's statement and need a specific interleaving or timing to show:
@PRIOR@""",
    "H": """- Earlier rounds already produced the following changes for this property. Do NOT repeat them or close variants of them. Otherwise you are free: make whatever change a busy contributor could plausibly land in a pull request -- a refactor that subtly changes semantics, an optimisation that drops a step, a 'fix' for a different problem with a side effect, a clean-up of code that looked redundant but was not. Read the anchor code carefully first and pick the clause of the statement you find easiest to break INVISIBLY (reviewers must be unlikely to notice):
@PRIOR@""",
    "I": """- Earlier rounds already produced the following changes for this property. Do NOT repeat them or close variants of them. This time break the property from OUTSIDE the functions that implement the mechanism, or through a disagreement between two places that must agree: change a CALLER of the anchor functions (the argument it passes, the moment it calls, what it does with the result, a call it adds or drops); or make two sibling implementations disagree (pure-Python vs compiled where both exist, getone vs getmany path, idempotent vs transactional path, v0/v1 vs v2 format, request builder vs response parser, subscribe vs assign path); or change a declarative table / constant / default that the mechanism reads (a schema entry, an error class attribute, a config default, a class-level constant); or change what a *public* API method does before/after delegating to the mechanism. The anchor functions themselves should stay textually untouched if at all possible:
@PRIOR@""",
    "J": """- Earlier rounds already produced the following changes for this property. Do NOT repeat them or close variants of them. This time make it a small DATA-FLOW or VALUE mistake of the kind that survives review: the wrong one of two similar variables or fields (request vs response, old vs new, key vs key_bytes, generation before vs after the await), a stale copy where the live value was needed (or the reverse), `x or default` / `if x:` where 0, an empty string, an empty list or b"" is a legitimate value, `==` vs `is` (or `in` on the wrong container), an off-by-one in a slice, range, comparison or counter, integer vs true division, a loop variable captured late by a lambda/closure, a shared mutable default or class-level container, a shallow copy where the callee mutates, min vs max, a sign error, an index into the wrong position of a tuple, an argument passed to the wrong parameter of the right call. One to five changed lines. It must genuinely violate the property's statement:
@PRIOR@""",
    "K": """- Earlier rounds already produced the following changes for this property. Do NOT repeat them or close variants of them. This time break the property through the layers AROUND the mechanism, which earlier rounds hardly touched: `AIOKafkaClient` (connection pool keyed by node and group, `ready()`, `send()` routing and its timeout/close handling, `_get_conn`, metadata refresh and `force_metadata_update`, `_wait_on_metadata`, `coordinator_lookup`, api-version checks), `ClusterMetadata` (leaders, partitions, available partitions, coordinator bookkeeping, `update_metadata`, listeners), the PUBLIC methods of `AIOKafkaConsumer` / `AIOKafkaProducer` (argument validation and normalisation, `seek*`, `commit`, `committed`, `position`, `pause`/`resume`, `subscribe`/`assign`/`unsubscribe`, `partitions_for`, `start`/`stop` ordering, `__aenter__`/`__aexit__`, `flush`), `aiokafka/util.py` helpers, `structs.py`. The change must still genuinely violate THIS property's statement (say through which path), and the anchor functions themselves should stay untouched:
@PRIOR@""",
}
SEED_HINT = None

NEUTRAL_STYLE = ("a third kind of clean-up than simple renames or extract-method: replace an if/elif chain by a dict dispatch or the reverse; "
                 "merge nested `if`s with `and` / split a compound condition into nested `if`s; apply De Morgan; use early `continue` in loops instead of nesting; "
                 "`contextlib.suppress(X)` <-> `try/except X: pass`; `try/finally` <-> a small context manager ONLY if ordering is identical; "
                 "replace `x = x + n` by `x += n`; reorder two adjacent statements that are provably independent (no shared state, no awaits); "
                 "introduce a local closure or lambda for an expression repeated in one function; replace `len(x) == 0` by `not x` only where x is a known container; "
                 "`dict.get(k)` + None test <-> `k in dict` + lookup; f-strings <-> % formatting in log/exception messages ONLY when the text is identical")


NEUTRAL_STYLES = {
    "V": ("a behaviour-preserving clean-up of the code AROUND the mechanism rather than of the mechanism: pick TWO OR THREE functions among "
          "`AIOKafkaClient` (`__init__`, `bootstrap`, `_get_conn`, `ready`, `send`, `force_metadata_update`, `coordinator_lookup`), "
          "`ClusterMetadata.update_metadata` and its getters, the public methods and constructors of `AIOKafkaConsumer` / `AIOKafkaProducer` "
          "(argument validation and defaults, `seek*`, `commit`, `getone`/`getmany`, `subscribe`/`unsubscribe`, `send`, `__anext__`), "
          "`aiokafka/util.py`, whichever of them the property's mechanism is reached through. Typical edits: restructure argument "
          "validation (guard clauses, merged conditions), rename locals and private parameters, hoist repeated attribute reads, replace "
          "`x = x or default` by an explicit `if x is None`-style default ONLY when equivalent for every legitimate value, split a long "
          "constructor into the same assignments grouped differently, reorder independent statements, extract a small private helper. Every "
          "value passed on, every exception raised (class and message), every default and every call order must stay exactly the same"),
    "U": ("a readability pass over TWO OR THREE anchor functions of the kind a reviewer asks for: name a magic sub-expression, replace a "
          "chained boolean by a well-named local flag computed just before it (same short-circuit order!), replace `len(x) == 0`/`not len(x)` by "
          "`not x` ONLY for real containers, replace an index loop by tuple unpacking or `enumerate`, turn `for ... : if cond: continue` into a "
          "filtered loop ONLY if evaluation order is unchanged, use `dict.items()` instead of key lookup in the loop, replace `x = None; if c: x = y` "
          "by `x = y if c else None`, collapse `if a: return True else: return False` ONLY when `a` is a bool, move a constant expression out of "
          "a loop, annotate class attributes WITHOUT giving them a shared mutable default (annotations only, values stay in __init__), add type "
          "hints, convert a `%`-format or `.format` message to an f-string with identical text. NEVER change `is None`/`is not None` tests into "
          "truthiness tests or the reverse, and never change which object a name refers to"),
    "T": ("a clean-up of PLUMBING rather than of algorithms, in TWO OR THREE places among the anchors and the code that feeds them: move a "
          "unit conversion to an equivalent place (e.g. convert `x_ms / 1000` once in `__init__` into a seconds attribute and use that, or the "
          "reverse; introduce a tiny helper for the conversion), rename timing locals/attributes so that their names say the unit, replace "
          "`try/finally: x.close()` by `with` (or the reverse) where exactly equivalent, pass arguments by keyword instead of by position (or "
          "the reverse) in calls to constructors/helpers of the package, give a parameter a default and drop the argument at call sites "
          "that passed that same value, reorder keyword arguments, split a long `__init__` into the same assignments grouped differently, "
          "replace a module-level alias (`A = B`) by an equivalent form only if identity (`A is B`) is preserved, turn a class-level "
          "constant into a module-level one (or back) keeping its value, wrap a stream/buffer in a local variable before use, replace "
          "`io.BytesIO(x)` + reads by equivalent reads on the same object. Keep every value, every call order and every object identity"),
    "S": ("a clean-up pull request as a maintainer would write it, touching TWO OR THREE of the anchor functions (prefer ones that earlier "
          "clean-ups are unlikely to have touched: small helpers, bookkeeping methods, callbacks, readers/writers of the record formats). Mix "
          "kinds: turn an `assert cond, msg` into `if not cond: raise AssertionError(msg)` or back; replace tuple unpacking by indexing or the "
          "reverse; replace `x is None` / `x is not None` ladders by an equivalent early return; `while` <-> `for ... in range(...)` where "
          "provably equivalent; hoist a repeated sub-expression or cast into a local; split a long function into two private helpers (keeping "
          "every await and every side effect in the same order); merge two tiny helpers; reorder independent statements or independent "
          "declarations; replace `dict`/`deque`/`list` idioms by exactly equivalent ones (`d.pop(k, None)` <-> `if k in d: del d[k]`, "
          "`q[0]` + `q.popleft()` <-> one `popleft()` ONLY when nothing can raise in between); rename locals and private parameters. "
          "If the property's anchors include Cython sources (.pyx/.pxd) ALSO refactor one cdef function there (hoist a cast into a typed "
          "local, rename cdef locals, split a `cdef` function into two `cdef inline` helpers, reorder independent statements) and rebuild the "
          "extension with `cd <worktree> && /venv/bin/python setup.py build_ext --inplace` before running the tests"),
    "R": ("pick TWO OR THREE different kinds of modernising clean-up and apply them to different anchor functions: extract an ASYNC private helper "
          "that contains one of the awaits together with the statements around it (`await self._helper(...)` at the same place; order of effects "
          "and suspension points unchanged); use the walrus operator (`if (x := f()) is not None:`); use `match`/`case` for a dispatch on constants "
          "or enum members (Python >= 3.10 is the minimum here) ONLY where the semantics are exactly those of the if/elif chain; replace an explicit "
          "search loop by `any()` / `all()` / `next((... for ...), default)`; replace a boolean flag variable by early returns or `for ... else`; "
          "restructure `try/except/else` keeping exactly the same statements protected; replace `x if x is not None else y` patterns by equivalent "
          "statements; use `dict.setdefault` / `collections.defaultdict` / `dict.get(k, default)` where exactly equivalent"),
    "Q": ("pick TWO OR THREE different kinds of clean-up and apply them to different anchor functions: extract a private helper method from a long "
          "function (keeping every await in the caller or moving the whole awaited block); inline a tiny private helper into its only caller; hoist a "
          "repeated attribute chain (`self._a.b`) into a local; turn an index loop into `enumerate`/`zip`; replace manual dict building by a "
          "comprehension or the reverse; replace `if x: return True; return False` by `return bool(x)`-style returns ONLY when x is already a bool; "
          "use tuple-unpacking instead of indexing; early `return`/`continue` guard clauses; merge or split conditions; rename LOCAL variables and "
          "private helper PARAMETERS for clarity; reorder two adjacent independent statements (no shared state, no awaits between them)"),
}


def main():
    kind, suffix = sys.argv[1], sys.argv[2]
    only = sys.argv[3:]
    man = json.load(open(os.path.join(VERIF, "MANIFEST.json")))
    props = {json.loads(l)["id"]: json.loads(l) for l in open(os.path.join(VERIF, "properties.jsonl"))}
    tpl = open(os.path.join(VERIF, "tools", f"{kind}_prompt_template.md")).read()
    for ch in man["checks"]:
        pid = ch["property_id"]
        if only and pid not in only:
            continue
        sid = f"{pid}-{suffix}"
        base = f"/tmp/seedwork/{sid}"
        wt = f"{base}/wt"
        subprocess.run(["git", "-C", "/repo", "worktree", "remove", "--force", wt], capture_output=True)
        shutil.rmtree(base, ignore_errors=True)
        os.makedirs(base)
        subprocess.run(["git", "-C", "/repo", "worktree", "add", "-q", "--detach", wt, "HEAD"], check=True)
        for so in glob.glob("/repo/aiokafka/record/_crecords/*.so"):
            shutil.copy(so, os.path.join(wt, "aiokafka/record/_crecords/"))
        p = props[pid]
        text = json.dumps({k: p[k] for k in ("id", "title", "statement", "quantifier", "anchors")}, indent=1)
        out = tpl.replace("@WT@", wt).replace("@OUT@", base).replace("@PID@", pid).replace("@PROPERTY@", text)
        if kind == "seed":
            prior = []
            for m in sorted(glob.glob(os.path.join(VERIF, "seeded", f"{pid}-*", "meta.json"))):
                try:
                    mm = json.load(open(m))
                    prior.append("  * " + " ".join(str(mm.get("summary", "")).split())[:150])
                except Exception:
                    pass
            out = out.replace("@HINT@", SEED_HINTS.get(suffix, SEED_HINTS["F"]).replace("@PRIOR@", "\n".join(prior)))
        else:
            out = out.replace("@STYLE@", NEUTRAL_STYLES.get(suffix, NEUTRAL_STYLE))
        open(f"{base}/PROMPT.md", "w").write(out)
        print(sid, wt)


if __name__ == "__main__":
    main()
