"""C19 defect found by ./check C19 (rule md-wakeup): the metadata synchronizer can go back to sleep for metadata_max_age_ms while a
refresh that callers are waiting for is still owed.

AIOKafkaClient._md_synchronizer wakes up either because force_metadata_update() resolved `_md_update_waiter` or because the periodic
timer (metadata_max_age_ms) ran out.  In the second case the waiter is NOT resolved.  If the topic set is replaced (set_topics(), i.e.
consumer.subscribe() with other topics) while that periodic refresh is on the wire, the routine takes its `continue` branch and waits
again -- on a waiter nobody will resolve, because force_metadata_update() only resolves it when `_md_update_fut is None`, and the
routine has just created that future.  Everybody who awaits the update (set_topics()'s future, _maybe_wait_metadata() in the group
leader's _perform_assignment, ensure_coordinator_known) is parked until the NEXT periodic refresh: metadata_max_age_ms, five minutes
by default and arbitrary by configuration.  GroupCoordinator.close() awaits the coordination task, so consumer.stop() is parked with it:
its bound is then metadata_max_age_ms, not the request / session / rebalance timeouts.

The test drives the real AIOKafkaClient synchronizer with a slow _metadata_update: it fails before fix cfdad97 (the waiters are served
after metadata_max_age_ms) and passes after it (they are served at once).
"""
import asyncio
import time
from unittest import mock

from aiokafka.client import AIOKafkaClient
from aiokafka.util import create_future

MAX_AGE = 1.5   # seconds; the default is 300


async def _run():
    client = AIOKafkaClient(bootstrap_servers="127.0.0.1:1", metadata_max_age_ms=int(MAX_AGE * 1000))
    release = asyncio.Event()
    calls = []

    async def slow_update(cluster, topics):
        calls.append(set(topics))
        if len(calls) == 1:
            await release.wait()      # the periodic refresh is on the wire
        return True

    client._metadata_update = slow_update
    client._topics = {"a"}
    client._md_update_waiter = create_future()
    client._sync_task = asyncio.ensure_future(client._md_synchronizer())
    try:
        # 1. nobody forces anything: the periodic timer wakes the synchronizer
        while not calls:
            await asyncio.sleep(0.05)
        # 2. the subscription changes while that refresh is in flight
        fut = client.set_topics(["b"])
        t0 = time.monotonic()
        release.set()
        # 3. what the group leader's _perform_assignment does, and what GroupCoordinator.close() then waits for
        leader = asyncio.ensure_future(client._maybe_wait_metadata())
        await asyncio.wait([leader, fut], timeout=MAX_AGE * 3, return_when=asyncio.ALL_COMPLETED)
        return time.monotonic() - t0, leader.done()
    finally:
        client._sync_task.cancel()
        await asyncio.gather(client._sync_task, return_exceptions=True)


def test_waiters_are_served_without_waiting_for_the_next_periodic_refresh():
    waited, done = asyncio.run(_run())
    assert done, "the update was never delivered at all"
    # the refresh for the new topic set must follow immediately (a few milliseconds), not after metadata_max_age_ms
    assert waited < MAX_AGE * 0.5, f"waiters of the metadata update were parked for {waited:.2f}s (metadata_max_age_ms = {MAX_AGE}s)"
