"""C10 -- decoding untrusted bytes is memory-safe, terminating and fails cleanly (structural clauses)."""
from __future__ import annotations

import ast

from ..bounds import FnBounds, Lin
from ..constfold import ConstEnv
from ..loader import AnalysisError, call_attr, unparse
from ..pyxlower import PyxModule, strip_casts

PKG = "aiokafka/record/_crecords"
DEF = "aiokafka.record._crecords.default_records"
LEG = "aiokafka.record._crecords.legacy_records"
MEM = "aiokafka.record._crecords.memory_records"
CUT = "aiokafka.record._crecords.cutil"

# decoder functions with raw-pointer reads of the INPUT buffer, and the floor of read sites confirmed by hand
DECODERS = {
    f"{DEF}.DefaultRecordBatch._read_header": 12,
    f"{DEF}.DefaultRecordBatch._read_msg": 13,
    f"{DEF}.DefaultRecordBatch._maybe_uncompress": 1,
    f"{DEF}.DefaultRecordBatch.validate_crc": 1,
    f"{LEG}.LegacyRecordBatch._read_record": 9,
    f"{LEG}.LegacyRecordBatch._read_last_offset": 2,
    f"{LEG}.LegacyRecordBatch.validate_crc": 1,
    f"{MEM}.MemoryRecords._get_next": 2,
    f"{MEM}.MemoryRecords.has_next": 1,
    f"{CUT}.decode_varint64": 1,
}
# functions that touch raw pointers of OUTPUT buffers (builders / encoders): out of scope for a decoding property
WRITERS = {
    f"{CUT}.encode_varint64", f"{CUT}.encode_varint", f"{CUT}.encode_varint_cython", f"{CUT}.size_of_varint64",
    f"{DEF}.DefaultRecordBatchBuilder._encode_msg", f"{DEF}.DefaultRecordBatchBuilder.append", f"{DEF}.DefaultRecordBatchBuilder._write_header",
    f"{DEF}.DefaultRecordBatchBuilder.build", f"{LEG}._encode_msg", f"{LEG}.LegacyRecordBatchBuilder.append",
    f"{LEG}.LegacyRecordBatchBuilder._maybe_compress", f"{LEG}.LegacyRecordBatchBuilder.build",
}


class Pyx:
    def __init__(self, ctx):
        self.ctx = ctx
        self.mods = {}
        for f in ("cutil", "default_records", "legacy_records", "memory_records"):
            m = PyxModule(ctx.repo.root, f"{PKG}/{f}.pyx")
            self.mods[m.name] = m
        self.funcs = {}
        for m in self.mods.values():
            self.funcs.update(m.funcs)

    def fn(self, q):
        if q not in self.funcs:
            raise AnalysisError(f"anchor function {q} not found in the Cython sources")
        self.ctx.rep.functions.add(q)
        return self.funcs[q]


def site(fi, node=None, lineno=None):
    ln = lineno if lineno is not None else (getattr(node, "lineno", None) or fi.node.lineno)
    return f"{fi.path}:{ln} {fi.qualname}"


def ob(ctx, rule, fi, lineno, text, ok, detail=""):
    return ctx.rep.ob(rule, site(fi, lineno=lineno), f"{fi.qualname}|{text}", ok, detail)


# ---------------------------------------------------------------------------------------------------------
def helper_summary(ctx, px, q):
    """What a successful `_check_bounds(pos, size)` guarantees, from its body."""
    fi = px.fn(q)
    fb = FnBounds(fi, cursors=("pos",), check_fn="__none__")
    st = fb.IN.get(fb.cfg.exit)
    covers = st is not None and (0, ("size",)) in st.cov.get("pos", set())
    nonneg = st is not None and st.lb.get("size", -1) >= 0
    # overflow: the untrusted `size` must not be added to anything before the comparison
    safe = True
    for n in ast.walk(fi.node):
        if isinstance(n, ast.Compare):
            for side in [n.left] + n.comparators:
                side = strip_casts(side)
                if isinstance(side, ast.BinOp) and isinstance(side.op, ast.Add) and any(isinstance(x, ast.Name) and x.id == "size" for x in ast.walk(side)):
                    safe = False
    raises = any(isinstance(n, ast.Raise) and n.exc is not None and "CorruptRecordException" in unparse(n.exc) for n in ast.walk(fi.node))
    return {"covers": covers, "size_nonneg": nonneg, "overflow_safe": safe, "raises_corrupt": raises}, fi


def rule_check_bounds_def(ctx, px):
    R = "check-bounds-def"
    ctx.rep.rule(R, "the bounds helper of each compiled batch class returns normally only when 0 <= size and pos + size <= len(buffer), "
                    "computed without adding the untrusted size to anything (no signed overflow), and raises CorruptRecordException otherwise")
    out = {}
    for cls, q in (("DefaultRecordBatch", f"{DEF}.DefaultRecordBatch._check_bounds"), ("LegacyRecordBatch", f"{LEG}.LegacyRecordBatch._check_bounds")):
        sm, fi = helper_summary(ctx, px, q)
        out[cls] = sm
        ob(ctx, R, fi, fi.node.lineno, "covers", sm["covers"], "a successful _check_bounds(pos, size) does not imply pos + size <= len(buffer)")
        ob(ctx, R, fi, fi.node.lineno, "size-nonneg", sm["size_nonneg"], "a negative size passes the helper: PyBytes_FromStringAndSize(ptr, negative) raises SystemError")
        ob(ctx, R, fi, fi.node.lineno, "overflow-safe", sm["overflow_safe"], "the helper adds the untrusted size before comparing: pos + size overflows for sizes near 2**63 and the check passes")
        ob(ctx, R, fi, fi.node.lineno, "raises-corrupt", sm["raises_corrupt"], "the helper does not raise CorruptRecordException")
    return out


def _analyse(ctx, px, q, summaries, **kw):
    fi = px.fn(q)
    cls = fi.cls
    sm = summaries.get(cls, {"covers": True, "size_nonneg": False})
    fb = FnBounds(fi, check_summary=sm, **kw)
    ctx.rep.cfg_nodes += len(fb.cfg.nodes)
    return fi, fb


def rule_invariants(ctx, px, summaries):
    """Class invariants used as entry facts of the methods that run after construction."""
    R = "ctor-invariant"
    ctx.rep.rule(R, "every constructor of a compiled batch class validates the minimum size before anything is read (v2: the 61 byte header, "
                    "v0/v1: LOG_OVERHEAD + RECORD_OVERHEAD_V0), the record cursor starts inside the buffer, and every later store to the cursor "
                    "stores a position proven <= len(buffer)")
    seeds = {}
    # ---- DefaultRecordBatch
    fi, fb = _analyse(ctx, px, f"{DEF}.DefaultRecordBatch._read_header", summaries)
    st = fb.IN.get(fb.cfg.exit)
    k = max([c for c, y in (st.cov.get("0", set()) if st else set()) if not y], default=0)
    ob(ctx, R, fi, fi.node.lineno, "header-length-checked", k >= 61, f"_read_header establishes len(buffer) >= {k}, the v2 header needs 61")
    pos0 = []
    for cq in (f"{DEF}.DefaultRecordBatch.__init__", f"{DEF}.DefaultRecordBatch.new"):
        cf = px.fn(cq)
        c = FnBounds(cf, check_summary=summaries["DefaultRecordBatch"]).cfg
        calls = [n for n in c.nodes if n.kind == "call" and call_attr(n.ast) == "_read_header"]
        stores = [n for n in c.nodes if n.kind == "store" and isinstance(n.ast, ast.Attribute) and n.ast.attr == "_pos"]
        okc = bool(calls) and all(c.dominates(calls[0], s) for s in stores) and c.postdominates(calls[0], c.entry)
        ob(ctx, R, cf, cf.node.lineno, "ctor-reads-header-first", okc, f"{cq} does not call _read_header on every path before setting the cursor")
        for s_ in stores:
            v = strip_casts(s_.stmt.value) if isinstance(s_.stmt, ast.Assign) else None
            val = v.value if isinstance(v, ast.Constant) else None
            pos0.append(val)
            ob(ctx, R, cf, s_.lineno, "cursor-start", isinstance(val, int) and 0 <= val <= k, f"initial cursor {unparse(v) if v is not None else '?'} is not within the validated header length {k}")
    ctx.anchor(len(pos0) >= 2, "cursor initialisation in both DefaultRecordBatch constructors")
    seeds["DefaultRecordBatch"] = [("0", k, ()), ("self._pos", 0, ())] if k >= 61 else []
    # other stores to self._pos
    for q in (f"{DEF}.DefaultRecordBatch._read_msg", f"{DEF}.DefaultRecordBatch._maybe_uncompress"):
        fi, fb = _analyse(ctx, px, q, summaries, entry_facts=seeds["DefaultRecordBatch"])
        for n in fb.cfg.nodes:
            if n.kind == "store" and isinstance(n.ast, ast.Attribute) and unparse(n.ast) == "self._pos":
                st = fb.IN.get(n)
                v = strip_casts(n.stmt.value) if isinstance(n.stmt, ast.Assign) else None
                fb._cur = st
                ok = False
                if st is None:
                    ok = True
                elif isinstance(v, ast.Constant) and v.value == 0:
                    ok = True
                elif v is not None:
                    lv = fb._lin(v, n)
                    ok = lv is not None and fb._covered(lv, st)
                ob(ctx, R, fi, n.lineno, f"cursor-store:{unparse(v) if v is not None else '?'}", ok, "the record cursor can be stored beyond the end of the buffer")
    # ---- LegacyRecordBatch: constructors call _read_record(NULL), which starts with the minimum-size check at pos 0
    fi, fb = _analyse(ctx, px, f"{LEG}.LegacyRecordBatch._read_record", summaries, assume={"read_pos == NULL": True, "read_pos != NULL": False})
    st = fb.IN.get(fb.cfg.exit)
    k = max([c for c, y in (st.cov.get("0", set()) if st else set()) if not y], default=0)
    ob(ctx, R, fi, fi.node.lineno, "minimum-size-checked", k >= 26, f"_read_record(NULL) establishes len(buffer) >= {k}, the smallest v0 message needs 26")
    for cq in (f"{LEG}.LegacyRecordBatch.__init__", f"{LEG}.LegacyRecordBatch.new"):
        cf = px.fn(cq)
        c = FnBounds(cf).cfg
        calls = [n for n in c.nodes if n.kind == "call" and call_attr(n.ast) == "_read_record" and unparse(n.ast.args[0]) == "NULL"]
        ob(ctx, R, cf, cf.node.lineno, "ctor-reads-first-record", bool(calls) and c.postdominates(calls[0], c.entry), f"{cq} does not read (and so validate) the wrapper record on every path")
    seeds["LegacyRecordBatch"] = [("0", k, ())] if k >= 26 else []
    return seeds


def rule_read_covered(ctx, px, summaries, seeds):
    R = "read-covered"
    RS = "size-sane"
    ctx.rep.rule(R, "every raw read of the input buffer in the compiled decoders (buf[e], &buf[e] handed to unpack_int*/PyBytes_FromStringAndSize/"
                    "PyMemoryView_FromMemory/calc_crc32*/decode_varint64) is dominated by checks that establish e + N <= len(buffer) for the "
                    "cursor value it uses; facts die when the cursor is reassigned and are transferred through `pos += n`")
    ctx.rep.rule(RS, "every length handed to PyBytes_FromStringAndSize / memcpy / a checksum routine is proven non-negative (sign check or helper) "
                     "or is len(buffer) - k with len(buffer) >= k established")
    total = 0
    for q, floor in DECODERS.items():
        kw = {}
        cls = q.rsplit(".", 2)[-2]
        if q.endswith("decode_varint64"):
            kw = {"len_texts": ("buf_len",), "cursors": ("pos",)}
        elif q.endswith("_maybe_uncompress") or q.endswith("validate_crc"):
            kw = {"entry_facts": seeds.get(cls, [])}
        fi, fb = _analyse(ctx, px, q, summaries, **kw)
        rs = [r for r in fb.reads()]
        if len(rs) < floor:
            raise AnalysisError(f"anchor count below floor: raw reads in {q}: {len(rs)} < {floor}")
        total += len(rs)
        for r in rs:
            key = f"{r.kind}:{r.what[:90]}"
            ob(ctx, R, fi, r.lineno, key, bool(r.covered), f"`{r.what[:100]}`: {r.detail}")
            if r.kind == "sized":
                ob(ctx, RS, fi, r.lineno, key, bool(r.size_nonneg), f"`{r.what[:100]}`: the size is not proven non-negative before it is used")
    ctx.rep.extra["raw_read_sites"] = total
    # the bounded varint decoder: the cursor it writes back is <= buf_len
    fi, fb = _analyse(ctx, px, f"{CUT}.decode_varint64", summaries, len_texts=("buf_len",), cursors=("pos",))
    wb = [n for n in fb.cfg.nodes if n.kind == "store" and isinstance(n.ast, ast.Subscript) and unparse(n.ast.value) == "read_pos"]
    ctx.anchor(len(wb) == 1, "write-back of the cursor in decode_varint64")
    st = fb.IN.get(wb[0])
    fb._cur = st
    ok = st is not None and fb._covered(Lin(0, {"pos": 1}), st)
    ob(ctx, R, fi, wb[0].lineno, "varint-cursor-post", ok, "decode_varint64 can hand back a cursor beyond buf_len")
    pr = fi.params()
    ob(ctx, R, fi, fi.node.lineno, "varint-signature", pr[:2] == ["buf", "buf_len"], "decode_varint64 does not take the buffer length")
    # discovery: no other function of the four modules reads through a raw input pointer
    for q, fi in px.funcs.items():
        if q in DECODERS or q in WRITERS:
            continue
        fb = FnBounds(fi)
        inp = {k: v for k, v in fb.input_pointers().items()}
        rs = fb.reads() if inp else []
        rs = [r for r in rs if r.kind != "escape" or True]
        ob(ctx, R, fi, fi.node.lineno, "discovery", not rs, f"{q} reads through a raw pointer ({[r.what[:40] for r in rs[:3]]}) but is in neither the decoder nor the writer table")


def rule_decode_varint_cython(ctx, px):
    R = "read-covered"
    fi = px.fn(f"{CUT}.decode_varint_cython")
    calls = [n for n in ast.walk(fi.node) if isinstance(n, ast.Call) and call_attr(n) == "decode_varint64"]
    ctx.anchor(len(calls) == 1, "decode_varint64 call in decode_varint_cython")
    a = [unparse(strip_casts(x)) for x in calls[0].args]
    ok = len(a) == 4 and a[0] == "buf.buf" and a[1] == "buf.len"
    ob(ctx, R, fi, calls[0].lineno, "py-visible-varint", ok, "decode_varint_cython (used by the pure-Python reader when the extension is present) does not bound the read by the object's length")


# ---------------------------------------------------------------------------------------------------------
def _cycle_free_without(c, head, body, events):
    """Removing `events` from the loop body breaks every cycle through head (normal edges)."""
    seen = set()
    stack = [m for m, l in head.succ if l != "exc" and m in body]
    while stack:
        n = stack.pop()
        if n in seen or n in events:
            continue
        if n is head:
            return False
        seen.add(n)
        stack += [m for m, l in n.succ if l != "exc" and (m in body or m is head)]
    return True


def loop_progress(fb, head, monotone_callees=()):
    """(ok, reason) for one while-loop of a decoder."""
    c = fb.cfg
    body = c.loop_body(head)
    test = head.ast.test
    tvars = {unparse(x) for x in ast.walk(test) if isinstance(x, (ast.Name, ast.Attribute))}
    if isinstance(test, ast.Constant) and test.value:
        # bounded counter: a variable incremented by a positive constant on every cycle and compared with a constant where one branch leaves
        for t in body:
            if t.kind == "test" and isinstance(t.ast, ast.Compare) and isinstance(t.ast.left, ast.Name) and isinstance(t.ast.comparators[0], ast.Constant):
                v = t.ast.left.id
                leaves = any(l in ("T", "F") and head not in c.reachable([m], exc=False, include_src=True) for m, l in t.succ)
                ev = {n for n in body if n.kind == "store" and isinstance(n.stmt, ast.AugAssign) and n.stmt.target is n.ast and unparse(n.ast) == v
                      and isinstance(n.stmt.op, ast.Add) and isinstance(n.stmt.value, ast.Constant) and n.stmt.value.value > 0}
                if leaves and ev and _cycle_free_without(c, head, body, ev | {t} if False else ev):
                    # ... and the test itself lies on every cycle
                    if _cycle_free_without(c, head, body, {t}):
                        return True, f"counter `{v}` grows by a positive constant every iteration and `{unparse(t.ast)}` leaves the loop"
        return False, "`while True` without a bounded counter"
    for v in sorted(tvars):
        ev = set()
        for n in body:
            if n.kind == "store" and isinstance(n.stmt, ast.AugAssign) and n.stmt.target is n.ast and unparse(n.ast) == v and isinstance(n.stmt.op, (ast.Add, ast.Sub)):
                st = fb.IN.get(n)
                fb._cur = st
                d = fb._lin(n.stmt.value, n)
                if d is not None and st is not None:
                    lo = fb._lower(d, st)
                    if lo is not None and lo >= 1:
                        ev.add(n)
            if n.kind == "call" and call_attr(n.ast) in monotone_callees:
                for a in n.ast.args:
                    if unparse(strip_casts(a)) == f"__addr__({v})":
                        ev.add(n)
        if ev and _cycle_free_without(c, head, body, ev):
            # ... and nothing else in the loop writes the variable (a plain reassignment could undo the progress)
            other = [n for n in body if n.kind == "store" and unparse(n.ast) == v and n not in ev]
            if other:
                return False, (f"`{v}` is also reassigned at line {other[0].lineno} (`{unparse(other[0].stmt)[:60]}`) by an amount that is not proven positive: "
                               "with a hostile length the cursor stays or moves back and the loop never ends")
            return True, f"`{v}` moves by at least 1 in the same direction on every iteration"
    return False, f"no variable of `{unparse(test)}` provably moves on every iteration"


def rule_progress(ctx, px, summaries):
    R = "progress"
    ctx.rep.rule(R, "every while-loop of the decoders (compiled and pure Python) moves a variable of its condition by a provably positive amount "
                    "on every iteration (lengths taken from the input are sign-checked first) or counts a bounded counter; "
                    "callees that advance the cursor through a pointer are verified to advance it")
    n = 0
    # compiled
    for q, kw, mono in (
        (f"{CUT}.decode_varint64", {"len_texts": ("buf_len",), "cursors": ("pos",)}, ()),
        (f"{DEF}.DefaultRecordBatch._read_msg", {}, ()),
        (f"{LEG}.LegacyRecordBatch._read_last_offset", {}, ()),
        (f"{LEG}.LegacyRecordBatch.__iter__", {}, ("_read_record",)),
    ):
        fi, fb = _analyse(ctx, px, q, summaries, **kw)
        heads = [h for h in fb.cfg.nodes if h.kind == "loop" and isinstance(h.ast, ast.While)]
        ctx.anchor(len(heads) >= 1, f"while-loop in {q}")
        for h in heads:
            ok, why = loop_progress(fb, h, mono)
            n += 1
            ob(ctx, R, fi, h.lineno, "loop:" + unparse(h.ast.test)[:60], ok, f"`while {unparse(h.ast.test)[:60]}`: {why}")
    # any other while loop in a decoder function of the compiled modules
    for q, fi in px.funcs.items():
        if q in WRITERS or "Builder" in q or q in (f"{CUT}.decode_varint64", f"{DEF}.DefaultRecordBatch._read_msg", f"{LEG}.LegacyRecordBatch._read_last_offset", f"{LEG}.LegacyRecordBatch.__iter__"):
            continue
        for w in ast.walk(fi.node):
            if isinstance(w, ast.While):
                ob(ctx, R, fi, w.lineno, "unlisted-loop:" + unparse(w.test)[:50], False, f"while-loop in {q} has no progress argument in the checker")
    # _read_record advances the cursor it is given
    fi, fb = _analyse(ctx, px, f"{LEG}.LegacyRecordBatch._read_record", summaries, assume={"read_pos == NULL": False, "read_pos != NULL": True})
    c = fb.cfg
    wb = [s for s in c.nodes if s.kind == "store" and isinstance(s.ast, ast.Subscript) and unparse(s.ast.value) == "read_pos"]
    ctx.anchor(len(wb) == 1, "write-back of the cursor in _read_record")
    incs, bad = set(), []
    first = True
    for s in c.nodes:
        if s.kind == "store" and isinstance(s.ast, ast.Name) and s.ast.id == "pos" and fb.IN.get(s) is not None:
            if isinstance(s.stmt, ast.AugAssign) and isinstance(s.stmt.op, ast.Add):
                st = fb.IN[s]
                fb._cur = st
                d = fb._lin(s.stmt.value, s)
                lo = fb._lower(d, st) if d is not None else None
                if lo is None or lo < 0:
                    bad.append(s)
                elif lo >= 1:
                    incs.add(s)
            elif isinstance(s.stmt, ast.Assign) and unparse(strip_casts(s.stmt.value)) in ("read_pos[0]", "0"):
                continue
            else:
                bad.append(s)
    from .c19 import paths_avoiding
    okm = not bad and paths_avoiding(c, list(incs) , set()) is None if incs else False
    # paths_avoiding looks for entry->exit; the write-back is on every normal path to exit in this specialisation
    ob(ctx, R, fi, wb[0].lineno, "callee-advances:_read_record", okm, f"_read_record can hand back a cursor that did not advance (non-positive or unproven increments at lines {[b.lineno for b in bad]})")
    # pure Python
    for q in ("aiokafka.record.legacy_records._LegacyRecordBatchPy._read_all_headers", "aiokafka.record.default_records._DefaultRecordBatchPy._read_msg",
              "aiokafka.record.util.decode_varint_py"):
        fi = ctx.fn(q)
        # class constants with a statically known value
        consts = {}
        if fi.cls is not None:
            env = ConstEnv(fi.module.tree, fi.cls.name)
            for k, v in env.vals.items():
                if isinstance(v, int) and not isinstance(v, bool):
                    consts[f"self.{k}"] = v
        fb = FnBounds(fi, len_texts=("buffer_len", "len(self._buffer)"), cursors=("pos",), pointer_names={}, consts=consts)
        ctx.rep.cfg_nodes += len(fb.cfg.nodes)
        heads = [h for h in fb.cfg.nodes if h.kind == "loop" and isinstance(h.ast, ast.While)]
        fors = [h for h in fb.cfg.nodes if h.kind == "loop" and isinstance(h.ast, ast.For)]
        ctx.anchor(len(heads) + len(fors) >= 1, f"decoding loop in {q}")
        for h in heads:
            ok, why = loop_progress(fb, h)
            n += 1
            ctx.ob(R, fi, h, ok, f"`while {unparse(h.ast.test)[:60]}`: {why}", text="loop:" + unparse(h.ast.test)[:60])
        for h in fors:
            # a for-loop terminates when it iterates a finite collection or a range
            it = h.ast.iter
            okf = isinstance(it, (ast.Name, ast.Attribute, ast.List, ast.Tuple)) or (isinstance(it, ast.Call) and call_attr(it) in ("range", "enumerate", "zip", "reversed", "items", "values", "keys"))
            n += 1
            ctx.ob(R, fi, h, okf, f"`for ... in {unparse(it)[:50]}` iterates something that is not evidently finite", text="for:" + unparse(it)[:50])
    ctx.anchor(n >= 7, f"decoder loops examined: {n} < 7")


# ---------------------------------------------------------------------------------------------------------
def rule_crc(ctx, px):
    R = "crc"
    ctx.rep.rule(R, "all four validate_crc implementations compare the checksum stored in the header with one computed over the region the "
                    "format defines (v2: CRC-32C from the attributes field, byte 21, to the end; v0/v1: CRC-32 from the magic byte, byte 16, to the end) "
                    "and return that comparison")
    # compiled v2
    fi = px.fn(f"{DEF}.DefaultRecordBatch.validate_crc")
    calls = [n for n in ast.walk(fi.node) if isinstance(n, ast.Call) and call_attr(n) == "calc_crc32c"]
    ok = len(calls) == 1 and unparse(strip_casts(calls[0].args[1])) == "__addr__(buf[21])" and unparse(strip_casts(calls[0].args[2])) == "self._buffer.len - 21"
    ob(ctx, R, fi, fi.node.lineno, "region", ok, "compiled v2 validate_crc does not checksum bytes [21:len]")
    rets = [n for n in ast.walk(fi.node) if isinstance(n, ast.Return)]
    okr = len(rets) == 1 and isinstance(rets[0].value, ast.Compare) and isinstance(rets[0].value.ops[0], ast.Eq) and {unparse(rets[0].value.left), unparse(rets[0].value.comparators[0])} == {"crc", "verify_crc"}
    src = [n for n in ast.walk(fi.node) if isinstance(n, ast.Assign) and unparse(n.targets[0]) == "crc" and unparse(n.value) == "self.crc"]
    out = len(calls) == 1 and unparse(strip_casts(calls[0].args[3])) == "__addr__(verify_crc)"
    ob(ctx, R, fi, fi.node.lineno, "compare", okr and bool(src) and out, "compiled v2 validate_crc does not return stored == computed")
    hd = px.fn(f"{DEF}.DefaultRecordBatch._read_header")
    st = [n for n in ast.walk(hd.node) if isinstance(n, ast.Assign) and unparse(n.targets[0]) == "self.crc"]
    ob(ctx, R, hd, hd.node.lineno, "stored", len(st) == 1 and "unpack_int32(__addr__(buf[17]))" in unparse(strip_casts(st[0].value)), "stored v2 CRC is not read from byte 17")
    # compiled legacy
    fi = px.fn(f"{LEG}.LegacyRecordBatch.validate_crc")
    calls = [n for n in ast.walk(fi.node) if isinstance(n, ast.Call) and call_attr(n) == "calc_crc32"]
    ok = len(calls) == 1 and unparse(strip_casts(calls[0].args[1])) == "__addr__(buf[16])" and unparse(strip_casts(calls[0].args[2])) == "self._buffer.len - 16"
    ob(ctx, R, fi, fi.node.lineno, "region", ok, "compiled legacy validate_crc does not checksum bytes [16:len]")
    rets = [n for n in ast.walk(fi.node) if isinstance(n, ast.Return)]
    okr = len(rets) == 1 and isinstance(strip_casts(rets[0].value), ast.Compare) and isinstance(rets[0].value.ops[0], ast.Eq) and {unparse(strip_casts(rets[0].value.left)), unparse(strip_casts(rets[0].value.comparators[0]))} == {"self._main_record.crc", "crc"}
    ob(ctx, R, fi, fi.node.lineno, "compare", okr, "compiled legacy validate_crc does not return stored == computed")
    rr = px.fn(f"{LEG}.LegacyRecordBatch._read_record")
    st = [n for n in ast.walk(rr.node) if isinstance(n, ast.Assign) and unparse(n.targets[0]) == "crc"]
    ob(ctx, R, rr, rr.node.lineno, "stored", len(st) == 1 and "unpack_int32(__addr__(buf[pos + 12]))" in unparse(strip_casts(st[0].value)), "stored legacy CRC is not read from byte 12 of the message")
    # pure Python
    f2 = ctx.fn("aiokafka.record.default_records._DefaultRecordBatchPy.validate_crc")
    env = ConstEnv(f2.module.tree, "_DefaultRecordBatchPy")
    src = unparse(f2.node)
    ok = env.get("ATTRIBUTES_OFFSET") == 21 and "memoryview(self._buffer)[self.ATTRIBUTES_OFFSET:]" in src and "calc_crc32c(" in src
    rets = [n for n in ast.walk(f2.node) if isinstance(n, ast.Return)]
    okr = len(rets) == 1 and isinstance(rets[0].value, ast.Compare) and isinstance(rets[0].value.ops[0], ast.Eq) and {unparse(rets[0].value.left), unparse(rets[0].value.comparators[0])} == {"crc", "verify_crc"} \
        and "crc = self.crc" in src
    ctx.ob(R, f2, f2.node, ok and okr, "pure-Python v2 validate_crc does not compare the stored CRC with CRC-32C of bytes [21:]", text="py-v2")
    pc = ctx.fn("aiokafka.record.default_records._DefaultRecordBatchPy.crc")
    hs = env.get("HEADER_STRUCT")
    fields = hs.fields()
    ctx.ob(R, pc, pc.node, (lambda v: v is not None and unparse(v) == "self._header_data[4]")(__import__("sa.rulekit", fromlist=["x"]).only_return_value(pc.node)) and fields[4][0] == 17 and fields[4][2] == "I", "pure-Python stored v2 CRC is not header field 4 (uint32 at byte 17)", text="py-v2-stored")
    f3 = ctx.fn("aiokafka.record.legacy_records._LegacyRecordBatchPy.validate_crc")
    env3 = ConstEnv(f3.module.tree, "_LegacyRecordBatchPy")
    src = unparse(f3.node)
    ok = env3.get("MAGIC_OFFSET") == 16 and "[self.MAGIC_OFFSET:]" in src and "crc32(" in src
    rets = [n for n in ast.walk(f3.node) if isinstance(n, ast.Return)]
    okr = len(rets) == 1 and isinstance(rets[0].value, ast.Compare) and isinstance(rets[0].value.ops[0], ast.Eq) and "self._crc" in unparse(rets[0].value)
    ctx.ob(R, f3, f3.node, ok and okr, "pure-Python legacy validate_crc does not compare the stored CRC with CRC-32 of bytes [16:]", text="py-legacy")


def rule_clean_errors(ctx):
    R = "clean-errors"
    ctx.rep.rule(R, "pure-Python readers: the structural errors of a malformed record (IndexError / ValueError from slicing and varints) are "
                    "turned into CorruptRecordException at the iterator; sizes decoded from the input never reach an allocation "
                    "(sequence repetition, bytearray(n), bytes(n)) -- only slices of the buffer, which cannot exceed it")
    fi = ctx.fn("aiokafka.record.default_records._DefaultRecordBatchPy.__next__")
    c = ctx.cfg(fi)
    calls = c.calls(attr="_read_msg")
    ctx.anchor(len(calls) == 1, "_read_msg call in __next__")
    hs = [m for m, l in calls[0].succ if l == "exc" and m.kind == "handler"]
    ok = any(h.ast.type is not None and {"ValueError", "IndexError"} <= {unparse(e) for e in (h.ast.type.elts if isinstance(h.ast.type, ast.Tuple) else [h.ast.type])}
             and any(n.kind == "raise" and "CorruptRecordException" in unparse(n.ast) for n in c.reachable([h], exc=False)) for h in hs)
    ctx.ob(R, fi, calls[0], ok, "IndexError/ValueError of a malformed record escape the iterator instead of CorruptRecordException", text="wrap")
    # taint: results of decode_varint / struct unpack must not size an allocation
    n_src = 0
    for q in ("aiokafka.record.default_records._DefaultRecordBatchPy._read_msg", "aiokafka.record.legacy_records._LegacyRecordBatchPy._read_key_value",
              "aiokafka.record.legacy_records._LegacyRecordBatchPy._read_all_headers", "aiokafka.record.legacy_records._LegacyRecordBatchPy._read_header",
              "aiokafka.record.memory_records._MemoryRecordsPy._cache_next", "aiokafka.record.memory_records._MemoryRecordsPy.next_batch",
              "aiokafka.record.legacy_records._LegacyRecordBatchPy.__iter__", "aiokafka.record.default_records._DefaultRecordBatchPy.__next__"):
        fi = ctx.fn(q)
        tainted = set()
        changed = True
        while changed:
            changed = False
            for s in ast.walk(fi.node):
                if isinstance(s, (ast.Assign, ast.AnnAssign, ast.AugAssign)):
                    val = s.value
                    if val is None:
                        continue
                    src = False
                    for x in ast.walk(val):
                        if isinstance(x, ast.Call) and (call_attr(x) in ("decode_varint", "unpack_from", "unpack", "_read_header") or unparse(x.func).endswith("decode_varint")):
                            src = True
                        if isinstance(x, ast.Name) and x.id in tainted:
                            src = True
                    if src:
                        tg = s.targets if isinstance(s, ast.Assign) else [s.target]
                        for t in tg:
                            for x in ast.walk(t):
                                if isinstance(x, ast.Name) and x.id not in tainted:
                                    tainted.add(x.id)
                                    changed = True
        n_src += len(tainted)
        for x in ast.walk(fi.node):
            bad = None
            if isinstance(x, ast.BinOp) and isinstance(x.op, ast.Mult):
                for side, other in ((x.left, x.right), (x.right, x.left)):
                    if isinstance(other, (ast.List, ast.Tuple, ast.Constant)) and (not isinstance(other, ast.Constant) or isinstance(other.value, (bytes, str))):
                        if any(isinstance(y, ast.Name) and y.id in tainted for y in ast.walk(side)):
                            bad = x
            if isinstance(x, ast.Call) and call_attr(x) in ("bytearray", "bytes") and len(x.args) == 1 and isinstance(x.args[0], (ast.Name, ast.BinOp)):
                a = x.args[0]
                if any(isinstance(y, ast.Name) and y.id in tainted for y in ast.walk(a)) and not any(isinstance(y, ast.Subscript) for y in ast.walk(a)):
                    bad = x
            if bad is not None:
                ctx.ob(R, fi, bad, False, f"`{unparse(bad)[:80]}` allocates a size decoded from the input (MemoryError on a hostile count)", text="alloc:" + unparse(bad)[:60])
        ctx.ob(R, fi, fi.node, True, "", text="taint-scan")
    ctx.anchor(n_src >= 10, f"input-derived variables found in the Python readers: {n_src} < 10")



# ---- Py_buffer lifetime ---------------------------------------------------------------------------------------------------------
def rule_buffer_lifetime(ctx, px):
    R = "buffer-lifetime"
    ctx.rep.rule(R, "every Py_buffer the compiled codecs hold: (a) the long-lived view `self._buffer` of a batch is released only in "
                    "__dealloc__ or immediately before it is re-acquired -- no call that can raise lies between PyBuffer_Release(&self._buffer) "
                    "and the PyObject_GetBuffer(..., &self._buffer, ...) that follows it on every path, so that no exception can leave the object "
                    "usable with a released view (dangling pointer: later reads touch memory the object no longer owns); (b) a view acquired "
                    "into a local is released on every normal path to the function's exit; (c) a cdef class that acquires `self._buffer` "
                    "releases it in __dealloc__")
    from ..cfg import CFG
    n_rel = n_get = 0

    def addr_arg(call, i):
        if len(call.args) > i and isinstance(call.args[i], ast.Call) and unparse(call.args[i].func) == "__addr__" and call.args[i].args:
            return unparse(call.args[i].args[0])
        return None
    holders = {}
    for q, fi in sorted(px.funcs.items()):
        calls = [n for n in ast.walk(fi.node) if isinstance(n, ast.Call) and unparse(n.func) in ("PyBuffer_Release", "PyObject_GetBuffer")]
        if not calls:
            continue
        c = CFG(fi.node, q)
        cn = {id(n.ast): n for n in c.nodes if n.kind == "call"}
        for call in calls:
            node = cn.get(id(call))
            if node is None:
                raise AnalysisError(f"buffer-lifetime: call at line {call.lineno} of {q} has no CFG node")
            is_rel = unparse(call.func) == "PyBuffer_Release"
            tgt = addr_arg(call, 0 if is_rel else 1)
            if tgt is None:
                raise AnalysisError(f"buffer-lifetime: cannot see the Py_buffer argument of {unparse(call)[:60]} in {q}")
            field = tgt.startswith("self.") or "." in tgt
            if is_rel:
                n_rel += 1
                if field and not q.endswith(".__dealloc__"):
                    # next call events on every non-exceptional path: must be the re-acquisition, nothing that can raise before it
                    bad = None
                    seen, work = set(), [m for m, l in node.succ if l != "exc"]
                    reacq = 0
                    while work:
                        m = work.pop()
                        if m in seen:
                            continue
                        seen.add(m)
                        if m.kind == "call":
                            f = unparse(m.ast.func)
                            if f == "__addr__" or f == "__cast__":
                                pass
                            elif f == "PyObject_GetBuffer" and addr_arg(m.ast, 1) == tgt:
                                reacq += 1
                                continue
                            else:
                                bad = m
                                break
                        if m is c.exit or m.kind in ("return", "raise", "await", "yield"):
                            bad = m
                            break
                        work += [x for x, l in m.succ if l != "exc"]
                    ob(ctx, R, fi, call.lineno, f"release-then-reacquire:{tgt}", bad is None and reacq >= 1,
                       f"`{tgt}` is released and then `{unparse(bad.ast)[:60] if bad is not None and bad.ast is not None else 'the function exit'}` "
                       f"(line {bad.lineno if bad is not None else 0}) runs before the view is re-acquired: if it raises, the object stays usable with a released view")
                elif field:
                    holders.setdefault(q.rsplit(".", 1)[0], set()).add("dealloc")
            else:
                n_get += 1
                if field:
                    holders.setdefault(q.rsplit(".", 1)[0], set()).add("get")
                else:
                    rels = [m for m in c.nodes if m.kind == "call" and unparse(m.ast.func) == "PyBuffer_Release" and addr_arg(m.ast, 0) == tgt]
                    leak = c.exit in c.reachable([node], avoid=set(rels), exc=False)
                    ob(ctx, R, fi, call.lineno, f"local-released:{tgt}", not leak, f"the view acquired into `{tgt}` can reach the function exit without PyBuffer_Release (the exporter stays locked)")
    for cls, ev in sorted(holders.items()):
        if "get" in ev and cls + ".__dealloc__" in px.funcs or "dealloc" in ev:
            fi = px.funcs.get(cls + ".__dealloc__")
            if fi is not None:
                ob(ctx, R, fi, fi.node.lineno, "dealloc-releases", "dealloc" in ev, f"{cls} acquires self._buffer but __dealloc__ does not release it")
    if n_rel < 12 or n_get < 12:
        raise AnalysisError(f"buffer-lifetime: {n_rel} releases / {n_get} acquisitions found in the Cython sources, confirmed by hand: >= 12 each")



def rule_splitter_state(ctx):
    R = "progress"
    # the pure-Python batch splitter keeps one look-ahead slice between next_batch() calls: every normal path of _cache_next() must
    # (re)write it -- the new slice, or None when no complete batch is left -- or has_next() stays true on a stale slice, the cursor
    # does not move and the decode loop never ends
    fi = ctx.fn("aiokafka.record.memory_records._MemoryRecordsPy._cache_next")
    c = ctx.cfg(fi)
    sts = [n for n in c.stores(attr="_next_slice") if unparse(n.ast) == "self._next_slice"]
    ok = len(sts) >= 2 and c.exit not in c.reachable([c.entry], avoid=set(sts), exc=False)
    ob(ctx, R, fi, fi.node.lineno, "py-splitter-lookahead-rewritten", ok,
       "_cache_next can return without rewriting the look-ahead slice (a truncated trailing batch leaves the previous batch in place: has_next() stays True for ever)")
    fh = ctx.fn("aiokafka.record.memory_records._MemoryRecordsPy.has_next")
    fn_ = ctx.fn("aiokafka.record.memory_records._MemoryRecordsPy.next_batch")
    ok2 = "self._next_slice is not None" in unparse(fh.node) and any(isinstance(x, ast.Call) and call_attr(x) == "_cache_next" for x in ast.walk(fn_.node))
    ob(ctx, R, fh, fh.node.lineno, "py-splitter-protocol", ok2, "has_next()/next_batch() do not follow the look-ahead protocol (has_next <=> slice present; next_batch advances the look-ahead)")


def rule_xerial_progress(ctx):
    R = "progress"
    fi = ctx.fn("aiokafka.codec.snappy_decode")
    c = ctx.cfg(fi)
    heads = [h for h in c.nodes if h.kind == "loop" and isinstance(h.ast, ast.While)]
    if len(heads) != 1:
        raise AnalysisError("progress: the block loop of snappy_decode was not found")
    head = heads[0]
    body = c.loop_body(head)
    t = head.ast.test
    cur = t.left.id if isinstance(t, ast.Compare) and isinstance(t.left, ast.Name) else None
    if cur is None:
        raise AnalysisError("progress: snappy_decode's loop test is not `cursor < bound`")
    # the cursor moves by the UNTRUSTED signed block length: an iteration may only complete after the block was either handed to the
    # decompressor unconditionally (which rejects the empty slice a non-positive length produces) or proven positive
    from ..rulekit import must_facts
    mf = must_facts(c)
    moves = [n for n in body if n.kind == "store" and isinstance(n.ast, ast.Name) and n.ast.id == cur and isinstance(n.stmt, ast.Assign)]
    ok = bool(moves)
    why = "no cursor move"
    for mv in moves:
        dec = [n for n in body if n.kind == "call" and unparse(n.ast.func).endswith("decompress_raw") and n.ast.args
               and isinstance(n.ast.args[0], ast.Subscript) and isinstance(n.ast.args[0].slice, ast.Slice)]
        validated = bool(dec) and mv not in c.reachable([head], avoid=set(dec), exc=False)
        positive = any(a in mf[mv] for a in (("0", "<", "block_size"), ("1", "<=", "block_size")))
        if not (validated or positive):
            ok = False
            why = f"`{unparse(mv.stmt)}` (line {mv.lineno}) can run without the block having been decompressed or its length proven positive"
    ob(ctx, R, fi, head.lineno, "xerial-loop-progress", ok,
       f"snappy_decode: {why}: a hostile block length <= 0 (e.g. -4) puts the cursor back where it was and the scan never ends")


def rule_invariant_survives_rebind(ctx, px, summaries, seeds):
    R = "ctor-invariant"
    # the constructors' size invariant is a fact about the buffer THEY bound.  Both compiled readers re-bind self._buffer to the
    # decompressed payload on first iteration; a payload can be any size (0 bytes), so a method whose reads are justified by the invariant
    # must not run on the re-bound buffer: it refuses (the v2 reader's own idiom: `assert self._decompressed == 0`) before its first read.
    from ..cfg import CFG
    from ..rulekit import must_facts
    n_reb = 0
    for cls, mod in (("DefaultRecordBatch", DEF), ("LegacyRecordBatch", LEG)):
        rebinders = []
        for q, fi in px.funcs.items():
            if not q.startswith(f"{mod}.{cls}.") or fi.name in ("__init__", "new", "__cinit__"):
                continue
            for x in ast.walk(fi.node):
                if isinstance(x, ast.Call) and call_attr(x) == "PyObject_GetBuffer" or (isinstance(x, ast.Call) and isinstance(x.func, ast.Name) and x.func.id == "PyObject_GetBuffer"):
                    if len(x.args) >= 2 and unparse(x.args[1]) == "__addr__(self._buffer)":
                        rebinders.append(fi)
        n_reb += len(rebinders)
        if not rebinders:
            continue
        for q in [q for q in DECODERS if q.startswith(f"{mod}.{cls}.") and (q.endswith("validate_crc") or q.endswith("_maybe_uncompress"))]:
            fi = px.fn(q)
            if fi in rebinders:
                # the rebinder itself: its seed-justified reads precede the rebinding and it runs once (flag tested on entry)
                c = CFG(fi.node, fi.qualname)
                reb = [n for n in c.nodes if n.kind == "call" and unparse(n.ast.func).endswith("PyObject_GetBuffer")]
                fl = [n for n in c.nodes if n.kind == "test" and "self._decompressed" in unparse(n.ast)]
                ok = bool(reb) and bool(fl) and all(c.dominates(fl[0], r) for r in reb)
                ob(ctx, R, fi, fi.node.lineno, "rebinds-once", ok, f"{fi.name} re-binds the buffer without first testing that it has not been re-bound already")
                continue
            _f, fb = _analyse(ctx, px, q, summaries, entry_facts=seeds.get(cls, []))
            c = fb.cfg
            facts = must_facts(c)
            for r in fb.reads():
                f_ = facts.get(r.node) or frozenset()
                ok = any(a[0] == "self._decompressed" and ((a[1] == "==" and a[2] in ("0", "False")) or a[1] == "falsy") for a in f_) or \
                     any(a[2] == "self._decompressed" and a[1] == "==" and a[0] in ("0", "False") for a in f_)
                ob(ctx, R, fi, r.lineno, f"not-after-rebind:{r.what.split(chr(40))[0]}", ok,
                   f"`{r.what[:80]}` relies on the constructor's minimum-size invariant, but {rebinders[0].name} re-binds self._buffer to the decompressed payload "
                   f"(any size, even empty) and {fi.name} does not refuse to run after that (`assert self._decompressed == 0`): out-of-bounds read, interpreter crash")
    ctx.anchor(n_reb >= 2, f"functions re-binding the input buffer ({n_reb})")
    # those refusals are `assert` statements: they exist in the binary only while Cython assertions are compiled in
    import glob
    import os
    import re
    hits = []
    files = glob.glob(os.path.join(ctx.repo.root, PKG, "*.pyx")) + glob.glob(os.path.join(ctx.repo.root, PKG, "*.pxd")) + glob.glob(os.path.join(ctx.repo.root, PKG, "*.pxi")) + \
        [os.path.join(ctx.repo.root, f) for f in ("setup.py", "setup.cfg", "pyproject.toml", "Makefile")]
    n_files = 0
    for f in files:
        if not os.path.exists(f):
            continue
        n_files += 1
        for i, line in enumerate(open(f, errors="replace"), 1):
            if re.search(r"CYTHON_WITHOUT_ASSERTIONS|-DNDEBUG\b.*assert|cython:.*\bassert", line):
                hits.append(f"{os.path.relpath(f, ctx.repo.root)}:{i}")
    ctx.anchor(n_files >= 4, f"Cython sources / build files scanned for assertion switches ({n_files})")
    ctx.rep.ob(R, f"{PKG}/ build configuration", "build|assertions-compiled-in", not hits,
               f"{hits[:3]}: Cython assertions are compiled out, and with them the `assert self._decompressed == 0` guards of validate_crc(): after iteration it "
               "checksums `len - k` bytes of a re-bound, possibly shorter buffer (out-of-bounds read, interpreter crash)")


def rule_index_nonneg(ctx, px, summaries, seeds):
    R = "index-nonneg"
    ctx.rep.rule(R, "every raw read of the input buffer uses an index proven >= 0 (the coverage rule bounds indices from above only): cursors "
                    "start at a non-negative constant, at a cursor field, or at the caller's cursor, and move by amounts with a proven non-negative "
                    "lower bound; a cursor that is moved BACK (`pos -= e`) is accepted only as the exact rewind of the last step of a loop that "
                    "provably ran at least once")
    total = 0
    for q in DECODERS:
        kw = {}
        cls = q.rsplit(".", 2)[-2]
        if q.endswith("decode_varint64"):
            kw = {"len_texts": ("buf_len",), "cursors": ("pos",)}
        elif q.endswith("_maybe_uncompress") or q.endswith("validate_crc"):
            kw = {"entry_facts": seeds.get(cls, [])}
        fi, fb = _analyse(ctx, px, q, summaries, **kw)
        params = set(fi.params())
        # positions held by parameters, by the cursor field and by the caller's cursor are validated (callers / the ctor-invariant rule:
        # every store to self._pos is a proven position): they enter with lower bound 0; everything else needs a derived bound
        from ..bounds import State
        st0 = State()
        for cur_, const_, syms_ in kw.get("entry_facts", []):
            st0.add_cov(cur_, const_, syms_)
        for k in list(params) + ["self._pos"] + [f"{p_}[0]" for p_ in params]:
            st0.lb[k] = 0
        fb._solve_from(st0)
        for r in fb.reads():
            st = fb.IN.get(r.node)
            if st is None:
                continue    # unreachable
            total += 1
            fb._cur = st
            idx = fb._lin(r.index, r.node)
            ok, why = False, f"index `{unparse(r.index)[:40]}` is not linear"
            if idx is not None:
                lb = dict(st.lb)
                lo = fb._lower_with(idx, lb)
                ok = lo is not None and lo >= 0
                why = f"no lower bound is known for index `{unparse(r.index)[:40]}`" if lo is None else f"index `{unparse(r.index)[:40]}` can be as low as {lo}"
                if not ok:
                    ok, why2 = _rewind_ok(fb, r, idx)
                    why = why + "; " + why2
            ob(ctx, R, fi, r.lineno, f"{r.kind}:{r.what.split(chr(40))[0]}:{unparse(r.index)[:30]}", ok, f"`{r.what[:70]}`: {why}")
    ctx.anchor(total >= 40, f"raw read sites examined for a lower bound: {total}")


def _rewind_ok(fb, r, idx):
    """The index is a cursor whose last move was `cur -= E` directly after a while-loop whose every iteration ends with `cur += E`, the
    loop provably runs at least once (cursor 0 on entry, `while cur < LEN`, LEN >= 1 established) and the cursor is >= 0 inside it."""
    c = fb.cfg
    curs = [k for k, v in idx.terms.items() if v == 1 and k.isidentifier()]
    if len(curs) != 1 or idx.const < 0 or any(v < 0 for v in idx.terms.values()):
        return False, "not a plain cursor"
    cur = curs[0]
    stores = [n for n in c.nodes if n.kind == "store" and isinstance(n.ast, ast.Name) and n.ast.id == cur]
    back = [n for n in stores if isinstance(n.stmt, ast.AugAssign) and isinstance(n.stmt.op, ast.Sub)]
    if len(back) != 1 or not c.dominates(back[0], r.node) or any(c.path_exists(back[0], s_, exc=False) for s_ in stores if s_ is not back[0]):
        return False, "no single rewind dominating the read"
    e_txt = unparse(strip_casts(back[0].stmt.value))
    loops = [h for h in c.nodes if h.kind == "loop" and isinstance(h.ast, ast.While) and c.dominates(h, back[0]) and not any(a is h.ast for a, _r in back[0].within)]
    if len(loops) != 1:
        return False, "the rewind does not follow a while-loop"
    h = loops[0]
    body_stores = [n for n in stores if any(a is h.ast for a, _r in n.within)]
    if not body_stores or not all(isinstance(n.stmt, ast.AugAssign) and isinstance(n.stmt.op, ast.Add) for n in body_stores):
        return False, "the loop moves the cursor by something other than `+=`"
    last = [n for n in body_stores if not any(c.path_exists(n, m, exc=False, avoid={h}) for m in body_stores if m is not n)]
    if len(last) != 1 or unparse(strip_casts(last[0].stmt.value)) != e_txt or len(body_stores) != 1:
        return False, f"the loop's last step is not `{cur} += {e_txt}`"
    # variables of E are not re-bound between the step and the rewind
    names = {x.id for x in ast.walk(back[0].stmt.value) if isinstance(x, ast.Name)}
    for n in c.nodes:
        if n.kind == "store" and isinstance(n.ast, ast.Name) and n.ast.id in names and c.path_exists(last[0], n, exc=False, avoid={h}) and c.path_exists(n, back[0], exc=False):
            return False, f"`{n.ast.id}` is re-bound between the last step and the rewind"
    # cursor >= 0 at the step
    st_in = fb.IN.get(last[0])
    if st_in is None or st_in.lb.get(cur) is None or st_in.lb[cur] < 0:
        return False, "the cursor has no non-negative lower bound inside the loop"
    # at least one iteration: on entry cursor == 0, the test is cur < LEN, and LEN >= 1 is established
    pre = [p for p, l in h.pred if l != "back"] if hasattr(h, "pred") else []
    test = strip_casts(h.ast.test)
    fb._cur = fb.IN.get(h)
    if not (isinstance(test, ast.Compare) and len(test.ops) == 1 and isinstance(test.ops[0], ast.Lt) and unparse(test.left) == cur):
        return False, "the loop test is not `cursor < length`"
    rhs = fb._lin(test.comparators[0], h)
    if rhs is None or set(rhs.terms) != {"LEN"} or rhs.const != 0:
        return False, "the loop test is not `cursor < length`"
    ok_entry = False
    for p, l in h.pred:
        if l == "back":
            continue
        stp = fb._transfer(p, l, fb.IN[p]) if fb.IN.get(p) is not None else None
        if stp is None:
            continue
        k = max([c_ for c_, y in stp.cov.get("0", set()) if not y], default=0)
        ok_entry = stp.eq.get(cur) == 0 and k >= 1
        if not ok_entry:
            break
    if not ok_entry:
        return False, ("the loop is not shown to run at least once (needs the cursor to be 0 and a minimum buffer length established before the loop): with an "
                       "empty buffer the rewind moves the cursor to a negative index and the read lies BEFORE the buffer")
    return True, ""


def rule_error_sentinel(ctx, px):
    R = "error-sentinel"
    ctx.rep.rule(R, "a `cdef T f(...) except V` function (no `?`) tells every caller that the return value V MEANS an exception is pending; if such a "
                    "function can return V as an ordinary value the caller takes the error exit with no exception set -- `SystemError: error return "
                    "without exception set`, or, inside a generator (`__iter__` of the legacy batch), a silent end of iteration that drops the batch's "
                    "records.  So no return of such a function may carry a value read from the input buffer (hton.unpack_*, buf[i], a varint "
                    "out-parameter) unless a dominating test excludes V, and constant returns differ from V; functions whose result is input-derived "
                    "must be declared `except? V`")
    from ..cfg import CFG
    from ..rulekit import must_facts
    n = 0
    for q, fi in sorted(px.funcs.items()):
        if fi.kind != "cdef" or fi.exc_value is None or fi.exc_check:
            continue
        n += 1
        ctx.rep.functions.add(q)
        tainted = set()
        changed = True

        def is_src(e):
            for x in ast.walk(e):
                if isinstance(x, ast.Call) and isinstance(x.func, ast.Attribute) and x.func.attr.startswith("unpack_"):
                    return True
                if isinstance(x, ast.Subscript) and isinstance(x.value, ast.Name) and fi.ctypes.get(x.value.id, "").endswith("*") and isinstance(x.ctx, ast.Load) \
                        and not (isinstance(getattr(x, "_parent", None), ast.Call) and unparse(x._parent.func) == "__addr__"):
                    return True
                if isinstance(x, ast.Name) and x.id in tainted:
                    return True
            return False
        while changed:
            changed = False
            for st in ast.walk(fi.node):
                if isinstance(st, (ast.Assign, ast.AugAssign)) and st.value is not None and is_src(st.value):
                    for t in (st.targets if isinstance(st, ast.Assign) else [st.target]):
                        for x in ast.walk(t):
                            if isinstance(x, ast.Name) and x.id not in tainted:
                                tainted.add(x.id)
                                changed = True
                # out-parameters of the varint decoder: decode_varint64(buf, len, &pos, &value)
                if isinstance(st, ast.Call) and call_attr(st) in ("decode_varint64", "decode_varint"):
                    for a in st.args[3:]:
                        if isinstance(a, ast.Call) and unparse(a.func) == "__addr__" and isinstance(a.args[0], ast.Name) and a.args[0].id not in tainted:
                            tainted.add(a.args[0].id)
                            changed = True
        c = None
        for r in [x for x in ast.walk(fi.node) if isinstance(x, ast.Return) and x.value is not None]:
            v = strip_casts(r.value)
            txt = unparse(v)
            try:
                cv = int(txt)
            except ValueError:
                cv = None
            if cv is not None:
                ob(ctx, R, fi, r.lineno, f"return:{txt}", str(cv) != str(fi.exc_value), f"`return {txt}` of a function declared `except {fi.exc_value}` is taken for an error by every caller")
                continue
            if not is_src(v):
                ob(ctx, R, fi, r.lineno, f"return:{txt[:40]}", True)
                continue
            if c is None:
                c = CFG(fi.node, fi.qualname)
            rn = [x for x in c.nodes if x.kind == "return" and x.ast is r]
            facts = (must_facts(c)[rn[0]] or frozenset()) if rn else frozenset()
            excluded = isinstance(v, ast.Name) and any(a[0] == v.id and ((a[1] in (">=", ">") and a[2] in ("0",)) or (a[1] == "!=" and a[2] == str(fi.exc_value))) for a in facts)
            ob(ctx, R, fi, r.lineno, f"return:{txt[:40]}", excluded,
               f"`return {txt[:60]}` hands an input-derived value back from a function declared `except {fi.exc_value}` (not `except? {fi.exc_value}`): when the "
               f"input makes it {fi.exc_value} the caller takes the error exit with no exception set (silent end of iteration / SystemError)")
    ctx.anchor(n >= 12, f"cdef functions with an unchecked error sentinel ({n})")


def run(ctx):
    rep = ctx.rep
    rep.explanation = ("C10: check-before-use analysis of every raw-pointer read in the compiled decoders (Cython parse tree lowered to a CFG; "
                       "forward dataflow of coverage facts `cursor + n <= len`), definition of the bounds helpers (sign, overflow), constructor "
                       "invariants, progress of every decoding loop (compiled and pure Python), checksum regions, and error/allocation discipline "
                       "of the pure-Python readers.")
    px = Pyx(ctx)
    rep.extra["pyx_functions"] = len(px.funcs)
    summaries = rule_check_bounds_def(ctx, px)
    seeds = rule_invariants(ctx, px, summaries)
    rule_read_covered(ctx, px, summaries, seeds)
    rule_invariant_survives_rebind(ctx, px, summaries, seeds)
    rule_index_nonneg(ctx, px, summaries, seeds)
    rule_decode_varint_cython(ctx, px)
    rule_progress(ctx, px, summaries)
    rule_xerial_progress(ctx)
    rule_splitter_state(ctx)
    rule_crc(ctx, px)
    rule_clean_errors(ctx)
    rule_buffer_lifetime(ctx, px)
    rule_error_sentinel(ctx, px)
    from .common import rule_iterator_reraises
    rule_iterator_reraises(ctx, "clean-errors")
    from .common import rule_instance_state
    rule_instance_state(ctx, ("aiokafka.record.",))
    rep.nd("behaviour inside zlib / snappy / lz4 / zstd and CPython's allocator")
    rep.nd("value-level agreement of the two implementations on hostile input")
    rep.assumptions = ["Cython's parser represents the .pyx sources faithfully (DEF constants folded by the parser)",
                       "Py_ssize_t arithmetic on validated (in-range) values does not overflow; only sums with an unvalidated size are flagged",
                       "hton.unpack_intN reads exactly N bytes; PyBytes_FromStringAndSize / calc_crc32* read exactly the given size"]
