"""C19 -- stop() always terminates and leaves nothing running (structural clauses)."""
from __future__ import annotations

import ast

from ..loader import AnalysisError, call_attr, call_name, dotted, unparse, walk_own
from ..rulekit import arg_of, is_none_test

CONSUMER = "aiokafka.consumer.consumer.AIOKafkaConsumer"
PRODUCER = "aiokafka.producer.producer.AIOKafkaProducer"
GC = "aiokafka.consumer.group_coordinator.GroupCoordinator"
NGC = "aiokafka.consumer.group_coordinator.NoGroupCoordinator"
FETCHER = "aiokafka.consumer.fetcher.Fetcher"
CLIENT = "aiokafka.client.AIOKafkaClient"
CONN = "aiokafka.conn.AIOKafkaConnection"
SENDER = "aiokafka.producer.sender.Sender"
ACC = "aiokafka.producer.message_accumulator.MessageAccumulator"

SPAWNERS = {"create_task", "ensure_future", "call_later", "call_soon", "call_at"}
CANCEL_NAMES = ("CancelledError", "BaseException")


# ---------------------------------------------------------------------------------------------
# spawn sites
# ---------------------------------------------------------------------------------------------
class Spawn:
    def __init__(self, fi, call, kind, where, routines):
        self.fi, self.call, self.kind, self.where, self.routines = fi, call, kind, where, routines

    def __repr__(self):
        return f"<spawn {self.fi.qualname}:{self.call.lineno} {self.kind} {self.where} {[r.qualname for r in self.routines]}>"


def _parent_stmt(n):
    while n is not None and not isinstance(n, ast.stmt):
        n = getattr(n, "_parent", None)
    return n


def _routines_of(ctx, fi, call):
    """Coroutine functions / callbacks a spawn call starts."""
    nm = call_attr(call)
    if nm in ("call_later", "call_at"):
        cb = arg_of(call, 1)
    elif nm == "call_soon":
        cb = arg_of(call, 0)
    else:
        cb = arg_of(call, 0)
    out = []
    if isinstance(cb, ast.Call):
        out = ctx.resolve_call(fi, cb)
    elif isinstance(cb, ast.Attribute):
        fake = ast.Call(func=cb, args=[], keywords=[])
        out = ctx.resolve_call(fi, fake)
    elif isinstance(cb, ast.Name) and fi.parent is not None and cb.id in fi.params():
        # parameter of a nested helper: look at the helper's call sites in the enclosing function
        for n in walk_own(fi.parent.node):
            if isinstance(n, ast.Call) and isinstance(n.func, ast.Name) and n.func.id == fi.name:
                idx = fi.params().index(cb.id)
                a = arg_of(n, idx, kw=cb.id)
                if isinstance(a, ast.Call):
                    out += ctx.resolve_call(fi.parent, a)
    return out


def spawn_sites(ctx):
    sites = []
    for fi in ctx.repo.funcs.values():
        if fi.qualname == "aiokafka.util.create_task":
            continue
        for n in walk_own(fi.node):
            if not (isinstance(n, ast.Call) and call_attr(n) in SPAWNERS):
                continue
            st = _parent_stmt(n)
            where = ("other", None)
            if isinstance(st, ast.Assign) and st.value is n and len(st.targets) == 1:
                t = st.targets[0]
                if isinstance(t, ast.Attribute):
                    where = ("attr", t.attr)
                elif isinstance(t, ast.Name):
                    where = ("local", t.id)
                    # stored into a container attribute right after?
                    for m in walk_own(fi.node):
                        if isinstance(m, ast.Call) and call_attr(m) in ("add", "append") and m.args and isinstance(m.args[0], ast.Name) \
                                and m.args[0].id == t.id and isinstance(m.func.value, ast.Attribute):
                            where = ("container", m.func.value.attr)
                        if isinstance(m, ast.Return) and isinstance(m.value, ast.Name) and m.value.id == t.id and where[0] == "local":
                            where = ("returned", None)
            elif isinstance(st, ast.Return) and st.value is n:
                where = ("returned", None)
            elif isinstance(st, ast.Expr) and st.value is n:
                where = ("dropped", None)
            else:
                where = ("inline", unparse(st).split("(")[0][:40])
            sites.append(Spawn(fi, n, call_attr(n), where, _routines_of(ctx, fi, n)))
    return sites


# ---------------------------------------------------------------------------------------------
# cancel-safety of a routine: which of its suspension points let a CancelledError escape
# ---------------------------------------------------------------------------------------------
def _handler_catches_cancel(h):
    if h.type is None:
        return True
    return any(x in unparse(h.type) for x in CANCEL_NAMES)


def _catching_frame(node):
    """Innermost construct that catches a CancelledError raised at CFG node `node`:
    returns ('handler', ExceptHandler) | ('suppress', With) | None."""
    for a, role in reversed(node.within):
        if isinstance(a, ast.Try) and role == "body":
            for h in a.handlers:
                if _handler_catches_cancel(h):
                    return ("handler", h)
                # an earlier `except Exception` does not catch CancelledError (BaseException since 3.8)
        elif isinstance(a, (ast.With, ast.AsyncWith)) and role == "body":
            for it in a.items:
                ce = it.context_expr
                if isinstance(ce, ast.Call) and unparse(ce.func).endswith("suppress") and any(
                        any(x in unparse(arg) for x in CANCEL_NAMES) for arg in ce.args):
                    return ("suppress", a)
    return None


def unprotected_suspensions(ctx, fi, _depth=0, _seen=None):
    """Suspension points of coroutine `fi` at which a cancellation makes the coroutine END WITH CancelledError
    (instead of returning normally). A point is protected when an enclosing try catches CancelledError and the
    handler neither re-raises nor reaches another unprotected suspension."""
    c = ctx.cfg(fi)
    live = c.live_nodes()
    bad = []
    # nodes reachable without entering a handler that catches CancelledError: where the (single) cancellation can land
    ch = [x for x in c.nodes if x.kind == "handler" and _handler_catches_cancel(x.ast)]
    before = c.reachable([c.entry], avoid=set(ch), include_src=True)
    for n in c.nodes:
        if n not in live or n.kind not in ("await", "yield") or n not in before:
            continue
        fr = _catching_frame(n)
        if fr is None:
            bad.append((n, "no enclosing handler for CancelledError"))
            continue
        if fr[0] == "suppress":
            continue
        h = fr[1]
        hn = [x for x in c.nodes if x.kind == "handler" and x.ast is h]
        if not hn:
            continue
        after = c.reachable([hn[0]], exc=False, include_src=True)
        rr = [x for x in after if x.kind == "raise" and any(m is c.raise_exit for m, _ in x.succ)
              and any(a is h for a, _r in x.within)]
        if rr:
            bad.append((n, f"handler at line {h.lineno} re-raises"))
    return bad



# ---------------------------------------------------------------------------------------------
# may a background coroutine END WITH AN EXCEPTION by design (not through an "unexpected error" wrapper)?
# ---------------------------------------------------------------------------------------------
_CATCH_ALL = ("KafkaError", "Exception", "BaseException")


def _has_bare_raise(h):
    for x in ast.walk(h):
        if isinstance(x, ast.Raise) and x.exc is None:
            return True
    return False


def _propagates(node):
    """An exception raised at CFG node `node` (a KafkaError, typically) leaves the function."""
    for a, role in reversed(node.within):
        if isinstance(a, ast.Try) and role == "body":
            for h in a.handlers:
                names = [] if h.type is None else [unparse(e).split(".")[-1] for e in (h.type.elts if isinstance(h.type, ast.Tuple) else [h.type])]
                if h.type is None or any(nm in _CATCH_ALL for nm in names):
                    if _has_bare_raise(h):
                        break  # re-raised: keeps travelling outwards
                    return False
        elif isinstance(a, (ast.With, ast.AsyncWith)) and role == "body":
            for it in a.items:
                ce = it.context_expr
                if isinstance(ce, ast.Call) and unparse(ce.func).endswith("suppress") and any(
                        unparse(arg).split(".")[-1] in _CATCH_ALL for arg in ce.args):
                    return False
    return True


def _in_unexpected_wrapper(node):
    for a, role in reversed(node.within):
        if isinstance(a, ast.ExceptHandler) and role == "body" and (a.type is None or unparse(a.type) in ("Exception", "BaseException")):
            return True
    return False


def may_raise_by_design(ctx, fi, depth=0, memo=None):
    """Witness text when coroutine `fi` can end with an exception that the code raises on purpose (explicit `raise` outside
    an `except Exception` wrapper, here or in a consumer/producer-module callee up to depth 3, not caught on the way)."""
    memo = ctx.__dict__.setdefault("_mrbd", {}) if memo is None else memo
    if fi.qualname in memo:
        return memo[fi.qualname]
    memo[fi.qualname] = None
    c = ctx.cfg(fi)
    live = c.live_nodes()
    res = None
    for n in c.nodes:
        if n not in live:
            continue
        if n.kind == "raise" and n.ast.exc is not None and not _in_unexpected_wrapper(n) and _propagates(n):
            res = f"{fi.qualname}:{n.lineno} `{unparse(n.ast)[:60]}`"
            break
        if n.kind == "call" and depth < 3 and _propagates(n):
            for g in ctx.resolve_call(fi, n.ast):
                if g is not fi and g.module.name.startswith(("aiokafka.consumer", "aiokafka.producer")):
                    r = may_raise_by_design(ctx, g, depth + 1, memo)
                    if r:
                        res = f"{fi.name} -> {r}"
                        break
            if res:
                break
    memo[fi.qualname] = res
    return res

# ---------------------------------------------------------------------------------------------
# must-call / must-release path queries
# ---------------------------------------------------------------------------------------------
def _null_label(test_ast, subject):
    """If `test_ast` is an existence/doneness test of expression text `subject`, the edge label meaning
    'nothing there / already finished'; else None."""
    e = test_ast
    if unparse(e) == subject:
        return "F"
    x = is_none_test(e)
    if x is not None and unparse(x) == subject:
        return "T"
    x = is_none_test(e, negate=True)
    if x is not None and unparse(x) == subject:
        return "F"
    if isinstance(e, ast.Call) and call_attr(e) in ("done", "cancelled") and not e.args and unparse(e.func.value) == subject:
        return "T"
    return None


def aliases(fi, subj):
    """Texts that denote the same object as `subj` inside fi: subj itself plus locals assigned exactly once from it."""
    out = {subj}
    for n in walk_own(fi.node):
        if isinstance(n, ast.Assign) and len(n.targets) == 1 and isinstance(n.targets[0], ast.Name) and unparse(n.value) == subj:
            nm = n.targets[0].id
            defs = [m for m in walk_own(fi.node) if isinstance(m, (ast.Assign, ast.AugAssign, ast.AnnAssign)) and any(
                isinstance(t, ast.Name) and t.id == nm for t in (m.targets if isinstance(m, ast.Assign) else [m.target]))]
            if len(defs) == 1:
                out.add(nm)
    return out


def alias_origin(fi, name):
    """Attribute expression text a local alias was assigned from (or None)."""
    for n in walk_own(fi.node):
        if isinstance(n, ast.Assign) and len(n.targets) == 1 and isinstance(n.targets[0], ast.Name) and n.targets[0].id == name \
                and isinstance(n.value, ast.Attribute):
            return n.value
    return None


def paths_avoiding(c, targets, skip_edges):
    """Is exit reachable from entry on normal edges without passing a node in `targets`,
    never taking an edge in skip_edges={(test node, label)}? Returns witness path or None."""
    from collections import deque
    targets = set(targets)
    prev = {c.entry: None}
    dq = deque([c.entry])
    while dq:
        n = dq.popleft()
        if n is c.exit:
            path = []
            while n is not None:
                path.append(n)
                n = prev[n]
            return list(reversed(path))
        for m, l in n.succ:
            if l == "exc" or (n, l) in skip_edges or m in targets or m in prev:
                continue
            prev[m] = n
            dq.append(m)
    return None


def _describe(path):
    tests = [f"L{n.lineno}:{unparse(n.ast)[:50]}" for n in path if n.kind == "test"]
    return " -> ".join(tests[-4:]) if tests else "straight-line"


# idempotence / not-started guards: (function, test text) -> label whose edge is legitimately allowed to skip the closers
GUARDS = {
    (f"{CONSUMER}.stop", "self._closed"): "T",
    (f"{CONSUMER}.stop", "self._coordinator"): "F",
    (f"{CONSUMER}.stop", "self._fetcher"): "F",
    (f"{PRODUCER}.stop", "self._closed"): "T",
    (f"{PRODUCER}.stop", "self._sender is not None"): "F",
    (f"{PRODUCER}.stop", "self._sender.sender_task is not None"): "F",
    (f"{GC}.close", "self._closing.done()"): "T",
    (f"{CLIENT}.close", "futs"): "F",
}


def _skip_edges(c, fi, subjects=()):
    out = set()
    subjects = {a for s_ in subjects for a in aliases(fi, s_)}
    for t in c.nodes:
        if t.kind != "test":
            continue
        lab = GUARDS.get((fi.qualname, unparse(t.ast)))
        if lab:
            out.add((t, lab))
        for s in subjects:
            lab = _null_label(t.ast, s)
            if lab:
                out.add((t, lab))
    return out


def must_call(ctx, fi, pred, subjects=()):
    """Every normal path entry->exit of fi passes a node satisfying pred (modulo guard edges). -> (ok, witness)"""
    c = ctx.cfg(fi)
    tg = [n for n in c.nodes if pred(n)]
    if not tg:
        return False, "no such node"
    w = paths_avoiding(c, tg, _skip_edges(c, fi, subjects))
    return (w is None), (None if w is None else _describe(w))


def _calls_resolving_to(ctx, fi, target_q):
    c = ctx.cfg(fi)
    out = []
    for n in c.nodes:
        if n.kind == "call":
            if any(t.qualname == target_q for t in ctx.resolve_call(fi, n.ast)):
                out.append(n)
    return out


# ---------------------------------------------------------------------------------------------
# rules
# ---------------------------------------------------------------------------------------------
STOP_CHAIN = [
    # (caller, callee, must be awaited)
    (f"{CONSUMER}.stop", f"{GC}.close", True),
    (f"{CONSUMER}.stop", f"{NGC}.close", True),
    (f"{CONSUMER}.stop", f"{FETCHER}.close", True),
    (f"{CONSUMER}.stop", f"{CLIENT}.close", True),
    (f"{GC}.close", f"{GC}._stop_heartbeat_task", True),
    (f"{GC}.close", f"{GC}._stop_commit_offsets_refresh_task", True),
    (f"{GC}.close", f"{GC}._maybe_leave_group", True),
    (f"{PRODUCER}.stop", f"{ACC}.close", False),
    (f"{PRODUCER}.stop", f"{SENDER}.close", True),
    (f"{PRODUCER}.stop", f"{CLIENT}.close", True),
    (f"{CLIENT}.close", f"{CONN}.close", False),
]


def _is_awaited(call_ast):
    p = getattr(call_ast, "_parent", None)
    return isinstance(p, ast.Await)


def rule_stop_chain(ctx):
    R = "stop-chain"
    ctx.rep.rule(R, "must-call chain of the shutdown entry points: on every normal path (ignoring only the frozen idempotence / "
                    "not-started guards) consumer.stop() awaits coordinator.close, fetcher.close, client.close in that order; "
                    "GroupCoordinator.close stops heartbeat and commit-refresh tasks and then attempts LeaveGroup; producer.stop() "
                    "closes the accumulator (raced with the sender), the sender, the client; client.close closes every connection it holds")
    for caller, callee, awaited in STOP_CHAIN:
        fi = ctx.fn(caller)
        ctx.fn(callee)
        calls = _calls_resolving_to(ctx, fi, callee)
        ok, w = must_call(ctx, fi, lambda n, calls=calls: n in calls)
        ctx.ob(R, fi, fi.node, ok, f"{caller} can return without calling {callee} (path: {w})", text=f"must-call:{callee.rsplit('.', 2)[-2]}.{callee.rsplit('.', 1)[-1]}")
        if awaited and calls:
            ctx.ob(R, fi, calls[0], all(_is_awaited(n.ast) for n in calls), f"{callee} is a coroutine but its call in {caller} is not awaited", text=f"awaited:{callee.rsplit('.', 1)[-1]}")
    # order in consumer.stop: coordinator (needs the network for the last commit and LeaveGroup) before fetcher before client
    fi = ctx.fn(f"{CONSUMER}.stop")
    c = ctx.cfg(fi)
    co = _calls_resolving_to(ctx, fi, f"{GC}.close")
    fe = _calls_resolving_to(ctx, fi, f"{FETCHER}.close")
    cl = _calls_resolving_to(ctx, fi, f"{CLIENT}.close")
    ok = bool(co and fe and cl) and all(not c.path_exists(x, y, exc=False) for x in cl for y in co + fe)
    ctx.ob(R, fi, fi.node, ok, "client.close() can run before coordinator.close()/fetcher.close(): the last commit and LeaveGroup have no connection", text="order:client-last")
    # coordinator close before the fetcher is closed?  (not required by the property)  -- only the client order is.
    fi = ctx.fn(f"{PRODUCER}.stop")
    c = ctx.cfg(fi)
    se = _calls_resolving_to(ctx, fi, f"{SENDER}.close")
    cl = _calls_resolving_to(ctx, fi, f"{CLIENT}.close")
    ok = bool(se and cl) and all(not c.path_exists(x, y, exc=False) for x in cl for y in se)
    ctx.ob(R, fi, fi.node, ok, "client.close() can run before sender.close()", text="order:client-last:producer")
    # GroupCoordinator.close: flag set before the first suspension, coordination task awaited, LeaveGroup last
    fi = ctx.fn(f"{GC}.close")
    c = ctx.cfg(fi)
    sr = [n for n in c.calls(attr="set_result") if unparse(n.ast.func.value) == "self._closing"]
    ctx.anchor(len(sr) == 1, "self._closing.set_result in GroupCoordinator.close")
    sus = ctx.suspension_nodes(fi)
    ok = all(c.dominates(sr[0], s) for s in sus)
    ctx.ob(R, fi, sr[0], ok, "close() can be suspended before the closing flag is set (a second stop() would run the shutdown twice)", text="flag-before-suspension")
    aw = [n for n in c.nodes if n.kind == "await" and isinstance(n.ast, ast.Await) and unparse(n.ast.value) == "self._coordination_task"]
    ok, w = must_call(ctx, fi, lambda n: n in aw, subjects=("self._coordination_task",))
    ctx.ob(R, fi, fi.node, ok, f"close() does not wait for the coordination routine to finish its last commit (path: {w})", text="await-coordination-task")
    # tasks that the coordination routine (re)starts may only be stopped once that routine has ended
    clo = _awaited_closure(ctx, [f"{GC}._coordination_routine"])
    for starter, stopper in ((f"{GC}._start_heartbeat_task", f"{GC}._stop_heartbeat_task"), (f"{GC}.start_commit_offsets_refresh_task", f"{GC}._stop_commit_offsets_refresh_task")):
        ctx.fn(starter)
        if starter in clo:
            skip = _skip_edges(c, fi, ("self._coordination_task",))
            for sc in _calls_resolving_to(ctx, fi, stopper):
                # is the stop call reachable from the entry without passing the await (ignoring the already-done edge)?
                seen, stack = set(), [c.entry]
                hit = False
                while stack:
                    n = stack.pop()
                    if n in seen or n in aw:
                        continue
                    seen.add(n)
                    if n is sc:
                        hit = True
                        break
                    stack += [m for m, l in n.succ if l != "exc" and (n, l) not in skip]
                ctx.ob(R, fi, sc, not hit, f"{stopper.rsplit('.', 1)[-1]}() can run while the coordination routine is still running: a rebalance in flight "
                                           f"completes afterwards and {starter.rsplit('.', 1)[-1]}() starts a task that nothing stops (it outlives stop())",
                       text=f"stop-after-coordination:{stopper.rsplit('.', 1)[-1]}")
    lv = _calls_resolving_to(ctx, fi, f"{GC}._maybe_leave_group")
    stops = _calls_resolving_to(ctx, fi, f"{GC}._stop_heartbeat_task") + aw
    ok = bool(lv) and all(not c.path_exists(l, s, exc=False) for l in lv for s in stops)
    ctx.ob(R, fi, fi.node, ok, "LeaveGroup is attempted before the coordination/heartbeat tasks are stopped (they could re-join)", text="order:leave-last")
    # client.close closes *every* connection and waits for them
    fi = ctx.fn(f"{CLIENT}.close")
    c = ctx.cfg(fi)
    cc = _calls_resolving_to(ctx, fi, f"{CONN}.close")
    ok = False
    for n in cc:
        p = getattr(n.ast, "_parent", None)
        if isinstance(p, (ast.ListComp, ast.GeneratorExp, ast.SetComp)) and len(p.generators) == 1 and not p.generators[0].ifs \
                and unparse(p.generators[0].iter) in ("self._conns.values()", "list(self._conns.values())"):
            ok = True
        for a, role in n.within:
            if isinstance(a, ast.For) and role == "body" and unparse(a.iter) in ("self._conns.values()", "list(self._conns.values())"):
                ok = True
    ctx.ob(R, fi, fi.node, ok, "client.close() does not close every connection in self._conns (unfiltered iteration expected)", text="all-conns")
    g = [n for n in c.nodes if n.kind == "await" and isinstance(n.ast, ast.Await) and isinstance(n.ast.value, ast.Call) and call_attr(n.ast.value) in ("gather", "wait")]
    ctx.ob(R, fi, fi.node, bool(g), "client.close() does not wait for the connections' transports to close", text="await-conns")


def rule_release(ctx, sites):
    R = "release"
    ctx.rep.rule(R, "every task / timer handle the package creates and keeps in an attribute is cancelled or awaited by a function that the "
                    "matching stop() must-reach, on every normal path of that function (only existence / already-done tests of the handle itself "
                    "may skip it); handles kept in locals are cancelled, awaited or handed to asyncio.wait/gather in the creating function; "
                    "nothing is spawned and dropped")
    ctx.floor(sites, 20, "task/timer creation sites in the package")
    # closers that stop() must-reach (verified by stop-chain) plus the ones they must-call
    reach = {
        f"{CONSUMER}.stop", f"{GC}.close", f"{NGC}.close", f"{FETCHER}.close", f"{CLIENT}.close", f"{GC}._stop_heartbeat_task",
        f"{GC}._stop_commit_offsets_refresh_task", f"{PRODUCER}.stop", f"{SENDER}.close", f"{CONN}.close", f"{ACC}.close",
    }
    for s in sites:
        kind, name = s.where
        txt = f"{kind}:{name}:{'/'.join(sorted(r.name for r in s.routines)) or '?'}"
        if kind == "attr" or kind == "container":
            rel = []
            for q in sorted(reach):
                fi = ctx.fn(q)
                oc = fi.owner_cls
                soc = s.fi.owner_cls
                if oc is None or soc is None or not (oc is soc or oc in ctx.repo.mro(soc) or soc in ctx.repo.mro(oc)):
                    continue
                c = ctx.cfg(fi)
                subj = f"self.{name}"
                if kind == "attr":
                    al = aliases(fi, subj)
                    tg = [n for n in c.nodes if (n.kind == "call" and call_attr(n.ast) == "cancel" and unparse(n.ast.func.value) in al)
                          or (n.kind == "await" and isinstance(n.ast, ast.Await) and unparse(n.ast.value) in al)]
                else:
                    tg = []
                    for n in c.nodes:
                        if n.kind == "call" and call_attr(n.ast) == "cancel" and isinstance(n.ast.func.value, ast.Name):
                            for a, role in n.within:
                                if isinstance(a, ast.For) and role == "body" and unparse(a.iter) in (subj, f"list({subj})", f"tuple({subj})") \
                                        and isinstance(a.target, ast.Name) and a.target.id == n.ast.func.value.id:
                                    tg.append(n)
                if not tg:
                    continue
                if kind == "attr":
                    w = paths_avoiding(c, tg, _skip_edges(c, fi, (subj,)))
                else:
                    # loop body may run zero times (empty container): require the loop head to be on every path instead
                    heads = [h for h in c.nodes if h.kind == "loop" and any(h.ast is a for t in tg for a, _r in t.within)]
                    w = paths_avoiding(c, heads, _skip_edges(c, fi, (subj,)))
                rel.append((fi, w))
            ok = any(w is None for _f, w in rel)
            why = "no function on the stop path cancels or awaits it" if not rel else \
                "; ".join(f"{f.qualname} can return without releasing it (path: {_describe(w)})" for f, w in rel if w is not None)
            ctx.ob(R, s.fi, s.call, ok, f"{s.kind} kept in self.{name} ({'/'.join(r.name for r in s.routines)}): {why}", text=txt)
        elif kind == "local":
            c = ctx.cfg(s.fi)
            used = False
            for n in walk_own(s.fi.node):
                if isinstance(n, ast.Call) and call_attr(n) == "cancel" and unparse(n.func.value) == name:
                    used = True
                if isinstance(n, ast.Await) and unparse(n.value) == name:
                    used = True
                if isinstance(n, ast.Call) and call_attr(n) in ("wait", "gather", "add", "append", "add_done_callback") and name in {x.id for a in n.args for x in ast.walk(a) if isinstance(x, ast.Name)}:
                    used = True
            ctx.ob(R, s.fi, s.call, used, f"{s.kind} kept in local `{name}` is never cancelled, awaited or handed to wait/gather", text=txt)
        elif kind == "dropped":
            ctx.ob(R, s.fi, s.call, False, f"{s.kind} result is dropped: nothing can cancel or await it at stop()", text=txt)
        elif kind == "inline":
            st = _parent_stmt(s.call)
            okc = any(isinstance(x, ast.Call) and call_attr(x) in ("wait", "gather", "wait_for", "shield") for x in ast.walk(st))
            ctx.ob(R, s.fi, s.call, okc, f"{s.kind} created inline but not inside asyncio.wait/gather", text=txt)
        else:  # returned to the caller
            ctx.ob(R, s.fi, s.call, True, "", text=txt)
    # the sender's local task set: every task added is awaited in the CancelledError arm
    fi = ctx.fn(f"{SENDER}._sender_routine")
    c = ctx.cfg(fi)
    hs = [n for n in c.nodes if n.kind == "handler" and n.ast.type is not None and "CancelledError" in unparse(n.ast.type)]
    ctx.anchor(len(hs) == 1, "CancelledError handler of the sender routine")
    arm = c.reachable([hs[0]], exc=False, include_src=True)
    aw = [n for n in arm if n.kind == "await" and isinstance(n.ast, ast.Await) and isinstance(n.ast.value, ast.Name)
          and any(isinstance(a, ast.For) and unparse(a.iter) == "tasks" and isinstance(a.target, ast.Name) and a.target.id == n.ast.value.id for a, _r in n.within)]
    ctx.ob(R, fi, hs[0], bool(aw), "the sender's cancellation arm no longer awaits its in-flight produce / transaction tasks (they outlive stop())", text="sender-arm-awaits-tasks")
    adds = [n for n in c.calls(attr="add") if unparse(n.ast.func.value) == "tasks"]
    spawned = [s for s in sites if s.fi is fi or (s.fi.qualname == f"{SENDER}._maybe_do_transactional_request")]
    ctx.ob(R, fi, fi.node, len(adds) >= 2 and len(spawned) >= 5, "produce / transaction tasks are not all tracked in `tasks`", text="sender-tracks-tasks")


def c_of(ctx, fi):
    return ctx.cfg(fi)


def rule_cancel_await(ctx, sites):
    R = "cancel-await"
    ctx.rep.rule(R, "wherever a task is cancelled and then awaited, either the await is protected against CancelledError "
                    "(suppress / try-except) or every suspension point of the task's coroutine lies in a try whose CancelledError "
                    "handler ends the coroutine normally -- otherwise stop() itself ends with CancelledError and skips the remaining closers")
    by_attr = {}
    for s in sites:
        if s.where[0] in ("attr", "container"):
            by_attr.setdefault(s.where[1], []).extend(s.routines)
    found = []
    for fi in ctx.repo.funcs.values():
        if not fi.is_async:
            continue
        cancels = [n for n in walk_own(fi.node) if isinstance(n, ast.Call) and call_attr(n) == "cancel" and not n.args]
        if not cancels:
            continue
        c = ctx.cfg(fi)
        for cn in c.nodes:
            if cn.kind != "call" or call_attr(cn.ast) != "cancel" or cn.ast.args:
                continue
            subj = unparse(cn.ast.func.value)
            for an in c.nodes:
                if an.kind == "await" and isinstance(an.ast, ast.Await) and unparse(an.ast.value) == subj and c.path_exists(cn, an, exc=False):
                    found.append((fi, cn, an, subj))
    ctx.floor(found, 7, "cancel-then-await sites")
    for fi, cn, an, subj in found:
        prot = _catching_frame(an) is not None
        # which routines can the task be running?
        attr = None
        e = cn.ast.func.value
        if isinstance(e, ast.Name) and alias_origin(fi, e.id) is not None:
            e = alias_origin(fi, e.id)
        if isinstance(e, ast.Attribute):
            attr = e.attr
        elif isinstance(e, ast.Name):
            for a, role in cn.within:
                if isinstance(a, ast.For) and isinstance(a.target, ast.Name) and a.target.id == e.id and isinstance(a.iter, ast.Attribute):
                    attr = a.iter.attr
        routines = by_attr.get(attr, [])
        txt = f"{subj}:{'/'.join(sorted({r.name for r in routines})) or '?'}"
        # a stored task that ended with an exception re-raises it when awaited: the await needs a not-done() guard
        # (or a handler) whenever the task's coroutine can fail by design
        for r in routines:
            why = may_raise_by_design(ctx, r)
            if why:
                subs = aliases(fi, subj) | ({unparse(alias_origin(fi, subj))} if subj.isidentifier() and alias_origin(fi, subj) is not None else set())
                dg = [t for t in c_of(ctx, fi).nodes if t.kind == "test" and any(_null_label(t.ast, sb) == "T" for sb in subs) and isinstance(t.ast, ast.Call)
                      and call_attr(t.ast) == "done" and c_of(ctx, fi).dominated_by_branch(t, "F", an)]
                ctx.ob(R, fi, an, bool(dg) or not _propagates(an),
                       f"`await {subj}` is not guarded by `not {subj}.done()`: when {r.name} already died with an error ({why}) the closer re-raises "
                       f"that stale error and skips everything after it (LeaveGroup, fetcher.close, client.close)", text=f"done-guard:{subj}:{r.name}")
        if prot:
            ctx.ob(R, fi, an, True, "", text=txt)
            continue
        if not routines:
            ctx.ob(R, fi, an, False, f"`await {subj}` after cancel() is unprotected and the task's coroutine could not be resolved", text=txt)
            continue
        for r in routines:
            bad = unprotected_suspensions(ctx, r)
            det = "; ".join(f"{r.path}:{n.lineno} `{unparse(n.ast)[:60]}` ({why})" for n, why in bad[:4])
            ctx.ob(R, fi, an, not bad, f"`await {subj}` after cancel() is unprotected and {r.qualname} lets CancelledError escape at: {det}"
                   f" -- stop() raises CancelledError and skips the closers that follow", text=f"{subj}:{r.name}")


# loops on the awaited (not cancelled) part of the stop path that may iterate without a closing test, with the reason they are bounded
BOUNDED_LOOPS = {
    (f"aiokafka.consumer.group_coordinator.CoordinatorGroupRebalance.perform_group_join", "try_join"):
        "repeats only on a *received* MEMBER_ID_REQUIRED reply (KIP-394: once per member); a send failure returns",
    (f"{CONN}._do_sasl_handshake", "True"): "driven by the authenticator generator, which is finite; each step is one request bounded by request_timeout",
    (f"{CLIENT}._wait_on_metadata", "True"): "leaves after request_timeout_ms (explicit deadline test in the body)",
}


# the same exemption stated structurally (so that it survives a change of loop form): every cycle through a suspension point passes
# a test on the named reply code
BOUNDED_BY_TEST = {
    "aiokafka.consumer.group_coordinator.CoordinatorGroupRebalance.perform_group_join": ("MemberIdRequired", "try_join"),
}


def _awaited_closure(ctx, roots):
    """Functions executed synchronously (awaited / called) from roots; spawn arguments are not followed."""
    seen = {}
    work = [(r, None) for r in roots]
    while work:
        q, par = work.pop()
        if q in seen:
            continue
        seen[q] = par
        fi = ctx.repo.funcs[q]
        skip = set()
        for n in walk_own(fi.node):
            if isinstance(n, ast.Call) and call_attr(n) in SPAWNERS:
                for a in n.args:
                    for x in ast.walk(a):
                        skip.add(id(x))
        for n in walk_own(fi.node):
            if isinstance(n, ast.Call) and id(n) not in skip:
                for t in ctx.resolve_call(fi, n):
                    if t.qualname not in seen and not t.qualname.startswith("aiokafka.protocol.") and not t.qualname.startswith("aiokafka.abc."):
                        work.append((t.qualname, q))
    return seen


def rule_closing_loops(ctx):
    R = "closing-aware-retry"
    ctx.rep.rule(R, "in code that stop() waits for WITHOUT cancelling it (the coordination routine and everything it awaits, LeaveGroup, "
                    "the closers themselves, and the produce/transaction tasks the cancelled sender still awaits) every `while` cycle that "
                    "contains a suspension point also contains a test of the closing flag that leaves the loop, or is in the frozen table of "
                    "bounded loops with its reason")
    roots = [f"{GC}.close", f"{GC}._coordination_routine", f"{NGC}.close", f"{FETCHER}.close", f"{CLIENT}.close", f"{SENDER}.close",
             f"{SENDER}._send_produce_req", f"{SENDER}._do_add_partitions_to_txn", f"{SENDER}._do_add_offsets_to_txn",
             f"{SENDER}._do_txn_offset_commit", f"{SENDER}._do_txn_commit"]
    for r in roots:
        ctx.fn(r)
    clo = _awaited_closure(ctx, roots)
    ctx.rep.extra["awaited_closure_functions"] = len(clo)
    nloops = 0
    for q in sorted(clo):
        fi = ctx.fn(q)
        if not fi.is_async:
            continue
        c = ctx.cfg(fi)
        for head in c.nodes:
            if head.kind != "loop" or not isinstance(head.ast, ast.While):
                continue
            body = c.loop_body(head)
            sus = [n for n in body if n.kind in ("await", "yield") and ctx.suspends(fi, n)]
            if not sus:
                continue
            nloops += 1
            key = (q, unparse(head.ast.test))
            if key in BOUNDED_LOOPS:
                ctx.ob(R, fi, head, True, BOUNDED_LOOPS[key], text="bounded:" + key[1])
                continue
            if q in BOUNDED_BY_TEST:
                tok, tabkey = BOUNDED_BY_TEST[q]
                cut = {t for t in body if t.kind == "test" and tok in unparse(t.ast)}
                if cut and not any(head in c.reachable([s_], avoid=cut) and s_ in c.reachable([head], avoid=cut) for s_ in sus):
                    ctx.ob(R, fi, head, True, BOUNDED_LOOPS[(q, tabkey)], text="bounded:" + tabkey)
                    continue
            # closing tests inside the loop whose one branch leaves the loop
            ct = [t for t in body if t.kind == "test" and "_closing" in unparse(t.ast)]
            leaving = []
            for t in ct:
                for m, l in t.succ:
                    if l in ("T", "F") and (m not in body or head not in c.reachable([m], avoid=set(), exc=False) or _leaves(c, m, body)):
                        leaving.append(t)
            # every cycle through a suspension point must pass such a test: remove the tests, the suspension must no longer be on a cycle
            bad = None
            for s in sus:
                # a cycle through the while head (inner for-loops over finite collections do not count)
                if head in c.reachable([s], avoid=set(leaving)) and s in c.reachable([head], avoid=set(leaving)):
                    bad = s
                    break
            chain = []
            p = q
            while p is not None and len(chain) < 6:
                chain.append(p.rsplit(".", 1)[-1])
                p = clo[p]
            ctx.ob(R, fi, head, bad is None,
                   f"`while {unparse(head.ast.test)[:60]}` can iterate forever around `{unparse(bad.ast)[:60] if bad is not None else ''}` "
                   f"(line {bad.lineno if bad is not None else 0}) without consulting the closing flag; stop() waits for it via {' <- '.join(chain)}",
                   text="loop:" + unparse(head.ast.test)[:60])
    ctx.anchor(nloops >= 5, f"suspending while-loops on the awaited stop path: {nloops} < 5")


def _leaves(c, m, body):
    """Does the edge target m lead out of the loop without coming back to a body node first? (m itself outside body)"""
    return m not in body


def rule_closing_waits(ctx):
    R = "closing-aware-wait"
    ctx.rep.rule(R, "in the coordination routine and the functions it awaits, every asyncio.wait() lists the closing future or carries a "
                    "timeout; close() itself is woken by nothing else")
    clo = _awaited_closure(ctx, [f"{GC}._coordination_routine"])
    n_w = 0
    for q in sorted(clo):
        if not q.startswith("aiokafka.consumer.group_coordinator.GroupCoordinator"):
            continue
        fi = ctx.fn(q)
        for n in walk_own(fi.node):
            if isinstance(n, ast.Call) and call_name(n) == "asyncio.wait":
                n_w += 1
                lst = arg_of(n, 0)
                has_closing = lst is not None and "self._closing" in unparse(lst)
                if not has_closing and isinstance(lst, ast.Name):
                    # list built in a local: look at its literal definition
                    for m in walk_own(fi.node):
                        if isinstance(m, ast.Assign) and len(m.targets) == 1 and unparse(m.targets[0]) == lst.id and "self._closing" in unparse(m.value):
                            has_closing = True
                to = arg_of(n, kw="timeout")
                has_to = to is not None and not (isinstance(to, ast.Constant) and to.value is None)
                ctx.ob(R, fi, n, has_closing or (has_to and not _may_be_none(fi, to)), "asyncio.wait() on the stop path neither includes self._closing nor has a timeout: close() cannot wake it", text="wait:" + unparse(lst)[:50])
    ctx.anchor(n_w >= 3, f"asyncio.wait sites in the coordination routine closure: {n_w} < 3")


def _may_be_none(fi, e):
    if isinstance(e, ast.Name):
        for m in walk_own(fi.node):
            if isinstance(m, ast.Assign) and len(m.targets) == 1 and unparse(m.targets[0]) == e.id:
                if isinstance(m.value, ast.Constant) and m.value.value is None:
                    return True
                if isinstance(m.value, ast.Await):
                    return True  # e.g. wait_timeout = await self._maybe_do_autocommit() may be None
    return False


def rule_after_stop(ctx):
    R = "after-stop"
    ctx.rep.rule(R, "stop()/close() are idempotent: the closed flag is tested and set before the first suspension point; after stop() "
                    "getone/getmany/iteration raise ConsumerStoppedError before anything else and send paths raise ProducerClosed")
    for q, flag in ((f"{CONSUMER}.stop", "self._closed"), (f"{PRODUCER}.stop", "self._closed")):
        fi = ctx.fn(q)
        c = ctx.cfg(fi)
        tests = [t for t in c.nodes if t.kind == "test" and unparse(t.ast) == flag]
        sets = [s for s in c.stores(attr=flag.split(".")[-1]) if isinstance(s.stmt, ast.Assign) and isinstance(s.stmt.value, ast.Constant) and s.stmt.value.value is True]
        ctx.anchor(len(tests) >= 1 and len(sets) == 1, f"{q}: test and set of {flag}")
        sus = ctx.suspension_nodes(fi)
        ok = all(c.dominates(sets[0], s) for s in sus) and c.dominates(tests[0], sets[0]) and c.dominated_by_branch(tests[0], "F", sets[0])
        ctx.ob(R, fi, sets[0], ok, f"{q}: closed flag not tested-and-set before the first suspension (concurrent stop() runs shutdown twice)", text="idempotent")
        rets = [n for n in c.reachable([m for m, l in tests[0].succ if l == "T"], exc=False, include_src=True) if n.kind in ("call", "await")]
        ctx.ob(R, fi, tests[0], not rets, f"{q}: second stop() does work", text="second-stop-noop")
    # consumer API after stop
    for m in ("getone", "getmany", "__anext__"):
        fi = ctx.fn(f"{CONSUMER}.{m}")
        c = ctx.cfg(fi)
        tests = [t for t in c.nodes if t.kind == "test" and unparse(t.ast) == "self._closed"]
        ok = False
        if tests:
            t = tests[0]
            tb = c.reachable([x for x, l in t.succ if l == "T"], exc=False, include_src=True)
            raises = [n for n in tb if n.kind == "raise" and "ConsumerStoppedError" in unparse(n.ast)]
            pre = [n for n in c.nodes if n.kind in ("await", "yield") and not c.dominates(t, n)]
            calls_before = [n for n in c.nodes if n.kind == "call" and c.path_exists(n, t, exc=False) and not c.dominates(t, n)
                            and (ctx.resolve_call(fi, n.ast) or unparse(n.ast.func).startswith("self."))]
            ok = bool(raises) and not pre and not calls_before and c.exit not in c.reachable([x for x, l in t.succ if l == "T"], exc=False, include_src=True)
        if m == "__anext__" and not tests:
            # delegates to getone inside its loop: accepted when the first await is getone()
            aw = [n for n in c.nodes if n.kind == "await"]
            ok = bool(aw) and isinstance(aw[0].ast, ast.Await) and isinstance(aw[0].ast.value, ast.Call) and call_attr(aw[0].ast.value) == "getone"
        ctx.ob(R, fi, fi.node, ok, f"{m}() on a stopped consumer does not raise ConsumerStoppedError first", text=f"stopped:{m}")
    # __anext__ turns ConsumerStoppedError into StopAsyncIteration
    fi = ctx.fn(f"{CONSUMER}.__anext__")
    hs = [h for h in ast.walk(fi.node) if isinstance(h, ast.ExceptHandler) and h.type is not None and "ConsumerStoppedError" in unparse(h.type)]
    ctx.ob(R, fi, fi.node, bool(hs) and any(isinstance(x, ast.Raise) and "StopAsyncIteration" in unparse(x) for h in hs for x in ast.walk(h)), "iteration over a stopped consumer does not end", text="iteration-ends")
    # producer: accumulator refuses after close
    for m in ("add_message", "add_batch"):
        fi = ctx.fn(f"{ACC}.{m}")
        c = ctx.cfg(fi)
        tests = [t for t in c.nodes if t.kind == "test" and unparse(t.ast) == "self._closed"]
        ok = bool(tests)
        for t in tests:
            tb = c.reachable([x for x, l in t.succ if l == "T"], exc=False, include_src=True)
            ok = ok and any(n.kind == "raise" and "ProducerClosed" in unparse(n.ast) for n in tb)
        app = c.calls(attr="_append_batch") + [n for n in c.calls(attr="append") if "batch" in unparse(n.ast.func.value)]
        if tests and app:
            # from the entry and from every suspension point, no path reaches the enqueue without passing a closed test
            starts = [c.entry] + ctx.suspension_nodes(fi)
            for a in app:
                for s0 in starts:
                    if a in c.reachable([s0], avoid=set(tests), exc=False):
                        ok = False
        ctx.ob(R, fi, fi.node, ok, f"{m} can enqueue after close() (closed test missing or separated from the enqueue by a suspension)", text=f"closed:{m}")
    fi = ctx.fn(f"{ACC}.close")
    c = ctx.cfg(fi)
    st = [s for s in c.stores(attr="_closed")]
    fl = c.calls(attr="flush")
    ctx.ob(R, fi, fi.node, len(st) == 1 and len(fl) >= 1 and all(c.dominates(st[0], f) for f in fl), "accumulator.close() flushes before refusing new records (flush never ends under load)", text="closed-before-flush")
    # conn.close releases everything synchronously
    fi = ctx.fn(f"{CONN}.close")
    c = ctx.cfg(fi)
    need = {
        "writer-close": [n for n in c.calls(attr="close") if unparse(n.ast.func.value) == "self._writer"],
        "reader-cancel": [n for n in c.calls(attr="cancel") if unparse(n.ast.func.value) == "self._read_task"],
        "idle-cancel": [n for n in c.calls(attr="cancel") if unparse(n.ast.func.value) == "self._idle_handle"],
    }
    for k, ns in need.items():
        subj = {"writer-close": "self._reader", "reader-cancel": "self._read_task", "idle-cancel": "self._idle_handle"}[k]
        if not ns:
            ctx.ob(R, fi, fi.node, False, f"conn.close() no longer does {k}", text="conn:" + k)
            continue
        w = paths_avoiding(c, ns, _skip_edges(c, fi, (subj, "self._reader")))
        ctx.ob(R, fi, ns[0], w is None, f"conn.close() can return without {k} (path: {_describe(w) if w else ''})", text="conn:" + k)


def rule_blocked_callers(ctx):
    R = "blocked-callers-woken"
    ctx.rep.rule(R, "a getone()/getmany() blocked inside the fetcher when stop() runs is woken and told: Fetcher.close sets the closed flag "
                    "before its first suspension and notifies every registered fetch waiter on every normal path; every waiter the hand-out "
                    "loops create is registered; after waking, next_record re-tests the flag (raising ConsumerStoppedError) on every cycle and "
                    "fetched_records tests it right after its wait")
    fi = ctx.fn(f"{FETCHER}.close")
    c = ctx.cfg(fi)
    st = [n for n in c.stores(attr="_closed") if isinstance(n.stmt, ast.Assign) and isinstance(n.stmt.value, ast.Constant) and n.stmt.value.value is True]
    ctx.anchor(len(st) == 1, "self._closed = True in Fetcher.close")
    ctx.ob(R, fi, st[0], all(c.dominates(st[0], s) for s in ctx.suspension_nodes(fi)), "Fetcher.close can be suspended before the closed flag is set", text="flag-first")
    loops = [h for h in c.nodes if h.kind == "loop" and isinstance(h.ast, ast.For) and unparse(h.ast.iter) in ("self._fetch_waiters", "list(self._fetch_waiters)", "tuple(self._fetch_waiters)")]
    okn = False
    if loops:
        body = c.loop_body(loops[0])
        tv = unparse(loops[0].ast.target)
        okn = any(n.kind == "call" and ((call_attr(n.ast) == "_notify" and unparse(arg_of(n.ast, 0)) == tv) or (call_attr(n.ast) == "set_result" and unparse(n.ast.func.value) == tv)) for n in body)
        okn = okn and paths_avoiding(c, loops[:1], _skip_edges(c, fi)) is None
    ctx.ob(R, fi, fi.node, okn, "Fetcher.close does not notify every registered fetch waiter on every path: a blocked getone()/getmany() sleeps forever after stop()", text="notify-all")
    fw = ctx.fn(f"{FETCHER}._create_fetch_waiter")
    cw = ctx.cfg(fw)
    ad = [n for n in cw.calls(attr="add") if unparse(n.ast.func.value) == "self._fetch_waiters"]
    rets = [n for n in cw.nodes if n.kind == "return"]
    ok = len(ad) == 1 and len(rets) == 1 and unparse(arg_of(ad[0].ast, 0)) == unparse(rets[0].ast.value) and cw.dominates(ad[0], rets[0])
    ctx.ob(R, fw, fw.node, ok, "_create_fetch_waiter does not register the future it returns", text="waiter-registered")
    for m in ("next_record", "fetched_records"):
        f = ctx.fn(f"{FETCHER}.{m}")
        cf = ctx.cfg(f)
        waits = [n for n in cf.nodes if n.kind == "await" and isinstance(n.ast, ast.Await) and "waiter" in unparse(n.ast.value)]
        ctx.anchor(len(waits) >= 1, f"wait on a fetch waiter in {m}")
        mk = cf.calls(attr="_create_fetch_waiter")
        ctx.ob(R, f, waits[0], len(mk) == 1 and cf.dominates(mk[0], waits[0]), f"{m} waits on a future that is not a registered fetch waiter", text=f"{m}:registered-waiter")
        tests = [t for t in cf.nodes if t.kind == "test" and unparse(t.ast) == "self._closed"]
        ok = bool(tests)
        for w in waits:
            # from the wake-up, no hand-out / further wait is reached without passing a closed test
            nxt = cf.reachable([w], avoid=set(tests), exc=False)
            again = [n for n in nxt if n.kind == "await" and n is not w and ctx.suspends(f, n)] + [n for n in nxt if n.kind == "call" and call_attr(n.ast) in ("getone", "getall")] + ([w] if w in nxt else [])
            ok = ok and not again
        ctx.ob(R, f, waits[0], ok, f"{m}: after being woken it can hand out records or sleep again without looking at the closed flag", text=f"{m}:retest-closed")
    f = ctx.fn(f"{FETCHER}.next_record")
    cf = ctx.cfg(f)
    t = [t for t in cf.nodes if t.kind == "test" and unparse(t.ast) == "self._closed"]
    ok = bool(t) and any(n.kind == "raise" and "ConsumerStoppedError" in unparse(n.ast) for n in cf.reachable([m for m, l in t[0].succ if l == "T"], exc=False, include_src=True))
    ctx.ob(R, f, f.node, ok, "next_record does not raise ConsumerStoppedError when the fetcher is closed", text="next_record:raises-stopped")


def rule_leave(ctx):
    R = "leave"
    ctx.rep.rule(R, "_maybe_leave_group sends LeaveGroupRequest(group, member) exactly when the member has a generation and is not static, "
                    "swallows only KafkaError of that best-effort request, and resets the generation on every path")
    fi = ctx.fn(f"{GC}._maybe_leave_group")
    c = ctx.cfg(fi)
    lg = [n for n in c.nodes if n.kind == "call" and call_attr(n.ast) == "LeaveGroupRequest"]
    ctx.anchor(len(lg) == 1, "LeaveGroupRequest construction")
    ok = [unparse(a) for a in lg[0].ast.args] == ["self.group_id", "self.member_id"]
    ctx.ob(R, fi, lg[0], ok, "LeaveGroup does not carry this member's group and member id", text="identity")
    tests = [t for t in c.nodes if t.kind == "test" and not isinstance(t.ast, ast.Constant) and c.dominates(t, lg[0])]
    texts = sorted(unparse(t.ast) for t in tests)
    ok = texts == ["self._group_instance_id is None", "self.generation > 0"] and all(c.dominated_by_branch(t, "T", lg[0]) for t in tests)
    ctx.ob(R, fi, lg[0], ok, f"LeaveGroup condition is {texts}, expected generation > 0 and no group_instance_id", text="condition")
    snd = [n for n in c.nodes if n.kind == "await" and isinstance(n.ast, ast.Await) and isinstance(n.ast.value, ast.Call) and call_attr(n.ast.value) == "_send_req"]
    ok = len(snd) == 1 and c.dominates(lg[0], snd[0]) and unparse(arg_of(snd[0].ast.value, 0)) in {unparse(s.ast) for s in c.stores() if s.stmt is lg[0].stmt}
    ctx.ob(R, fi, fi.node, ok, "the LeaveGroup request built is not the one sent", text="sent")
    ok_reset, why = leave_effects(ctx, fi)
    ctx.ob(R, fi, fi.node, ok_reset, why, text="reset")


def leave_effects(ctx, fi):
    """On every normal path of _maybe_leave_group the member forgets its identity (generation, member id) and a rejoin is
    requested -- through reset_generation() or inline."""
    c = ctx.cfg(fi)
    rg = c.calls(attr="reset_generation")
    if rg and paths_avoiding(c, rg, set()) is None:
        return True, ""
    gen = [n for n in c.nodes if n.kind == "store" and unparse(n.ast) == "self.generation" and "DEFAULT_GENERATION_ID" in unparse(n.stmt.value)]
    mid = [n for n in c.nodes if n.kind == "store" and unparse(n.ast) == "self.member_id" and "UNKNOWN_MEMBER_ID" in unparse(n.stmt.value)]
    rj = c.calls(attr="request_rejoin")
    miss = []
    if not (gen and paths_avoiding(c, gen, set()) is None):
        miss.append("the generation is not reset")
    if not (mid and paths_avoiding(c, mid, set()) is None):
        miss.append("the member id is not reset")
    if not (rj and paths_avoiding(c, rj, set()) is None):
        miss.append("no rejoin is requested (a member that left because it was idle never comes back: need_rejoin() stays false)")
    return (not miss), "after LeaveGroup " + "; ".join(miss)



def rule_cancel_reaches(ctx, sites):
    R = "cancel-reaches-routine"
    ctx.rep.rule(R, "the closers stop the background routines by cancelling them and then awaiting them, so a routine must END when it is "
                    "cancelled: in every coroutine the package spawns as a task, a suspension point whose CancelledError is caught (an "
                    "`except CancelledError`/bare except arm, or contextlib.suppress(CancelledError)) may only be followed by the way out -- "
                    "after the catch no `while` loop head is reachable; a routine that swallows its own cancellation and loops again is "
                    "awaited for ever by close() (a task is told to cancel only once)")
    routines = {}
    for s in sites:
        for r in s.routines:
            routines[r.qualname] = r
    n = 0
    for q, fi in sorted(routines.items()):
        if not fi.is_async:
            continue
        c = ctx.cfg(fi)
        for node in c.nodes:
            if node.kind not in ("await", "yield") or not ctx.suspends(fi, node):
                continue
            fr = _catching_frame(node)
            if fr is None:
                continue
            n += 1
            if fr[0] == "suppress":
                start = [x for x in c.nodes if x.kind == "with_exit" and x.ast is fr[1]]
                if not start:
                    start = [m for m, l in node.succ if l != "exc"]
            else:
                start = [x for x in c.nodes if x.kind == "handler" and x.ast is fr[1]]
            after = c.reachable(start, exc=False, include_src=True)
            heads = [h for h in after if h.kind == "loop" and isinstance(h.ast, ast.While)]
            ctx.ob(R, fi, node, not heads,
                   f"a cancellation that arrives at `{unparse(node.ast)[:60]}` is caught ({fr[0]} at line {fr[1].lineno}) and the routine can go round "
                   f"`while {unparse(heads[0].ast.test)[:40] if heads else ''}` again (line {heads[0].lineno if heads else 0}): the closer that cancelled it waits for ever",
                   text="swallow:" + unparse(node.ast)[:60])
    ctx.anchor(n >= 10, f"suspension points under a CancelledError-catching frame in spawned routines: {n} < 10")



def rule_published(ctx, sites):
    R = "owner-published"
    ctx.rep.rule(R, "an object whose constructor starts background tasks (coordinator, fetcher, sender, client) is reachable from stop() as soon "
                    "as it exists: wherever the package constructs one into a local variable, the attribute through which the stop chain finds "
                    "it is assigned before the next suspension point on every path -- a stop() (or a cancelled/timed-out start()) that runs "
                    "while the creator is suspended would otherwise skip its close() and leave its tasks running")
    # classes whose __init__ spawns (directly or through a method it calls on self)
    spawning = set()
    for s in sites:
        fi = s.fi
        if fi.owner_cls is None:
            continue
        if fi.name == "__init__":
            spawning.add(fi.owner_cls.qualname)
        else:
            init = fi.owner_cls.methods.get("__init__")
            if init is not None and any(isinstance(n, ast.Call) and call_attr(n) == fi.name and unparse(n.func).startswith("self.") for n in walk_own(init.node)):
                spawning.add(fi.owner_cls.qualname)
    # subclasses inherit the constructor
    for q, ci in ctx.repo.classes.items():
        for b in ci.node.bases:
            for sq in list(spawning):
                if unparse(b) == sq.rsplit(".", 1)[-1] and "__init__" not in ci.methods:
                    spawning.add(q)
    short = {q.rsplit(".", 1)[-1]: q for q in spawning}
    ctx.anchor(len(spawning) >= 3, f"classes whose constructor starts tasks: {sorted(short)}")
    n = 0
    for q, fi in sorted(ctx.repo.funcs.items()):
        if not q.startswith("aiokafka.") or not fi.is_async:
            continue
        for st in walk_own(fi.node):
            if not (isinstance(st, ast.Assign) and isinstance(st.value, ast.Call) and isinstance(st.value.func, ast.Name) and st.value.func.id in short):
                continue
            n += 1
            t = st.targets[0]
            if isinstance(t, ast.Attribute):
                ctx.ob(R, fi, st, True, "", text=f"{st.value.func.id}:attribute")
                continue
            if not isinstance(t, ast.Name):
                continue
            c = ctx.cfg(fi)
            node = [x for x in c.nodes if x.kind == "stmt" and x.ast is st]
            if not node:
                raise AnalysisError(f"owner-published: no CFG node for the construction at line {st.lineno} of {q}")
            pubs = [x for x in c.nodes if x.kind == "store" and isinstance(x.ast, ast.Attribute) and isinstance(getattr(x.stmt, "value", None), ast.Name)
                    and x.stmt.value.id == t.id]
            rets = [x for x in c.nodes if x.kind == "return" and isinstance(x.ast.value, ast.Name) and x.ast.value.id == t.id]
            after = c.reachable(node, avoid=set(pubs) | set(rets), exc=False)
            sus = [x for x in after if x.kind in ("await", "yield") and ctx.suspends(fi, x)]
            ctx.ob(R, fi, st, not sus, f"`{t.id} = {st.value.func.id}(...)` starts background tasks but is only a local while `{unparse(sus[0].ast)[:60] if sus else ''}` "
                                       f"(line {sus[0].lineno if sus else 0}) suspends: a stop() during that await does not find it and its tasks keep running", text=f"{st.value.func.id}:published-before-await")
    ctx.anchor(n >= 3, f"constructions of task-owning objects in coroutines: {n} < 3")


def rule_time_units(ctx, R="time-units"):
    from ..units import Units
    ctx.rep.rule(R, "every bound on how long the clients wait is a number of SECONDS when it reaches the event loop or the monotonic clock, and the "
                    "configuration it comes from is in MILLISECONDS (`*_ms`): unit inference over the whole package (names ending in _ms are "
                    "milliseconds, `/ 1000` converts, clock reads are seconds; units flow through locals, attributes and the arguments of calls that "
                    "resolve inside the package) finds no milliseconds value at asyncio.sleep / wait_for / wait(timeout=) / call_later / timeout(), "
                    "none added to, subtracted from or compared with a seconds value, no attribute or parameter fed with both units, and no `*_ms` "
                    "name fed with seconds -- a batch TTL, back-off or request timeout a thousand times too long makes stop() wait for hours")
    u = Units(ctx.repo)
    ctx.anchor(u.n_sinks >= 35 and u.n_flows >= 50, f"unit inference saw {u.n_sinks} seconds sinks and {u.n_flows} unit flows (floors 35 / 50)")
    bad_fns = {}
    for fi, node, msg, key in u.findings:
        bad_fns.setdefault(fi.qualname, []).append((node, msg, key))
    seen = set()
    for fi, node, msg, key in u.findings:
        if (fi.qualname, key) in seen:
            continue
        seen.add((fi.qualname, key))
        ctx.ob(R, fi, node, False, msg, text="unit:" + key)
    ctx.rep.extra["time_units"] = {"sinks": u.n_sinks, "flows": u.n_flows, "findings": len(u.findings)}
    # one obligation per function that contains a seconds sink (evidence of what was examined)
    for q in sorted(u.sink_functions):
        fi = ctx.repo.funcs[q]
        ctx.rep.functions.add(q)
        if q not in bad_fns:
            ctx.ob(R, fi, fi.node, True, "", text="sinks-fed-with-seconds")


def rule_md_wakeup(ctx):
    R = "md-wakeup"
    ctx.rep.rule(R, "the metadata synchronizer never goes to sleep owing an update that nobody can ask for again: force_metadata_update() resolves "
                    "the wake-up future only when it creates `_md_update_fut`, so whenever _md_synchronizer reaches its timed wait with "
                    "`_md_update_fut` pending, `_md_update_waiter` must already be resolved.  Every path of one iteration is followed from both "
                    "wake-up states (timer: no update owed, waiter pending; forced: update owed, waiter resolved), forking at every suspension "
                    "where a caller may force an update.  Waiters of that future include the group leader's _perform_assignment, which "
                    "GroupCoordinator.close() -- consumer.stop() -- waits for")
    fi = ctx.fn(f"{CLIENT}._md_synchronizer")
    c = ctx.cfg(fi)
    sleeps = [n for n in c.nodes if n.kind == "await" and isinstance(n.ast, ast.Await) and isinstance(n.ast.value, ast.Call) and call_attr(n.ast.value) == "wait"
              and "_md_update_waiter" in unparse(n.ast.value)]
    ctx.anchor(len(sleeps) == 1, "timed wait on _md_update_waiter in _md_synchronizer")
    W = sleeps[0]
    # the model of the other side: force_metadata_update creates the future and resolves the waiter together, under `_md_update_fut is None`
    ff = ctx.fn(f"{CLIENT}.force_metadata_update")
    cf = ctx.cfg(ff)
    nts = [t for t in cf.nodes if t.kind == "test" and is_none_test(t.ast) is not None and unparse(is_none_test(t.ast)) == "self._md_update_fut"]
    wk = [n for n in cf.nodes if n.kind == "call" and unparse(n.ast.func) == "self._md_update_waiter.set_result"]
    mk = [n for n in cf.stores(attr="_md_update_fut")]
    ok = len(nts) == 1 and len(wk) == 1 and len(mk) == 1 and cf.dominated_by_branch(nts[0], "T", wk[0]) and cf.dominated_by_branch(nts[0], "T", mk[0])
    if ok:
        # the only test between the None test and the wake-up is `not waiter.done()`
        between = [t for t in cf.nodes if t.kind == "test" and t is not nts[0] and cf.dominates(t, wk[0])]
        ok = all(unparse(t.ast) in ("self._md_update_waiter.done()", "not self._md_update_waiter.done()") for t in between)
    ctx.ob(R, ff, ff.node, ok, "force_metadata_update does not wake the synchronizer exactly when it creates the update future", text="force-wakes-when-it-creates")
    seen_bad = {}
    n_paths = [0]

    def step(node, fut, waiter, rearmed, visited):
        """fut: 'none' | 'pending'; waiter: 'done' | 'undone'."""
        stack = [(node, fut, waiter, rearmed, visited)]
        while stack:
            node, fut, waiter, rearmed, visited = stack.pop()
            if n_paths[0] > 20000:
                raise AnalysisError("md-wakeup: too many paths in _md_synchronizer")
            if node is W:
                n_paths[0] += 1
                if fut == "pending" and waiter == "undone":
                    seen_bad.setdefault(rearmed, node)
                continue
            if node in visited or node in (c.exit, c.raise_exit):
                continue
            visited = visited | {node}
            states = [(fut, waiter)]
            if node.kind == "store" and isinstance(node.ast, ast.Attribute) and unparse(node.ast) == "self._md_update_fut":
                v = getattr(node.stmt, "value", None)
                states = [("none" if isinstance(v, ast.Constant) and v.value is None else "pending", waiter)]
            elif node.kind == "store" and isinstance(node.ast, ast.Attribute) and unparse(node.ast) == "self._md_update_waiter":
                states = [(fut, "undone")]
                rearmed = True
            elif node.kind == "await" and fut == "none":
                # a caller may force an update while the routine is suspended
                states = [(fut, waiter), ("pending", "done")]
            for m, l in node.succ:
                if l == "exc":
                    continue
                for f2, w2 in states:
                    if node.kind == "test" and is_none_test(node.ast) is not None and unparse(is_none_test(node.ast)) == "self._md_update_fut":
                        if (l == "T") != (f2 == "none"):
                            continue
                    if node.kind == "test" and is_none_test(node.ast, negate=True) is not None and unparse(is_none_test(node.ast, negate=True)) == "self._md_update_fut":
                        if (l == "T") != (f2 == "pending"):
                            continue
                    stack.append((m, f2, w2, rearmed, visited))

    found = {}
    for start, (f0, w0) in (("timer", ("none", "undone")), ("forced", ("pending", "done"))):
        seen_bad.clear()
        before = n_paths[0]
        for m, l in W.succ:
            if l != "exc":
                step(m, f0, w0, False, frozenset())
        for rearmed in seen_bad:
            found[(start, rearmed)] = True
        ctx.anchor(n_paths[0] > before, f"an iteration of _md_synchronizer that returns to its wait after a {start} wake-up")
    for start in ("timer", "forced"):
        for rearmed in (False, True):
            bad = (start, rearmed) in found
            what = ("woken by the periodic timer" if start == "timer" else "woken by force_metadata_update()")
            how = ("after re-arming the wake-up future" if rearmed else "without having been asked through the wake-up future")
            ctx.ob(R, fi, W, not bad, f"_md_synchronizer, {what}, can return to its timed wait {how} while `_md_update_fut` is pending: force_metadata_update() "
                                      f"will not wake it (the future exists), every waiter of the update is parked for metadata_max_age_ms -- and stop() with them",
                   text=f"sleeps-owing-update:{start}:{'rearmed' if rearmed else 'not-rearmed'}")


def run(ctx):
    rep = ctx.rep
    rep.explanation = ("C19: structural clauses of 'stop() terminates and leaves nothing running' decided on the CFGs of the shutdown "
                       "paths: must-call chain from stop() to every closer, release of every task/timer handle, cancel-then-await protection, "
                       "closing-aware loops and waits in the code stop() waits for, idempotence and after-stop errors, LeaveGroup condition.")
    sites = spawn_sites(ctx)
    rep.extra["spawn_sites"] = [f"{s.fi.qualname}:{s.kind}:{s.where[0]}:{s.where[1]}" for s in sites]
    rule_stop_chain(ctx)
    rule_release(ctx, sites)
    rule_cancel_await(ctx, sites)
    rule_cancel_reaches(ctx, sites)
    rule_published(ctx, sites)
    rule_closing_loops(ctx)
    rule_closing_waits(ctx)
    rule_after_stop(ctx)
    rule_blocked_callers(ctx)
    rule_leave(ctx)
    rule_time_units(ctx)
    rule_md_wakeup(ctx)
    from .common import rule_get_conn_contains
    rule_get_conn_contains(ctx, "closing-aware-retry")
    from .common import rule_instance_state
    rule_instance_state(ctx, ("aiokafka.producer.", "aiokafka.consumer.", "aiokafka.conn.", "aiokafka.client.",))
    rep.nd("the numeric bound on stop() latency (timeouts are runtime values)")
    rep.nd("that flush() inside producer.stop() completes: it waits for delivery by design, bounded only by the sender's progress")
    rep.nd("a task cancelled before its first step ends with CancelledError whatever its body handles")
    rep.nd("tasks created by user callbacks (rebalance listener) and by maybe_leave_group()'s caller")
