"""C08 -- isolation filter: no aborted, no unstable, no control records delivered."""
from __future__ import annotations

import ast

from ..loader import AnalysisError, call_attr, call_name, dotted, unparse
from ..rulekit import arg_of, const_value, def_value, is_none_test, local_defs
from . import c03

PR = c03.PR
FETCHER = c03.FETCHER


def _unpack(ctx):
    fi = ctx.fn(f"{PR}._unpack_records")
    return fi, ctx.cfg(fi)


def rule_control_skip(ctx):
    R = "control-skip"
    ctx.rep.rule(R, "_unpack_records: the record loop is unreachable for a control batch at every isolation level (an `is_control_batch` test "
                    "that does not depend on the isolation level dominates it, its true branch leads to the next batch)")
    fi, c = _unpack(ctx)
    y = ctx.one([n for n in c.nodes if n.kind == "yield"], "yield in _unpack_records")
    rl = c.enclosing(y, types=(ast.For,), role="body")[0][0]
    it = [n for n in c.nodes if n.kind == "foriter" and n.ast is rl][0]
    wl = ctx.one([n for n in c.nodes if n.kind == "loop" and isinstance(n.ast, ast.While)], "batch loop")
    cts = [t for t in c.nodes if t.kind == "test" and unparse(t.ast) == "next_batch.is_control_batch"]
    ctx.floor(cts, 1, "is_control_batch tests")
    lvl = [t for t in c.nodes if t.kind == "test" and "_isolation_level" in unparse(t.ast)]
    good = []
    for t in cts:
        # the test must be reached on every path (not nested under the isolation-level test) and its true branch must not reach the records
        under_level = any(c.dominated_by_branch(l, "T", t) or c.dominated_by_branch(l, "F", t) for l in lvl)
        if under_level:
            continue
        if c.dominates(t, it) and it not in c.reachable([m for m, l in t.succ if l == "T"], avoid=[wl], include_src=True):
            good.append(t)
    ctx.ob(R, fi, it, bool(good), "records of a control batch (transaction markers) can reach the application at some isolation level", text="skip-at-every-level")
    # the test is on the batch being iterated
    ctx.ob(R, fi, it, unparse(rl.iter) == "next_batch", "record loop iterates something other than the tested batch", text="same-batch")
    # is_control_batch in the python codec reads the control bit
    q = "aiokafka.record.default_records._DefaultRecordBatchPy.is_control_batch"
    if ctx.repo.has_func(q):
        f = ctx.fn(q)
        r = [n for n in ctx.cfg(f).nodes if n.kind == "return"]
        ctx.ob(R, f, f.node, len(r) == 1 and "CONTROL_MASK" in unparse(r[0].ast.value) and "attributes" in unparse(r[0].ast.value), "is_control_batch does not test the control bit", text="control-bit")


def rule_aborted_filter(ctx):
    R = "aborted-filter"
    ctx.rep.rule(R, "under READ_COMMITTED and a producer id: _consume_aborted_up_to(base_offset) precedes the abort-marker discard, which "
                    "precedes the `transactional and producer in aborted` skip; the skip leads to the next batch without yielding; none of "
                    "it is conditioned on the batch being a data batch; READ_UNCOMMITTED never enters the filter")
    fi, c = _unpack(ctx)
    wl = ctx.one([n for n in c.nodes if n.kind == "loop" and isinstance(n.ast, ast.While)], "batch loop")
    y = ctx.one([n for n in c.nodes if n.kind == "yield"], "yield")
    lvl = [t for t in c.nodes if t.kind == "test" and isinstance(t.ast, ast.Compare) and unparse(t.ast.left) == "self._isolation_level" and unparse(t.ast.comparators[0]) == "READ_COMMITTED"
           and isinstance(t.ast.ops[0], ast.Eq)]
    lvls = ctx.floor(lvl, 1, "`self._isolation_level == READ_COMMITTED` test")

    def under_level(x):
        return any(c.dominated_by_branch(l, "T", x) for l in lvls)
    pid = [t for t in c.nodes if t.kind == "test" and is_none_test(t.ast, negate=True) is not None and unparse(is_none_test(t.ast, negate=True)) == "next_batch.producer_id"]
    # producer id 0 is the first id a broker hands out: the only admissible test of the batch's producer id is `is (not) None` (legacy batches)
    tr = [t for t in c.nodes if t.kind == "test" and isinstance(t.ast, (ast.Name, ast.Attribute)) and (unparse(t.ast).endswith("producer_id"))]
    if not tr:
        # ... also through a local that holds it
        tr = [t for t in c.nodes if t.kind == "test" and isinstance(t.ast, ast.Name) and any(isinstance(def_value(d), ast.Attribute) and def_value(d).attr == "producer_id" for d in local_defs(c, t.ast.id))]
    ctx.ob(R, fi, (tr[0] if tr else fi.node), not tr, f"the aborted-transaction filter is entered on the TRUTHINESS of the producer id (`{unparse(tr[0].ast) if tr else ''}`): batches of producer id 0 "
                                                      "skip the filter and its aborted records are delivered under read_committed", text="producer-id-none-test")
    cons = c.calls(attr="_consume_aborted_up_to")
    disc = [n for n in c.calls(attr="discard") + c.calls(attr="remove") if unparse(n.ast.func.value) == "self._aborted_producers"]
    skip = [t for t in c.nodes if t.kind == "test" and isinstance(t.ast, ast.Compare) and isinstance(t.ast.ops[0], ast.In) and unparse(t.ast.comparators[0]) == "self._aborted_producers"]
    ctx.ob(R, fi, fi.node, len(cons) == 1 and len(disc) == 1 and len(skip) == 1, f"filter pieces: consume={len(cons)} discard={len(disc)} skip-test={len(skip)}", text="pieces")
    if not (len(cons) == 1 and len(disc) == 1 and len(skip) == 1):
        return
    cons, disc, skip = cons[0], disc[0], skip[0]
    # consume: on every path of the READ_COMMITTED / producer-id branch, before anything else of the filter
    ok = under_level(cons) and (not pid or any(c.dominated_by_branch(p, "T", cons) for p in pid))
    ctx.ob(R, fi, cons, ok, "_consume_aborted_up_to is not under READ_COMMITTED / producer id", text="consume-under-level")
    ok = c.dominates(cons, disc) and c.dominates(cons, skip) and not any(isinstance(a, ast.If) and ("is_control_batch" in unparse(a.test) or "is_transactional" in unparse(a.test)) for a, r in cons.within)
    ctx.ob(R, fi, cons, ok, "the aborted-transaction index is not consumed for every batch (markers included) before the marker / skip logic", text="consume-first")
    ctx.ob(R, fi, cons, unparse(arg_of(cons.ast, 0)) == "next_batch.base_offset", "index consumed up to something other than the batch's base offset", text="consume-arg")
    ok = c.path_exists(disc, skip) and not c.path_exists(skip, disc, avoid=[wl])
    ctx.ob(R, fi, disc, ok, "abort marker is processed after the skip test (marker batch itself would be treated as aborted data / never clears)", text="marker-before-skip")
    ctx.ob(R, fi, disc, unparse(arg_of(disc.ast, 0)) == "next_batch.producer_id", "abort marker clears another producer", text="marker-producer")
    mk = [t for t in c.nodes if t.kind == "test" and isinstance(t.ast, ast.Call) and call_attr(t.ast) == "_contains_abort_marker"]
    cb = [t for t in c.nodes if t.kind == "test" and unparse(t.ast) == "next_batch.is_control_batch" and c.dominated_by_branch(t, "T", disc)]
    ctx.ob(R, fi, disc, bool(mk) and any(c.dominated_by_branch(t, "T", disc) for t in mk) and bool(cb), "producer cleared for something that is not an abort marker of a control batch", text="marker-guard")
    # skip
    ctx.ob(R, fi, skip, unparse(skip.ast.left) == "next_batch.producer_id", "skip test looks up something other than the batch's producer", text="skip-key")
    tx = [t for t in c.nodes if t.kind == "test" and unparse(t.ast) == "next_batch.is_transactional"]
    ok = y not in c.reachable([m for m, l in skip.succ if l == "T"], avoid=[wl], include_src=True)
    ctx.ob(R, fi, skip, ok, "records of an aborted producer's transactional batch can still be yielded", text="skip-skips")
    ok = bool(tx) and all(y in c.reachable([m for m, l in t.succ if l == "F"], avoid=[wl], include_src=True) for t in tx)
    ctx.ob(R, fi, skip, ok, "non-transactional batches of an aborted producer id would be dropped", text="non-txn-kept")
    # the skip arm is entered only with BOTH facts established (a transactional batch AND its producer currently aborted): every other
    # batch of the partition is visible under read_committed
    from ..rulekit import must_facts
    mf = must_facts(c)
    arm = [m for m, l in skip.succ if l == "T"]
    need = {("next_batch.is_transactional", "truthy", ""), ("next_batch.producer_id", "in", "self._aborted_producers")}
    ok = bool(arm) and all(need <= mf[m] for m in arm)
    ctx.ob(R, fi, skip, ok, f"the skip arm can be entered without `transactional batch AND producer aborted` both holding (facts there: {sorted(mf[arm[0]]) if arm else []}): "
                            "committed or non-transactional records are filtered out", text="skip-needs-both")
    ctx.ob(R, fi, skip, under_level(skip), "aborted filter applies outside READ_COMMITTED", text="skip-under-level")
    # READ_UNCOMMITTED: straight to the control test
    for lvl in lvls:
        fb = c.reachable([m for m, l in lvl.succ if l == "F"], avoid=[wl] + [x for x in lvls if x is not lvl], include_src=True)
        ctx.ob(R, fi, lvl, cons not in fb and skip not in fb and disc not in fb, "READ_UNCOMMITTED path goes through the aborted filter", text="uncommitted-bypass")
    ctx.ob(R, fi, y, y in c.reachable([wl], avoid=[cons, skip, disc]), "no path yields without the aborted filter (READ_UNCOMMITTED would deliver nothing)", text="uncommitted-yields")
    # _contains_abort_marker
    fm = ctx.fn(f"{PR}._contains_abort_marker")
    cm = ctx.cfg(fm)
    r = [n for n in cm.nodes if n.kind == "return"]
    ok = len(r) == 1 and isinstance(r[0].ast.value, ast.Compare) and isinstance(r[0].ast.value.ops[0], ast.Eq) and unparse(r[0].ast.value.comparators[0]) == "ABORT_MARKER" and "ControlRecord.parse" in unparse(r[0].ast.value.left) and ".key" in unparse(r[0].ast.value.left)
    ctx.ob(R, fm, fm.node, ok, "_contains_abort_marker does not compare the parsed control key with ABORT_MARKER", text="abort-marker-test")
    mod = ctx.repo.module("aiokafka.record.control_record")
    vals = {}
    for s in mod.tree.body:
        if isinstance(s, ast.Assign) and isinstance(s.targets[0], ast.Name) and isinstance(s.value, ast.Call) and unparse(s.value.func) == "ControlRecord":
            vals[s.targets[0].id] = [const_value(a) for a in s.value.args]
    ctx.rep.ob(R, f"{mod.relpath}:1 control markers", "control_record|markers", vals.get("ABORT_MARKER") == [0, 0] and vals.get("COMMIT_MARKER") == [0, 1], f"marker constants {vals} (Kafka: abort type 0, commit type 1)")


def rule_ordering(ctx):
    R = "aborted-ordering"
    ctx.rep.rule(R, "the aborted-transaction index is sorted by first offset (field 1 of each entry) and consumed from the front while "
                    "first_offset <= batch offset (admits < and =, rejects >), stopping at the first larger one")
    f0 = ctx.fn(f"{PR}.__init__")
    c0 = ctx.cfg(f0)
    st = c0.stores(attr="_aborted_transactions")
    ok = len(st) == 1 and isinstance(st[0].stmt.value, ast.Call) and call_name(st[0].stmt.value) == "sorted"
    if ok:
        call = st[0].stmt.value
        key = arg_of(call, kw="key")
        ok = isinstance(key, ast.Lambda) and isinstance(key.body, ast.Subscript) and const_value(key.body.slice) == 1 and unparse(key.body.value) == key.args.args[0].arg
        ok = ok and "aborted_transactions" in unparse(call.args[0]) and not any(k.arg == "reverse" for k in call.keywords)
    ctx.ob(R, f0, f0.node, ok, "aborted transactions are not sorted ascending by first offset", text="sorted-by-first-offset")
    st = c0.stores(attr="_aborted_producers")
    ctx.ob(R, f0, f0.node, len(st) == 1 and unparse(st[0].stmt.value) == "set()", "aborted producers do not start empty", text="producers-empty")
    fi = ctx.fn(f"{PR}._consume_aborted_up_to")
    c = ctx.cfg(fi)
    # roles of the locals: the head entry of the index and its components (producer id = 0, first offset = 1), however it is taken apart
    lists = {"self._aborted_transactions"} | {d.ast.id for d in c.nodes if d.kind == "store" and isinstance(d.ast, ast.Name) and isinstance(d.stmt, ast.Assign)
                                               and unparse(d.stmt.value) == "self._aborted_transactions"}
    roles = {}

    def role(e):
        if isinstance(e, ast.Name):
            return roles.get(e.id)
        if isinstance(e, ast.Subscript) and const_value(e.slice) == 0 and unparse(e.value) in lists:
            return "entry"
        if isinstance(e, ast.Subscript) and role(e.value) == "entry" and isinstance(const_value(e.slice), int):
            return const_value(e.slice)
        return None
    for _i in range(3):
        for st_ in ast.walk(fi.node):
            if isinstance(st_, ast.Assign) and len(st_.targets) == 1:
                r_ = role(st_.value)
                tg = st_.targets[0]
                if r_ is not None and isinstance(tg, ast.Name):
                    roles.setdefault(tg.id, r_)
                elif r_ == "entry" and isinstance(tg, (ast.Tuple, ast.List)):
                    for k_, e_ in enumerate(tg.elts):
                        if isinstance(e_, ast.Name):
                            roles.setdefault(e_.id, k_)
    tests = [t for t in c.nodes if t.kind == "test" and isinstance(t.ast, ast.Compare) and len(t.ast.ops) == 1 and
             ((role(t.ast.left) == 1 and unparse(t.ast.comparators[0]) == fi.params()[1]) or (role(t.ast.comparators[0]) == 1 and unparse(t.ast.left) == fi.params()[1]))]
    t = ctx.one(tests, "first_offset vs batch offset comparison")
    op = type(t.ast.ops[0])
    left_is_first = role(t.ast.left) == 1
    # finite evaluation over the three orderings of (first_offset, batch_offset)
    def admits(first, batch):
        a, b = (first, batch) if left_is_first else (batch, first)
        return {ast.LtE: a <= b, ast.Lt: a < b, ast.GtE: a >= b, ast.Gt: a > b, ast.Eq: a == b, ast.NotEq: a != b}[op]
    table = {"<": admits(0, 1), "=": admits(1, 1), ">": admits(1, 0)}
    adds = [n for n in c.calls(attr="add") if unparse(n.ast.func.value) == "self._aborted_producers"]
    pops = c.calls(attr="pop")
    brk = [n for n in c.nodes if n.kind == "break"]
    branch_add = None
    if adds:
        branch_add = "T" if c.dominated_by_branch(t, "T", adds[0]) else ("F" if c.dominated_by_branch(t, "F", adds[0]) else None)
    if branch_add == "F":
        table = {k: not v for k, v in table.items()}
    ctx.ob(R, fi, t, branch_add is not None and table == {"<": True, "=": True, ">": False}, f"index entries admitted for first_offset (<,=,>) batch offset: {table}; must be (True, True, False)", text="ordering-table")
    ok = len(adds) == 1 and len(pops) == 1 and branch_add is not None and c.dominated_by_branch(t, branch_add, pops[0]) and role(arg_of(adds[0].ast, 0)) == 0 \
        and const_value(arg_of(pops[0].ast, 0)) == 0 and unparse(pops[0].ast.func.value) in lists
    ctx.ob(R, fi, t, ok, "an admitted entry is not moved from the front of the index into the aborted-producer set", text="admit-moves")
    other = "F" if branch_add == "T" else "T"
    ok = len(brk) >= 1 and all(c.dominated_by_branch(t, other, b) for b in brk) and c.exit in c.reachable([m for m, l in t.succ if l == other], exc=False, include_src=True) \
        and not any(n.kind == "call" and call_attr(n.ast) in ("add", "pop") for n in c.reachable([m for m, l in t.succ if l == other], exc=False, include_src=True))
    ctx.ob(R, fi, t, ok, "scan does not stop at the first entry that starts after the batch", text="stops")
    # (the role resolution above already demands that the compared value is component 1 and the admitted id component 0 of the FRONT entry)
    ok = bool(adds) and role(arg_of(adds[0].ast, 0)) == 0
    ctx.ob(R, fi, t, ok, "entry is not taken apart as (producer_id, first_offset) from the front", text="entry-shape")
    # the index given to PartitionRecords is the reply's (producer_id, first_offset) list: C03 reply-shape; order of fields from the schema
    from ..prototab import ProtoTable, elem_schema, find_field
    pt = ProtoTable(ctx.repo)
    for pc in pt.response_structs():
        if pc.name.startswith("FetchResponse_v"):
            sch = pt.schema(pc)
            ab = find_field(sch, ["topics", "partitions", "aborted_transactions"])
            if ab is not None:
                names = [n for n, _ in elem_schema(ab)[1]]
                ctx.rep.ob(R, f"{pc.module.relpath}:{pc.lineno} {pc.name}", f"{pc.name}|aborted-entry", names == ["producer_id", "first_offset"], f"aborted_transactions entry fields {names}")


def rule_level_flow(ctx):
    R = "level-flow"
    ctx.rep.rule(R, "the configured isolation level reaches FetchRequest and OffsetRequest (so the broker bounds data by LSO) and "
                    "PartitionRecords; read_uncommitted = 0, read_committed = 1")
    mod = ctx.repo.module("aiokafka.consumer.fetcher")
    consts = {s.targets[0].id: const_value(s.value) for s in mod.tree.body if isinstance(s, ast.Assign) and isinstance(s.targets[0], ast.Name) and s.targets[0].id in ("READ_UNCOMMITTED", "READ_COMMITTED")}
    ctx.rep.ob(R, f"{mod.relpath}:25 isolation constants", "fetcher|level-constants", consts == {"READ_UNCOMMITTED": 0, "READ_COMMITTED": 1}, f"isolation level wire values {consts}")
    f0 = ctx.fn(f"{FETCHER}.__init__")
    c0 = ctx.cfg(f0)
    m = {}
    for s in c0.stores(attr="_isolation_level"):
        for t in c0.nodes:
            if t.kind == "test" and isinstance(t.ast, ast.Compare) and unparse(t.ast.left) == "isolation_level" and c0.dominated_by_branch(t, "T", s):
                m[const_value(t.ast.comparators[0])] = unparse(s.stmt.value)
    ctx.ob(R, f0, f0.node, m == {"read_uncommitted": "READ_UNCOMMITTED", "read_committed": "READ_COMMITTED"}, f"isolation level mapping {m}", text="config-map")
    fa = ctx.fn(f"{FETCHER}._get_actions_per_node")
    rq = ctx.one(ctx.cfg(fa).calls(name="FetchRequest"), "FetchRequest(...)")
    bf = ctx.fn("aiokafka.protocol.fetch.FetchRequest.__init__")
    idx = bf.params().index("isolation_level") - 1
    ctx.ob(R, fa, rq, unparse(arg_of(rq.ast, pos=idx, kw="isolation_level") or ast.Constant(None)) == "self._isolation_level", "FetchRequest does not carry the consumer's isolation level", text="fetch-level")
    fo = ctx.fn(f"{FETCHER}._proc_offset_request")
    oq = ctx.one(ctx.cfg(fo).calls(name="OffsetRequest"), "OffsetRequest(...)")
    bo = ctx.fn("aiokafka.protocol.offset.OffsetRequest.__init__")
    idx = bo.params().index("isolation_level") - 1
    ctx.ob(R, fo, oq, unparse(arg_of(oq.ast, pos=idx, kw="isolation_level") or ast.Constant(None)) == "self._isolation_level", "OffsetRequest does not carry the consumer's isolation level", text="offset-level")
    fp = ctx.fn(f"{FETCHER}._proc_fetch_request")
    pr = ctx.one(ctx.cfg(fp).calls(name="PartitionRecords"), "PartitionRecords(...)")
    bp = ctx.fn(f"{PR}.__init__")
    idx = bp.params().index("isolation_level") - 1
    ctx.ob(R, fp, pr, unparse(arg_of(pr.ast, pos=idx, kw="isolation_level") or ast.Constant(None)) == "self._isolation_level", "PartitionRecords is not told the isolation level", text="records-level")
    st = ctx.cfg(bp).stores(attr="_isolation_level")
    ctx.ob(R, bp, bp.node, len(st) == 1 and unparse(st[0].stmt.value) == "isolation_level", "PartitionRecords drops the level", text="records-store")
    # consumer passes its configuration down
    fc = ctx.fn("aiokafka.consumer.consumer.AIOKafkaConsumer.start")
    ft = ctx.cfg(fc).calls(name="Fetcher")
    ctx.ob(R, fc, fc.node, len(ft) >= 1 and all(unparse(arg_of(n.ast, kw="isolation_level") or ast.Constant(None)) == "self._isolation_level" for n in ft), "Consumer does not pass isolation_level to the Fetcher", text="consumer-level")
    # builders: the level is transmitted or refused per version -- decided in C11 (builders)



def rule_fresh_waiter(ctx):
    R = "position-advances"
    # "never stalls": when a fetch response contained nothing deliverable (only markers / aborted batches) the hand-out loop goes round
    # and waits again; it must wait on a NEW future each time -- awaiting the already-resolved one returns at once and the loop spins
    # without ever letting the fetch routine run
    for m in ("next_record", "fetched_records"):
        fi = ctx.fn(f"{c03.FETCHER}.{m}")
        c = ctx.cfg(fi)
        cr = c.calls(attr="_create_fetch_waiter")
        ctx.anchor(len(cr) >= 1, f"_create_fetch_waiter() in {m}")
        heads = [h for h in c.nodes if h.kind == "loop" and isinstance(h.ast, ast.While)]
        for cw in cr:
            nm = cw.stmt.targets[0].id if isinstance(cw.stmt, ast.Assign) and isinstance(cw.stmt.targets[0], ast.Name) else None
            aws = [n for n in c.nodes if n.kind == "await" and nm is not None and nm in {x.id for x in ast.walk(n.ast) if isinstance(x, ast.Name)}]
            ok = bool(aws)
            for a in aws:
                for h in heads:
                    if a in c.loop_body(h) and a in c.reachable([h], avoid=[cw], exc=False):
                        ok = False
            ctx.ob(R, fi, cw, ok, f"{m}: the loop can wait again on a fetch waiter created in an earlier iteration (already resolved): it spins instead of yielding, "
                                  "the fetch routine never runs and delivery stalls after a response with nothing deliverable", text=f"{m}:fresh-waiter-per-wait")


def run(ctx):
    rep = ctx.rep
    rep.explanation = ("C08 structural clauses of the isolation filter in PartitionRecords._unpack_records: control batches never reach the record "
                       "loop at any level; under READ_COMMITTED the aborted index is consumed for every batch before the abort marker is processed, "
                       "which precedes the aborted-producer skip; the index is sorted by first offset and consumed with <=; every way back to the "
                       "batch loop advances next_fetch_offset (shared with C03); the level reaches both requests.")
    rule_control_skip(ctx)
    rule_aborted_filter(ctx)
    rule_ordering(ctx)
    c03.rule_unpack(ctx)
    rule_level_flow(ctx)
    rule_fresh_waiter(ctx)
    from .common import rule_isolation_mapping
    rule_isolation_mapping(ctx, "level-flow")
    from .common import rule_instance_state
    rule_instance_state(ctx, ("aiokafka.consumer.",))
    rep.nd("exactness of the delivered set for all interleavings of producers / cuts of the log (needs concrete logs)")
