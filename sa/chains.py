"""Error -> effect tables of `if error_type is X ... elif ... else` chains.

For each error class named in a chain on a given variable the rule computes what the
arm does along every normal path until the function returns / raises / goes to the
next loop iteration: the calls made and the terminal.  Paths that contradict the class
at a nested test of the same variable are dropped (so `error_type in (A, B)` followed by
`if error_type is A` yields separate effects for A and B).  Handlers of one protocol are
then cross-checked against the table the protocol demands.
"""
from __future__ import annotations

import ast

from .cfg import enum_paths
from .loader import call_attr, unparse


def _classes_of_test(e, var):
    """(`var is X` | `var == X` | `var in (X, Y)`) -> ([names], positive); negated forms -> ([names], False)."""
    if isinstance(e, ast.Compare) and len(e.ops) == 1 and unparse(e.left) == var:
        op = e.ops[0]
        rhs = e.comparators[0]
        if isinstance(op, (ast.Is, ast.Eq)):
            return [unparse(rhs).split(".")[-1]], True
        if isinstance(op, (ast.IsNot, ast.NotEq)):
            return [unparse(rhs).split(".")[-1]], False
        if isinstance(op, (ast.In, ast.NotIn)) and isinstance(rhs, (ast.Tuple, ast.List, ast.Set)):
            return [unparse(x).split(".")[-1] for x in rhs.elts], isinstance(op, ast.In)
    return None


class Arm:
    def __init__(self, cls, test):
        self.cls = cls
        self.test = test
        self.paths = []  # list of (calls:[names], terminal:str, nodes)

    def calls(self):
        s = set()
        for c, _t, _n in self.paths:
            s |= set(c)
        return s

    def all_paths_call(self, name):
        return bool(self.paths) and all(name in c for c, _t, _n in self.paths)

    def terminals(self):
        return sorted({t for _c, t, _n in self.paths})

    def stores(self):
        s = set()
        for _c, _t, nodes in self.paths:
            for n in nodes:
                if n.kind == "store" and isinstance(n.ast, (ast.Attribute, ast.Subscript)):
                    s.add(unparse(n.ast))
        return s

    def describe(self):
        return f"calls={sorted(self.calls())} end={self.terminals()}"


def _terminal(c, path):
    last = path[-1]
    prev = path[-2] if len(path) > 1 else None
    if last is c.exit:
        if prev is not None and prev.kind == "return":
            v = prev.ast.value
            if v is None or (isinstance(v, ast.Constant) and v.value is None):
                return "return:None"
            if isinstance(v, ast.Constant):
                return f"return:{v.value!r}"
            return "return:" + unparse(v)
        return "return:None"
    if last is c.raise_exit or last.kind == "handler":
        if prev is not None and prev.kind == "raise":
            x = prev.ast.exc
            if x is None:
                return "raise:<reraise>"
            if isinstance(x, ast.Call):
                return "raise:" + unparse(x.func).split(".")[-1]
            return "raise:" + unparse(x).split(".")[-1]
        return "raise:?"
    if last.kind == "loop":
        return "next-iteration"
    return "?"


def chain_arms(c, var, within=None):
    """dict class name -> Arm, plus the 'else' arm under key '<else>' (entered when every test is false).
    `within`: optional set of CFG nodes to restrict the chain tests to."""
    tests = []
    for n in c.nodes:
        if n.kind == "test" and (within is None or n in within):
            r = _classes_of_test(n.ast, var)
            if r and r[0]:
                tests.append((n, r[0], r[1]))
    arms = {}
    if not tests:
        return arms
    ends = [c.exit, c.raise_exit] + [n for n in c.nodes if n.kind == "loop"] + [n for n in c.nodes if n.kind == "handler"]
    info = {t: (cl, pos) for t, cl, pos in tests}

    def consistent(path, name):
        for a, b in zip(path, path[1:]):
            if a in info:
                cl, pos = info[a]
                lab = [l for m, l in a.succ if m is b]
                if not lab:
                    continue
                taken_true = lab[0] == "T"
                holds = (name in cl) if pos else (name not in cl)
                if name == "<else>":
                    # else arm: every positive test false, every negative test true
                    holds = not pos
                if taken_true != holds:
                    return False
        return True

    def follow(start_nodes, name):
        out = []
        for s in start_nodes:
            if s in ends:
                out.append(([], "return:None" if s is c.exit else _terminal(c, [s, s]), [s]))
                continue
            for p in enum_paths(c, s, ends, exc=False, follow_back=False):
                if not consistent(p, name):
                    continue
                calls = [call_attr(n.ast) for n in p if n.kind == "call" and call_attr(n.ast)]
                out.append((calls, _terminal(c, p), p))
        return out

    for t, cl, pos in tests:
        if pos:
            starts = [m for m, l in t.succ if l == "T"]
            for name in cl:
                a = arms.setdefault(name, Arm(name, t))
                a.paths += follow(starts, name)
        else:
            starts = [m for m, l in t.succ if l == "F"]
            for name in cl:
                a = arms.setdefault(name, Arm(name, t))
                a.paths += follow(starts, name)
    # else arm: successors reached when a positive test is false / a negative test is true, and that do not
    # lead straight into another chain test
    else_starts = []
    for t, cl, pos in tests:
        for m, l in t.succ:
            if l == ("F" if pos else "T") and m not in info:
                nxt = m
                hops = 0
                while nxt.kind in ("call",) and len(nxt.succ) >= 1 and hops < 4:
                    nxt = [x for x, lab in nxt.succ if lab != "exc"][0]
                    hops += 1
                if nxt in info:
                    continue
                if not pos:
                    # `if var is not NoError:` body -- the tests inside decide; the body start is not an else arm
                    # unless no chain test follows
                    inner = c.reachable([m], exc=False, include_src=True)
                    if any(x in info for x in inner):
                        continue
                else_starts.append(m)
    if else_starts:
        a = Arm("<else>", None)
        a.paths = follow(else_starts, "<else>")
        arms["<else>"] = a
    return arms


def effects(arm, state_calls):
    """Summary: (sorted state-changing calls made on every path, sorted made on some path, terminals)."""
    every = None
    some = set()
    for calls, _t, _n in arm.paths:
        s = set(calls) & state_calls
        some |= s
        every = s if every is None else (every & s)
    return sorted(every or ()), sorted(some), arm.terminals()
