"""Both-ways self-test of a property's rules (thorough tier).

  silent  : the rules are re-run (a) on a scratch copy of the package in which every Python file was re-emitted by
            ast.unparse (all line numbers, comments and layout differ) and (b) on a copy in which every function-local
            variable was renamed: the set of obligations and every verdict must be identical (findings are keyed by
            construct, never by position; local names are normalised against sa/baseline_locals.json).
  firing  : (a) every defect this project repaired with a `fix:` commit is re-introduced into a scratch copy by reversing
                that commit; the check must report a violation with the key recorded in known_findings.json;
            (b) every stored seeded change (seeded/<id>/patch.diff) recorded as detected by this property is applied to a
                scratch copy; the check must report a violation.
Scratch copies live under a fresh temporary directory and are removed immediately.  A failure here is a defect of the
checker, not of aiokafka: it is reported as ANALYSIS-ERROR (exit 2).
"""
from __future__ import annotations

import ast
import glob
import json
import os
import shutil
import subprocess
import tempfile
from concurrent.futures import ProcessPoolExecutor

from .loader import AnalysisError, Repo
from .report import KNOWN, Report, VERIF
from .rulekit import Ctx


def _copy_pkg(src_root, dst_root):
    src = os.path.join(src_root, "aiokafka")
    dst = os.path.join(dst_root, "aiokafka")
    shutil.copytree(src, dst, ignore=shutil.ignore_patterns("*.so", "*.c", "__pycache__", "*.pyc", "*.orig", "*.rej"))
    # crc32c.c is a hand-written source, keep it (ignored above by pattern): copy explicitly
    c = os.path.join(src, "record", "_crecords", "crc32c.c")
    if os.path.exists(c):
        shutil.copy(c, os.path.join(dst, "record", "_crecords", "crc32c.c"))


def _run_rules(pid, root, tier="quick"):
    import importlib
    mod = importlib.import_module(f"sa.rules.{pid.lower()}")
    rep = Report(pid, tier, root, 0)
    repo = Repo(root)
    ctx = Ctx(repo, rep, tier)
    mod.run(ctx)
    return rep


def _verdicts(rep):
    out = {}
    for o in rep.obligations:
        out.setdefault(o["key"], []).append(o["ok"])
    return {k: tuple(sorted(v)) for k, v in out.items()}


def _normalise(root):
    n = 0
    for dirpath, _d, files in os.walk(os.path.join(root, "aiokafka")):
        for f in files:
            if f.endswith(".py"):
                p = os.path.join(dirpath, f)
                src = open(p, encoding="utf-8").read()
                new = "# re-emitted by the self-test\n\n\n" + ast.unparse(ast.parse(src)) + "\n"
                open(p, "w", encoding="utf-8").write(new)
                n += 1
    return n


def _rename_locals(root):
    """Every function-local variable of every Python file gets a new name (behaviour preserving)."""
    from .alpha import Renamer
    for dirpath, _d, files in os.walk(os.path.join(root, "aiokafka")):
        for f in files:
            if f.endswith(".py"):
                p = os.path.join(dirpath, f)
                tree = Renamer().visit(ast.parse(open(p, encoding="utf-8").read()))
                ast.fix_missing_locations(tree)
                open(p, "w", encoding="utf-8").write(ast.unparse(tree) + "\n")


def _rewrite(root, kind):
    """Whole-package behaviour-preserving rewrite (sa/variants.py): if/else arms swapped, guard clauses, `while True` + break, De Morgan."""
    from .variants import TRANSFORMS
    for dirpath, _d, files in os.walk(os.path.join(root, "aiokafka")):
        for f in files:
            if f.endswith(".py"):
                p = os.path.join(dirpath, f)
                tree = TRANSFORMS[kind]().visit(ast.parse(open(p, encoding="utf-8").read()))
                ast.fix_missing_locations(tree)
                open(p, "w", encoding="utf-8").write(ast.unparse(tree) + "\n")


def _variant(args):
    """Worker: build one scratch variant, run the rules, return a summary."""
    pid, repo_root, kind, spec = args
    tmp = tempfile.mkdtemp(prefix="verif-selftest-")
    try:
        _copy_pkg(repo_root, tmp)
        if kind == "normalised":
            _normalise(tmp)
        elif kind == "renamed":
            _rename_locals(tmp)
        elif kind in ("flip", "guard", "whiletrue", "demorgan", "tmpvar", "condvar", "sortdefs"):
            _rewrite(tmp, kind)
        elif kind == "revert":
            diff = subprocess.run(["git", "-C", repo_root, "show", "--format=", spec, "--", "aiokafka"], capture_output=True, text=True)
            if diff.returncode != 0 or not diff.stdout.strip():
                return {"kind": kind, "spec": spec, "error": "git show failed: " + diff.stderr[-200:]}
            p = subprocess.run(["patch", "-R", "-p1", "-s", "--no-backup-if-mismatch", "-d", tmp], input=diff.stdout, capture_output=True, text=True)
            if p.returncode != 0:
                return {"kind": kind, "spec": spec, "skipped": "does not reverse-apply any more (later commits touched the same lines): " + (p.stdout + p.stderr)[-160:]}
        elif kind in ("seed", "neutral"):
            p = subprocess.run(["patch", "-p1", "-s", "--fuzz=3", "--no-backup-if-mismatch", "-d", tmp, "-i", spec], capture_output=True, text=True)
            if p.returncode != 0:
                return {"kind": kind, "spec": spec, "skipped": "patch no longer applies: " + (p.stdout + p.stderr)[-160:]}
        try:
            rep = _run_rules(pid, tmp)
        except AnalysisError as e:
            return {"kind": kind, "spec": spec, "analysis_error": str(e)}
        return {"kind": kind, "spec": spec, "verdicts": _verdicts(rep),
                "violations": sorted({o["key"] for o in rep.obligations if not o["ok"]})}
    finally:
        shutil.rmtree(tmp, ignore_errors=True)


def _undecided(patch_path):
    try:
        return set(json.load(open(os.path.join(os.path.dirname(patch_path), "meta.json"))).get("undecided", []))
    except Exception:
        return set()


def run(pid, rep, repo_root):
    known = json.load(open(KNOWN)).get("findings", []) if os.path.exists(KNOWN) else []
    jobs = [(pid, repo_root, "normalised", ""), (pid, repo_root, "renamed", "")]
    jobs += [(pid, repo_root, k, "") for k in ("flip", "guard", "whiletrue", "demorgan", "tmpvar", "condvar", "sortdefs")]
    for k in known:
        if k.get("property") == pid and k.get("status") == "fixed" and k.get("commit"):
            jobs.append((pid, repo_root, "revert", k["commit"]))
    for meta in sorted(glob.glob(os.path.join(VERIF, "seeded", "*", "meta.json"))):
        try:
            m = json.load(open(meta))
        except Exception:
            continue
        det = m.get("verification", {}).get("detected_by", [])
        own = m.get("property")
        # a seed is a regression case for its own property's check, or for the check that catches it when its own does not
        if pid in det and (own == pid or own not in det):
            jobs.append((pid, repo_root, "seed", os.path.join(os.path.dirname(meta), "patch.diff")))
    # behaviour-preserving refactorings written by independent agents: the check must stay silent on them
    for meta in sorted(glob.glob(os.path.join(VERIF, "neutral", "*", "meta.json"))):
        try:
            m = json.load(open(meta))
        except Exception:
            continue
        if m.get("property") == pid:
            jobs.append((pid, repo_root, "neutral", os.path.join(os.path.dirname(meta), "patch.diff")))
    with ProcessPoolExecutor(max_workers=min(16, len(jobs))) as ex:
        results = list(ex.map(_variant, jobs))
    base = _verdicts(rep)
    open_known = {k["key"] for k in known if k.get("property") == pid and k.get("status", "open") == "open"}
    fixed_key = {k["commit"]: k["key"] for k in known if k.get("property") == pid and k.get("status") == "fixed"}
    summary = {"variants": len(results), "silent_ok": 0, "fired": 0, "skipped": 0, "details": []}
    problems = []
    for r in results:
        d = {"kind": r["kind"], "spec": os.path.relpath(r["spec"], VERIF) if r["spec"].startswith(VERIF) else r["spec"]}
        if ("error" in r or "analysis_error" in r) and r["kind"] == "neutral" and pid in _undecided(r["spec"]):
            # a refactoring the machinery is documented not to follow (DESIGN section 10): "cannot decide" is the honest verdict, an alarm would not be
            summary["skipped"] += 1
            d["note"] = "documented limit: analysis cannot decide this refactoring (exit 2, no alarm)"
        elif "error" in r or "analysis_error" in r:
            if r["kind"] in ("normalised", "renamed", "neutral", "flip", "guard", "whiletrue", "demorgan", "tmpvar", "condvar", "sortdefs"):
                problems.append(f"{r['kind']} {d['spec']}: {r.get('error') or r.get('analysis_error')}")
            else:
                # a mutant that removes an anchor is an honest 'cannot decide', but the self-test expects a violation
                d["note"] = "ANALYSIS-ERROR on the variant: " + (r.get("error") or r.get("analysis_error"))[:160]
                problems.append(f"{r['kind']} {d['spec']}: analysis error instead of a violation: {(r.get('error') or r.get('analysis_error'))[:120]}")
        elif "skipped" in r:
            summary["skipped"] += 1
            d["note"] = r["skipped"]
        elif r["kind"] in ("neutral", "flip", "guard", "whiletrue", "demorgan", "tmpvar", "condvar", "sortdefs"):
            new = [v for v in r["violations"] if v not in open_known]
            if new:
                problems.append(f"false alarm on the behaviour-preserving refactoring {d['spec']}: {new[:3]}")
            else:
                summary["silent_ok"] += 1
                d["note"] = "no violation on a behaviour-preserving refactoring"
        elif r["kind"] in ("normalised", "renamed"):
            if r["verdicts"] == base:
                summary["silent_ok"] += 1
                d["note"] = f"{len(base)} obligation keys, identical verdicts"
            else:
                diff = sorted(set(r["verdicts"].items()) ^ set(base.items()))[:6]
                problems.append(f"{r['kind']} copy changes obligations/verdicts: {diff}")
        else:
            new = [v for v in r["violations"] if v not in open_known]
            if not new:
                problems.append(f"{r['kind']} {d['spec']}: the variant re-introduces a defect but no violation was reported")
            else:
                summary["fired"] += 1
                d["note"] = f"{len(new)} violation(s), e.g. {new[0][:140]}"
                if r["kind"] == "revert":
                    want = fixed_key.get(r["spec"])
                    if want is not None and want not in r["violations"]:
                        problems.append(f"revert of {r['spec']}: violations {new[:3]} do not include the key recorded in known_findings.json ({want})")
        summary["details"].append(d)
    rep.extra["selftest"] = summary
    print(f"  selftest: {summary['variants']} variants, silent {summary['silent_ok']}, fired {summary['fired']}, skipped {summary['skipped']}")
    if problems:
        raise AnalysisError("self-test failed: " + " || ".join(problems)[:1500])
