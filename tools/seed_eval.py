#!/venv/bin/python
"""Verify a seeded change and run the checks against it.

usage: seed_eval.py <src dir with patch.diff, demo_test.py, meta.json> <seed id> [--no-suite] [--props C01,C02]

Creates a scratch worktree of /repo under /tmp/ev/<id>, applies the patch there, runs the pinned suite and the
demonstration with and without the change, runs ./check <P> --repo <worktree> for every claimed property, stores
everything under /verif/seeded/<id>/ and removes the worktree.  /repo itself is never modified.
"""
import glob
import json
import os
import shutil
import subprocess
import sys

VERIF = os.path.dirname(os.path.dirname(os.path.abspath(__file__)))
PY = "/venv/bin/python"


def sh(cmd, cwd=None, timeout=1800):
    p = subprocess.run(cmd, shell=True, cwd=cwd, capture_output=True, text=True, timeout=timeout)
    return p.returncode, (p.stdout + p.stderr)


def main():
    src, sid = sys.argv[1], sys.argv[2]
    no_suite = "--no-suite" in sys.argv
    props = None
    for a in sys.argv:
        if a.startswith("--props="):
            props = a.split("=", 1)[1].split(",")
    wt = f"/tmp/ev/{sid}"
    os.makedirs("/tmp/ev", exist_ok=True)
    sh(f"git -C /repo worktree remove --force {wt}")
    rc, out = sh(f"git -C /repo worktree add -q --detach {wt} HEAD")
    if rc:
        print("worktree failed", out)
        return 2
    res = {"seed": sid}
    try:
        for so in glob.glob("/repo/aiokafka/record/_crecords/*.so"):
            shutil.copy(so, os.path.join(wt, "aiokafka/record/_crecords/"))
        patch = os.path.abspath(os.path.join(src, "patch.diff"))
        rc, out = sh(f"git apply --check {patch}", cwd=wt)
        how = "git apply"
        if rc:
            rc, out = sh(f"git apply -3 {patch}", cwd=wt)
            how = "git apply -3"
            if rc:
                sh("git checkout -- . ", cwd=wt)
                rc, out = sh(f"patch -p1 --fuzz=3 < {patch}", cwd=wt)
                how = "patch --fuzz=3"
        else:
            rc, out = sh(f"git apply {patch}", cwd=wt)
        res["applied_with"] = how
        if rc:
            res["error"] = "patch does not apply to current /repo HEAD: " + out[-400:]
            print(json.dumps(res, indent=1))
            return 3
        rc, diff = sh("git diff", cwd=wt)
        res["touches_pyx"] = ".pyx" in diff
        if res["touches_pyx"]:
            rc, out = sh(f"{PY} setup.py build_ext --inplace", cwd=wt, timeout=1200)
            res["rebuild_rc"] = rc
        demo = os.path.abspath(os.path.join(src, "demo_test.py"))
        env = "PYTHONDONTWRITEBYTECODE=1"
        rc, out = sh(f"{env} {PY} -m pytest -q -p no:cacheprovider -x {demo}", cwd=wt, timeout=600)
        res["demo_with_change"] = {"rc": rc, "tail": out.strip().splitlines()[-1:] }
        if not no_suite:
            rc, out = sh(f"{env} {PY} -m pytest -q -p no:cacheprovider --timeout=900 tests", cwd=wt, timeout=1500)
            res["suite_with_change"] = {"rc": rc, "tail": out.strip().splitlines()[-1:]}
        # checks against the changed tree
        man = json.load(open(os.path.join(VERIF, "MANIFEST.json")))
        det = {}
        for ch in man["checks"]:
            pid = ch["property_id"]
            if props and pid not in props:
                continue
            rc, out = sh(f"VERIF_EVIDENCE_DIR=/tmp/ev/evidence VERIF_REPLAY_DIR=/tmp/ev/replay ./check {pid} --tier quick --repo {wt}", cwd=VERIF, timeout=600)
            fails = [l.strip() for l in out.splitlines() if l.strip().startswith("FAIL")]
            det[pid] = {"rc": rc, "fails": fails[:6], "err": [l for l in out.splitlines() if "ANALYSIS-ERROR" in l][:2]}
        res["checks"] = {k: v for k, v in det.items() if v["rc"] != 0}
        res["detected_by"] = sorted(k for k, v in det.items() if v["rc"] == 1)
        res["analysis_errors"] = sorted(k for k, v in det.items() if v["rc"] == 2)
        # without the change
        sh("git checkout -- .", cwd=wt)
        if res["touches_pyx"]:
            for so in glob.glob("/repo/aiokafka/record/_crecords/*.so"):
                shutil.copy(so, os.path.join(wt, "aiokafka/record/_crecords/"))
        rc, out = sh(f"{env} {PY} -m pytest -q -p no:cacheprovider -x {demo}", cwd=wt, timeout=600)
        res["demo_without_change"] = {"rc": rc, "tail": out.strip().splitlines()[-1:]}
        # evidence files were rewritten against the scratch tree: restore by re-running on /repo is the caller's job
    finally:
        sh(f"git -C /repo worktree remove --force {wt}")
    dst = os.path.join(VERIF, "seeded", sid)
    os.makedirs(dst, exist_ok=True)
    same = os.path.abspath(src) == os.path.abspath(dst)
    if not same:
        for f in ("patch.diff", "demo_test.py"):
            shutil.copy(os.path.join(src, f), os.path.join(dst, f))
    meta = {}
    try:
        meta = json.load(open(os.path.join(src, "meta.json")))
    except Exception as e:  # noqa
        meta = {"note": f"meta.json unreadable: {e}"}
    old = meta.get("verification", {})
    if "suite_with_change" not in res and "suite_with_change" in old:
        res["suite_with_change"] = old["suite_with_change"]
    meta["verification"] = res
    json.dump(meta, open(os.path.join(dst, "meta.json"), "w"), indent=1)
    print(sid, "applied:", res.get("applied_with"), "| demo with:", res["demo_with_change"]["rc"], "without:", res["demo_without_change"]["rc"],
          "| suite:", res.get("suite_with_change", {}).get("tail"), "| detected_by:", res["detected_by"], "| errors:", res["analysis_errors"])
    for k, v in res["checks"].items():
        for f in v["fails"][:3]:
            print("   ", k, f[:200])
        for f in v["err"]:
            print("   ", k, f[:200])


if __name__ == "__main__":
    sys.exit(main())
