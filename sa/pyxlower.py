"""Load the Cython sources with Cython's own parser (parse only: no type analysis, no C generation) and lower every
function body to a Python `ast` tree, so that the CFG / dominator / reaching-definition machinery of `cfg.py` applies.

The lowering keeps what the bounds analysis needs and nothing else:
  buf[e]            -> Subscript(buf, e)
  &x                -> Call(Name('__addr__'), [x])
  <T> e             -> Call(Name('__cast__'), [Constant('T'), e])
  cdef T x = e      -> Assign(x, e)           (declarations without initialiser are dropped; the type goes to `ctypes`)
  NULL              -> Name('NULL')
`DEF` constants and `include`d .pxi files are already folded by the parser.
Unknown node kinds raise AnalysisError (fail closed).
"""
from __future__ import annotations

import ast
import os

from .loader import AnalysisError

_BIN = {"+": ast.Add, "-": ast.Sub, "*": ast.Mult, "/": ast.Div, "//": ast.FloorDiv, "%": ast.Mod, "<<": ast.LShift,
        ">>": ast.RShift, "&": ast.BitAnd, "|": ast.BitOr, "^": ast.BitXor, "**": ast.Pow}
_CMP = {"<": ast.Lt, "<=": ast.LtE, ">": ast.Gt, ">=": ast.GtE, "==": ast.Eq, "!=": ast.NotEq, "is": ast.Is,
        "is_not": ast.IsNot, "is not": ast.IsNot, "in": ast.In, "not_in": ast.NotIn, "not in": ast.NotIn}


def _parse(path):
    from Cython.Compiler import Errors
    from Cython.Compiler.Main import CompilationOptions, Context, default_options
    from Cython.Compiler.Scanning import FileSourceDescriptor
    from Cython.Compiler.Symtab import ModuleScope

    Errors.init_thread()
    ctx = Context.from_options(CompilationOptions(default_options, language_level=3))
    try:
        return ctx.parse(FileSourceDescriptor(path, path), ModuleScope("m", None, ctx), pxd=0, full_module_name="m")
    except Exception as e:  # CompileError etc.
        raise AnalysisError(f"{path}: Cython parser failed: {type(e).__name__} {e!r}") from e


class PyxFunc:
    def __init__(self, qualname, node, module, cls, ctypes, kind):
        self.qualname = qualname
        self.node = node          # ast.FunctionDef (lowered)
        self.module = module
        self.cls = cls
        self.owner_cls = None
        self.parent = None
        self.name = node.name
        self.is_async = False
        self.ctypes = ctypes      # local / parameter name -> C type text
        self.kind = kind          # 'cdef' | 'def'

    @property
    def path(self):
        return self.module.relpath

    def params(self):
        return [a.arg for a in self.node.args.args]


class PyxModule:
    def __init__(self, root, relpath):
        self.relpath = relpath
        self.path = os.path.join(root, relpath)
        self.name = relpath[:-4].replace(os.sep, ".")
        if not os.path.exists(self.path):
            raise AnalysisError(f"anchor file {relpath} not found")
        self.tree = _parse(self.path)
        self.funcs = {}
        self.n_nodes = 0
        _Lower(self).module(self.tree)

    def func(self, q):
        if q not in self.funcs:
            raise AnalysisError(f"anchor function {q} not found in {self.relpath}")
        return self.funcs[q]


class _Lower:
    def __init__(self, mod):
        self.mod = mod
        self.ctypes = None

    # ---- helpers ------------------------------------------------------------
    def _loc(self, new, old):
        pos = getattr(old, "pos", None)
        ln = pos[1] if pos else 1
        col = pos[2] if pos else 0
        for x in ast.walk(new):
            if not hasattr(x, "lineno") or getattr(x, "lineno", None) is None:
                x.lineno = ln
                x.col_offset = col
                x.end_lineno = ln
                x.end_col_offset = col
        return new

    def module(self, tree):
        self._walk_defs(tree.body, self.mod.name, None)

    def _stats(self, node):
        if node is None:
            return []
        if type(node).__name__ == "StatListNode":
            out = []
            for s in node.stats:
                out += self._stats(s)
            return out
        return [node]

    def _walk_defs(self, body, prefix, cls):
        for s in self._stats(body):
            tn = type(s).__name__
            if tn in ("CClassDefNode", "PyClassDefNode"):
                name = getattr(s, "class_name", None) or getattr(s, "name", "?")
                self._walk_defs(s.body, f"{prefix}.{name}", name)
            elif tn in ("CFuncDefNode", "DefNode"):
                self._func(s, prefix, cls)
            elif tn in ("IfStatNode",):
                for c in s.if_clauses:
                    self._walk_defs(c.body, prefix, cls)
            elif tn == "CDefExternNode":
                continue

    def _decl_name(self, d):
        while d is not None and not hasattr(d, "name"):
            d = getattr(d, "base", None)
        return getattr(d, "name", None)

    def _type_text(self, base_type, declarator):
        t = getattr(base_type, "name", None) or type(base_type).__name__
        d = declarator
        while d is not None and type(d).__name__ == "CPtrDeclaratorNode":
            t += "*"
            d = d.base
        return t

    def _func(self, s, prefix, cls):
        self.ctypes = {}
        tn = type(s).__name__
        if tn == "CFuncDefNode":
            decl = s.declarator
            while type(decl).__name__ != "CFuncDeclaratorNode":
                decl = decl.base
            name = self._decl_name(decl.base)
            args = []
            for a in decl.args:
                an = self._decl_name(a.declarator)
                if not an:  # `self` style: the "type" is the name
                    an = getattr(a.base_type, "name", "arg")
                else:
                    self.ctypes[an] = self._type_text(a.base_type, a.declarator)
                args.append(an)
            kind = "cdef"
            ev = getattr(decl, "exception_value", None)
            self._exc_spec = (getattr(ev, "value", None) if ev is not None else None, bool(getattr(decl, "exception_check", False)),
                              getattr(s.base_type, "name", None))
        else:
            name = s.name
            args = []
            for a in s.args:
                an = self._decl_name(a.declarator)
                if not an:
                    an = getattr(a.base_type, "name", "arg")
                else:
                    self.ctypes[an] = self._type_text(a.base_type, a.declarator)
                args.append(an)
            kind = "def"
        body = self.block(s.body) or [ast.Pass()]
        fn = ast.FunctionDef(name=name, args=ast.arguments(posonlyargs=[], args=[ast.arg(arg=a) for a in args], kwonlyargs=[],
                                                           kw_defaults=[], defaults=[], vararg=None, kwarg=None),
                             body=body, decorator_list=[], returns=None, type_comment=None, type_params=[])
        self._loc(fn, s)
        ast.fix_missing_locations(fn)
        for parent in ast.walk(fn):
            for child in ast.iter_child_nodes(parent):
                child._parent = parent
        q = f"{prefix}.{name}"
        fi = PyxFunc(q, fn, self.mod, cls, self.ctypes, kind)
        # `cdef T f(...) except V` : (text of V or None, True for `except? V` / implicit checking, C return type)
        fi.exc_value, fi.exc_check, fi.ret_ctype = self._exc_spec if kind == "cdef" else (None, True, None)
        k = 2
        while q in self.mod.funcs:
            q = f"{prefix}.{name}#{k}"
            k += 1
        fi.qualname = q
        from . import alpha
        if alpha.normalise_function(q, fn):
            self.mod.renamed = getattr(self.mod, "renamed", 0) + 1
        self.mod.funcs[q] = fi
        self.mod.n_nodes += sum(1 for _ in ast.walk(fn))

    # ---- statements -----------------------------------------------------------
    def block(self, node):
        out = []
        for s in self._stats(node):
            out += self.stmt(s)
        return out

    def stmt(self, s):
        tn = type(s).__name__
        r = None
        if tn == "CVarDefNode":
            out = []
            for d in s.declarators:
                nm = self._decl_name(d)
                self.ctypes[nm] = self._type_text(s.base_type, d)
                dd = d
                while dd is not None and not hasattr(dd, "default"):
                    dd = getattr(dd, "base", None)
                if dd is not None and dd.default is not None:
                    out.append(self._loc(ast.Assign(targets=[ast.Name(id=nm, ctx=ast.Store())], value=self.expr(dd.default)), s))
            return out
        if tn == "SingleAssignmentNode":
            r = ast.Assign(targets=[self.target(s.lhs)], value=self.expr(s.rhs))
        elif tn == "CascadedAssignmentNode":
            r = ast.Assign(targets=[self.target(x) for x in s.lhs_list], value=self.expr(s.rhs))
        elif tn == "InPlaceAssignmentNode":
            r = ast.AugAssign(target=self.target(s.lhs), op=_BIN[s.operator](), value=self.expr(s.rhs))
        elif tn == "ExprStatNode":
            r = ast.Expr(value=self.expr(s.expr))
        elif tn == "ReturnStatNode":
            r = ast.Return(value=self.expr(s.value) if s.value is not None else None)
        elif tn == "RaiseStatNode":
            r = ast.Raise(exc=self.expr(s.exc_type) if s.exc_type is not None else None, cause=None)
        elif tn == "PassStatNode":
            r = ast.Pass()
        elif tn == "BreakStatNode":
            r = ast.Break()
        elif tn == "ContinueStatNode":
            r = ast.Continue()
        elif tn == "AssertStatNode":
            cond = getattr(s, "condition", None) or getattr(s, "cond", None)
            r = ast.Assert(test=self.expr(cond), msg=None)
        elif tn == "IfStatNode":
            clauses = list(s.if_clauses)
            orelse = self.block(s.else_clause) if s.else_clause is not None else []
            for c in reversed(clauses):
                node = self._loc(ast.If(test=self.expr(c.condition), body=self.block(c.body) or [ast.Pass()], orelse=orelse), c)
                orelse = [node]
            return orelse
        elif tn == "WhileStatNode":
            r = ast.While(test=self.expr(s.condition), body=self.block(s.body) or [ast.Pass()],
                          orelse=self.block(s.else_clause) if s.else_clause is not None else [])
        elif tn == "ForInStatNode":
            it = s.iterator
            seq = getattr(it, "sequence", it)
            r = ast.For(target=self.target(s.target), iter=self.expr(seq), body=self.block(s.body) or [ast.Pass()],
                        orelse=self.block(s.else_clause) if s.else_clause is not None else [], type_comment=None)
        elif tn == "TryExceptStatNode":
            hs = []
            for c in s.except_clauses:
                pats = c.pattern or []
                typ = None
                if pats:
                    typ = self.expr(pats[0]) if len(pats) == 1 else ast.Tuple(elts=[self.expr(p) for p in pats], ctx=ast.Load())
                nm = None
                if c.target is not None:
                    nm = getattr(c.target, "name", None)
                hs.append(self._loc(ast.ExceptHandler(type=typ, name=nm, body=self.block(c.body) or [ast.Pass()]), c))
            r = ast.Try(body=self.block(s.body) or [ast.Pass()], handlers=hs,
                        orelse=self.block(s.else_clause) if s.else_clause is not None else [], finalbody=[])
        elif tn == "TryFinallyStatNode":
            r = ast.Try(body=self.block(s.body) or [ast.Pass()], handlers=[], orelse=[], finalbody=self.block(s.finally_clause) or [ast.Pass()])
        elif tn in ("CFuncDefNode", "DefNode", "CImportStatNode", "FromCImportStatNode", "FromImportStatNode", "GlobalNode"):
            r = ast.Pass()
        elif tn == "StatListNode":
            return self.block(s)
        else:
            raise AnalysisError(f"{self.mod.relpath}:{s.pos[1]}: unsupported Cython statement {tn}")
        return [self._loc(r, s)]

    def target(self, e):
        t = self.expr(e)
        for x in ast.walk(t):
            if isinstance(x, (ast.Name, ast.Attribute, ast.Subscript, ast.Tuple, ast.List)) and x is t:
                x.ctx = ast.Store()
        if isinstance(t, (ast.Tuple, ast.List)):
            for el in t.elts:
                if hasattr(el, "ctx"):
                    el.ctx = ast.Store()
        if not isinstance(t, (ast.Name, ast.Attribute, ast.Subscript, ast.Tuple, ast.List)):
            raise AnalysisError(f"{self.mod.relpath}:{e.pos[1]}: unsupported assignment target {type(e).__name__}")
        return t

    # ---- expressions ------------------------------------------------------------
    def expr(self, e):
        if e is None:
            return None
        tn = type(e).__name__
        r = None
        if tn == "NameNode":
            r = ast.Name(id=str(e.name), ctx=ast.Load())
        elif tn == "AttributeNode":
            r = ast.Attribute(value=self.expr(e.obj), attr=str(e.attribute), ctx=ast.Load())
        elif tn == "IntNode":
            v = str(e.value)
            try:
                r = ast.Constant(value=int(v.rstrip("uUlL"), 0))
            except ValueError:
                r = ast.Constant(value=v)
        elif tn == "FloatNode":
            r = ast.Constant(value=float(e.value))
        elif tn == "BoolNode":
            r = ast.Constant(value=bool(e.value))
        elif tn == "NoneNode":
            r = ast.Constant(value=None)
        elif tn == "NullNode":
            r = ast.Name(id="NULL", ctx=ast.Load())
        elif tn in ("UnicodeNode", "StringNode", "IdentifierStringNode"):
            r = ast.Constant(value=str(e.value))
        elif tn == "BytesNode":
            r = ast.Constant(value=bytes(str(e.value), "latin-1"))
        elif tn == "JoinedStrNode":
            r = ast.Call(func=ast.Name(id="__fstring__", ctx=ast.Load()), args=[self.expr(v) for v in e.values], keywords=[])
        elif tn == "FormattedValueNode":
            r = self.expr(e.value)
        elif tn == "SimpleCallNode":
            r = ast.Call(func=self.expr(e.function), args=[self.expr(a) for a in e.args], keywords=[])
        elif tn == "GeneralCallNode":
            args = [self.expr(a) for a in getattr(e.positional_args, "args", [])]
            kws = []
            kw = e.keyword_args
            if kw is not None and type(kw).__name__ == "DictNode":
                for it in kw.key_value_pairs:
                    kws.append(ast.keyword(arg=str(it.key.value), value=self.expr(it.value)))
            r = ast.Call(func=self.expr(e.function), args=args, keywords=kws)
        elif tn == "IndexNode":
            r = ast.Subscript(value=self.expr(e.base), slice=self.expr(e.index), ctx=ast.Load())
        elif tn == "SliceIndexNode":
            r = ast.Subscript(value=self.expr(e.base), slice=ast.Slice(lower=self.expr(e.start), upper=self.expr(e.stop), step=None), ctx=ast.Load())
        elif tn == "AmpersandNode":
            r = ast.Call(func=ast.Name(id="__addr__", ctx=ast.Load()), args=[self.expr(e.operand)], keywords=[])
        elif tn == "TypecastNode":
            t = self._type_text(e.base_type, e.declarator)
            r = ast.Call(func=ast.Name(id="__cast__", ctx=ast.Load()), args=[ast.Constant(value=t), self.expr(e.operand)], keywords=[])
        elif tn in ("AddNode", "SubNode", "MulNode", "DivNode", "ModNode", "IntBinopNode", "BitwiseOrNode", "PowNode", "NumBinopNode"):
            r = ast.BinOp(left=self.expr(e.operand1), op=_BIN[e.operator](), right=self.expr(e.operand2))
        elif tn == "PrimaryCmpNode":
            ops, comps = [_CMP[e.operator]()], [self.expr(e.operand2)]
            c = e.cascade
            while c is not None:
                ops.append(_CMP[c.operator]())
                comps.append(self.expr(c.operand2))
                c = c.cascade
            r = ast.Compare(left=self.expr(e.operand1), ops=ops, comparators=comps)
        elif tn == "BoolBinopNode":
            r = ast.BoolOp(op=ast.And() if e.operator == "and" else ast.Or(), values=[self.expr(e.operand1), self.expr(e.operand2)])
        elif tn == "NotNode":
            r = ast.UnaryOp(op=ast.Not(), operand=self.expr(e.operand))
        elif tn == "UnaryMinusNode":
            r = ast.UnaryOp(op=ast.USub(), operand=self.expr(e.operand))
        elif tn == "UnaryPlusNode":
            r = self.expr(e.operand)
        elif tn == "TildeNode":
            r = ast.UnaryOp(op=ast.Invert(), operand=self.expr(e.operand))
        elif tn == "CondExprNode":
            r = ast.IfExp(test=self.expr(e.test), body=self.expr(e.true_val), orelse=self.expr(e.false_val))
        elif tn == "TupleNode":
            r = ast.Tuple(elts=[self.expr(a) for a in e.args], ctx=ast.Load())
        elif tn == "ListNode":
            r = ast.List(elts=[self.expr(a) for a in e.args], ctx=ast.Load())
        elif tn == "DictNode":
            r = ast.Dict(keys=[self.expr(i.key) for i in e.key_value_pairs], values=[self.expr(i.value) for i in e.key_value_pairs])
        elif tn == "YieldExprNode":
            r = ast.Yield(value=self.expr(e.arg))
        elif tn == "ImportNode":
            r = ast.Call(func=ast.Name(id="__import__", ctx=ast.Load()), args=[], keywords=[])
        elif tn == "IteratorNode":
            r = self.expr(e.sequence)
        elif tn == "SizeofTypeNode" or tn == "SizeofVarNode":
            r = ast.Call(func=ast.Name(id="sizeof", ctx=ast.Load()), args=[], keywords=[])
        else:
            raise AnalysisError(f"{self.mod.relpath}:{e.pos[1]}: unsupported Cython expression {tn}")
        return self._loc(r, e)


def _clone(n):
    """Copy of an expression tree without the `_parent` back references (deepcopy would follow them to the whole module)."""
    if isinstance(n, list):
        return [_clone(x) for x in n]
    if not isinstance(n, ast.AST):
        return n
    new = type(n)()
    for f in n._fields:
        if hasattr(n, f):
            setattr(new, f, _clone(getattr(n, f)))
    for a in ("lineno", "col_offset", "end_lineno", "end_col_offset"):
        if hasattr(n, a):
            setattr(new, a, getattr(n, a))
    return new


def strip_casts(e):
    """Expression with every __cast__(T, x) replaced by x (for comparing index / size expressions)."""
    if e is None:
        return None
    if not any(isinstance(x, ast.Call) and isinstance(x.func, ast.Name) and x.func.id == "__cast__" for x in ast.walk(e)):
        return e

    class T(ast.NodeTransformer):
        def visit_Call(self, n):
            self.generic_visit(n)
            if isinstance(n.func, ast.Name) and n.func.id == "__cast__" and len(n.args) == 2:
                return n.args[1]
            return n
    return T().visit(_clone(e))
