"""Demonstrates (pre-fix) that abort_transaction() after an abortable error sends no EndTxn:
error_transaction() cleared the record of partitions the coordinator had already registered,
so Sender._do_txn_commit took the 'empty transaction' shortcut. The coordinator keeps the
transaction open; the next transaction on the same partition commits the 'aborted' records."""
import asyncio
from unittest import mock
from aiokafka.errors import TopicAuthorizationFailedError
from aiokafka.producer.sender import Sender
from aiokafka.producer.transaction_manager import TransactionManager, TransactionResult
from aiokafka.structs import TopicPartition


def test_abort_after_abortable_error_sends_endtxn():
    async def main():
        tm = TransactionManager("tid", 1000)
        tm.set_pid_and_epoch(1, 0)
        tm.begin_transaction()
        tp = TopicPartition("t", 0)
        tm.maybe_add_partition_to_txn(tp)
        tm.partition_added(tp)                       # coordinator acknowledged t-0; data was produced
        tm.maybe_add_partition_to_txn(TopicPartition("forbidden", 0))
        tm.error_transaction(TopicAuthorizationFailedError("forbidden"))
        tm.aborting_transaction()                    # user calls abort_transaction()
        acc = mock.MagicMock()
        acc.flush_for_commit = mock.AsyncMock()
        sender = Sender(mock.MagicMock(), acks=-1, txn_manager=tm, message_accumulator=acc,
                        retry_backoff_ms=10, request_timeout_ms=1000)
        sender._find_coordinator = mock.AsyncMock(return_value=0)
        sent = []
        async def do(self, node_id):
            sent.append(self._commit_result)
            tm.complete_transaction()
            return True
        with mock.patch("aiokafka.producer.sender.EndTxnHandler.do", do):
            await sender._do_txn_commit(tm.needs_transaction_commit())
        assert sent == [TransactionResult.ABORT], "abort finished without telling the coordinator (EndTxn)"
    asyncio.run(main())
