"""C19 defect found by ./check C19 (rule cancel-reaches-routine): Fetcher._fetch_requests_routine swallows its own cancellation.

When the assignment is lost (unsubscribe / new assign / rebalance) the routine cancels its per-node fetch tasks and awaits each
one inside `contextlib.suppress(asyncio.CancelledError)`.  If Fetcher.close() -- consumer.stop() -- cancels the routine while it is
suspended at that await, the routine's own CancelledError is swallowed together with the child's, the routine goes on to wait for a
new assignment, and close() waits for ever on `await self._fetch_task`: stop() never returns.

The test drives the real Fetcher and SubscriptionState with a client whose send() never answers (a slow broker), changes the
assignment, and calls close() k event-loop iterations later for k = 0..8; close() must return for every k.
"""
import asyncio
from unittest import mock

from aiokafka.consumer.fetcher import Fetcher
from aiokafka.consumer.subscription_state import SubscriptionState
from aiokafka.structs import TopicPartition


async def _one(k):
    tp = TopicPartition("t", 0)
    client = mock.MagicMock()
    never = asyncio.get_running_loop().create_future()

    async def send(node_id, request, **kw):
        await never            # the broker does not answer

    client.send = send
    client.ready = mock.AsyncMock(return_value=True)
    client.cluster.leader_for_partition = mock.MagicMock(return_value=0)
    client.force_metadata_update = lambda: asyncio.get_running_loop().create_future()
    subscriptions = SubscriptionState()
    subscriptions.assign_from_user({tp})
    subscriptions.subscription.assignment.state_value(tp).seek(0)
    fetcher = Fetcher(client, subscriptions, prefetch_backoff=0.01)
    try:
        for _ in range(20):
            await asyncio.sleep(0.005)
            if fetcher._pending_tasks:
                break
        assert fetcher._pending_tasks, "no fetch request in flight"
        # the assignment goes away: the routine cancels the in-flight request and awaits it
        subscriptions.unsubscribe()
        for _ in range(k):
            await asyncio.sleep(0)
        # (not wait_for: close() itself suppresses CancelledError, so a timed-out wait_for would look like a normal return)
        closing = asyncio.ensure_future(fetcher.close())
        done, _ = await asyncio.wait([closing], timeout=1.0)
        if not done:
            closing.cancel()
        return bool(done)
    finally:
        fetcher._fetch_task.cancel()
        for t in list(fetcher._pending_tasks):
            t.cancel()
        await asyncio.sleep(0)


def test_close_returns_whenever_it_is_called_after_the_assignment_was_lost():
    async def main():
        hung = []
        for k in range(9):
            if not await _one(k):
                hung.append(k)
        assert not hung, f"Fetcher.close() did not return within 1 s when called {hung} loop iterations after the assignment was lost"

    asyncio.run(main())
