"""KNOWN FINDING (not repaired) for C07, reported by ./check C07 (rule txn-mute, pending-cleared-only-when-batches-die).

"The producer never writes to a partition before the coordinator acknowledged adding it to the transaction."  When one
AddPartitionsToTxn request registers partitions of two topics and the coordinator refuses one of them (TOPIC_AUTHORIZATION_FAILED; the
other topic comes back OPERATION_NOT_ATTEMPTED), TransactionManager.error_transaction() CLEARS the set of partitions still waiting for
registration.  That set is exactly what keeps their queued batches muted in Sender._sender_routine, so the next loop iteration drains
and PRODUCES the batches of both partitions, with the transactional producer id, although neither partition was ever added to the
transaction.  A broker that does not verify transactional produces (every broker before 3.6) appends the record of the authorised
topic; abort_transaction() then sees nothing registered, takes the empty-transaction shortcut and sends no EndTxn: the record stays in
the log inside a transaction that nobody will ever end.  (First noticed by the author of seeded change C07-J while reading the code;
the in-memory coordinator below is the one written for seeded change C16-J.)

This file demonstrates the defect on the real producer: the test PASSES while the defect is present.
"""


import asyncio
import types

import pytest

import aiokafka.errors as Errors
from aiokafka.producer import AIOKafkaProducer
from aiokafka.producer.sender import AddPartitionsToTxnHandler
from aiokafka.producer.transaction_manager import (
    TransactionManager,
    TransactionState,
)
from aiokafka.protocol.metadata import MetadataResponse_v0
from aiokafka.protocol.produce import ProduceRequest
from aiokafka.protocol.transaction import (
    AddOffsetsToTxnRequest,
    AddPartitionsToTxnRequest,
    AddPartitionsToTxnRequest_v0,
    AddPartitionsToTxnResponse_v0,
    EndTxnRequest,
    EndTxnRequest_v0,
    EndTxnResponse_v0,
    InitProducerIdRequest,
    InitProducerIdResponse_v0,
)
from aiokafka.structs import TopicPartition

TOPIC_AUTH_FAILED = Errors.TopicAuthorizationFailedError.errno
NOT_ATTEMPTED = Errors.OperationNotAttempted.errno

BAD = "a_secret_topic"
GOOD = "b_open_topic"


# --------------------------------------------------------------------------
# 1. Handler level: the response of the coordinator, nothing else
# --------------------------------------------------------------------------


class _ProduceResponse:
    API_VERSION = 3

    def __init__(self, topics):
        self.topics = topics


class FakeCluster:
    """Single node acting as partition leader and transaction coordinator."""

    def __init__(self, unauthorized):
        self.unauthorized = set(unauthorized)
        self.requests = []
        self.txn_partitions = set()
        self.end_txn = []
        self.next_offset = 0
        self.unregistered_produce = []

    async def send(self, node_id, request, group=None):
        await asyncio.sleep(0.002)
        self.requests.append(request)
        if isinstance(request, InitProducerIdRequest):
            return InitProducerIdResponse_v0(0, 0, 1000, 0)
        if isinstance(request, AddPartitionsToTxnRequest):
            return self._add_partitions(request.build(AddPartitionsToTxnRequest_v0))
        if isinstance(request, EndTxnRequest):
            req = request.build(EndTxnRequest_v0)
            self.end_txn.append(bool(req.transaction_result))
            self.txn_partitions.clear()
            return EndTxnResponse_v0(0, 0)
        if isinstance(request, ProduceRequest):
            return self._produce(request)
        if isinstance(request, AddOffsetsToTxnRequest):  # pragma: no cover
            raise AssertionError("not used in this scenario")
        raise AssertionError(f"unexpected request {request!r}")

    def _add_partitions(self, req):
        topics = sorted(req.topics, key=lambda item: item[0])
        denied = [t for t, _ in topics if t in self.unauthorized]
        errors = []
        for topic, partitions in topics:
            if not denied:
                code = 0
                self.txn_partitions.update((topic, p) for p in partitions)
            elif topic in self.unauthorized:
                code = TOPIC_AUTH_FAILED
            else:
                code = NOT_ATTEMPTED
            errors.append((topic, [(p, code) for p in partitions]))
        return AddPartitionsToTxnResponse_v0(0, errors)

    def _produce(self, request):
        out = []
        for topic, partitions in request._topics:
            infos = []
            for partition, _buf in partitions:
                if (topic, partition) not in self.txn_partitions:
                    self.unregistered_produce.append((topic, partition))
                if topic in self.unauthorized:
                    infos.append((partition, TOPIC_AUTH_FAILED, -1, -1))
                else:
                    infos.append((partition, 0, self.next_offset, -1))
                    self.next_offset += 1
            out.append((topic, infos))
        return _ProduceResponse(out)


def _make_producer(cluster):
    producer = AIOKafkaProducer(
        bootstrap_servers="localhost:9092",
        transactional_id="txn-id",
        retry_backoff_ms=10,
    )
    client = producer.client
    client.cluster.update_metadata(
        MetadataResponse_v0(
            [(0, "localhost", 9092)],
            [
                (0, BAD, [(0, 0, 0, [0], [0]), (0, 1, 0, [0], [0])]),
                (0, GOOD, [(0, 0, 0, [0], [0]), (0, 1, 0, [0], [0])]),
            ],
        )
    )

    async def noop(*args, **kwargs):
        return None

    async def wait_on_metadata(topic):
        return client.cluster.partitions_for_topic(topic)

    async def coordinator_lookup(coordinator_type, coordinator_key):
        return 0

    async def ready(node_id, group=None):
        return True

    def force_metadata_update():
        fut = asyncio.get_running_loop().create_future()
        fut.set_result(True)
        return fut

    client.bootstrap = noop
    client.close = noop
    client._maybe_wait_metadata = noop
    client._wait_on_metadata = wait_on_metadata
    client.coordinator_lookup = coordinator_lookup
    client.ready = ready
    client.force_metadata_update = force_metadata_update
    client.get_random_node = lambda: 0
    client.send = cluster.send
    return producer


async def _shutdown(producer):
    task = producer._sender.sender_task
    if task is not None and not task.done():
        task.cancel()
    if task is not None:
        await asyncio.gather(task, return_exceptions=True)
    producer._closed = True




def test_abortable_error_unmutes_batches_of_partitions_that_were_never_registered():
    async def main():
        cluster = FakeCluster(unauthorized=[BAD])
        producer = _make_producer(cluster)
        await asyncio.wait_for(producer.start(), 5)
        try:
            await producer.begin_transaction()
            await producer.send(BAD, b"v1", partition=0)
            fut_good = await producer.send(GOOD, b"v2", partition=0)
            with pytest.raises(Errors.TopicAuthorizationFailedError):
                await asyncio.wait_for(producer.commit_transaction(), 3)
            await asyncio.sleep(0.3)
            await asyncio.wait_for(producer.abort_transaction(), 3)
            await asyncio.sleep(0.1)
            # the defect: data was produced to partitions the coordinator never acknowledged, and the abort sent no EndTxn
            assert (GOOD, 0) in cluster.unregistered_produce
            assert cluster.txn_partitions == set() and cluster.end_txn == []
            assert fut_good.done() and fut_good.exception() is None      # the broker appended the record
        finally:
            await _shutdown(producer)

    asyncio.run(main())
