"""Unit inference for time values: milliseconds vs seconds.

The package keeps a strict naming convention -- configuration values and wire fields in milliseconds carry the suffix `_ms`, everything
that reaches the event loop (`asyncio.sleep`, `wait_for`, `call_later`) or is compared with `time.monotonic()` is in seconds, and the
conversion (`/ 1000`) sits where one becomes the other.  The analysis propagates the unit of every expression forward through
assignments to locals and attributes and through the arguments of calls that resolve to a function or class of the package
(positional and keyword), to a fixpoint, and reports

  * a seconds sink (sleep / wait_for / call_later / arithmetic or comparison with time.monotonic()) fed with a milliseconds value,
  * an attribute, or a parameter, that receives milliseconds from one place and seconds from another,
  * a parameter or attribute NAMED `*_ms` that receives a seconds value.

Unknown stays unknown: only what is derived from a `_ms` name (ms), from such a value divided by 1000 (s), or from a sink (s) counts.
"""
from __future__ import annotations

import ast

from .loader import call_attr, unparse, walk_own

MS, S = "ms", "s"
_SINK_CALLS = {"sleep": 0, "call_later": 0}


def _is_ms_name(name):
    return name.endswith("_ms") or name.endswith("_ms_")


def _const(e):
    return e.value if isinstance(e, ast.Constant) and isinstance(e.value, (int, float)) and not isinstance(e.value, bool) else None


class Units:
    def __init__(self, repo, prefix="aiokafka."):
        self.repo = repo
        self.funcs = {q: f for q, f in repo.funcs.items() if q.startswith(prefix)}
        self.attr = {}      # attribute name -> {unit: (fi, node)}
        self.param = {}     # (qualname, param) -> {unit: (fi, node)}
        self.local = {}     # (qualname, name) -> {unit}
        self.by_name = {}
        for q, f in self.funcs.items():
            self.by_name.setdefault(f.name, []).append(f)
        self.classes = {}
        for q, f in self.funcs.items():
            if f.name == "__init__" and f.owner_cls is not None:
                self.classes.setdefault(f.owner_cls.name, []).append(f)
        # the loader renames locals / private attributes back to the reviewed names; units are read off the names the code REALLY uses
        self.real_attr = {}
        for m in repo.modules.values():
            for _cls, mp in (getattr(m, "attr_renames", None) or {}).items():
                for new, old in mp.items():
                    self.real_attr[old] = new
        self.real_local = {}
        for q, mp in (getattr(repo, "renamed", None) or {}).items():
            for new, old in mp.items():
                if isinstance(old, str) and old.isidentifier():
                    self.real_local[(q, old)] = new
        self.findings = []
        self.sink_functions = set()
        self.n_sinks = 0
        self.n_flows = 0
        self._solve()

    # ---- unit of an expression ------------------------------------------------------------------------------------------------
    def unit(self, fi, e):
        if isinstance(e, ast.Await):
            return self.unit(fi, e.value)
        if isinstance(e, ast.Name):
            # a local's unit is what it was assigned (a local called `x_ms` holding `self._x_ms / 1000` is in seconds, whatever its name)
            loc = self.local.get((fi.qualname, e.id))
            if loc and e.id not in fi.params():
                return set(loc)
            if _is_ms_name(self.real_local.get((fi.qualname, e.id), e.id)):
                return {MS}
            out = set(self.local.get((fi.qualname, e.id), ()))
            if e.id in fi.params():
                out |= set(self.param.get((fi.qualname, e.id), {}))
            return out
        if isinstance(e, ast.Attribute):
            if _is_ms_name(self.real_attr.get(e.attr, e.attr)):
                return {MS}
            return set(self.attr.get(e.attr, {}))
        if isinstance(e, ast.BinOp):
            lu, ru = self.unit(fi, e.left), self.unit(fi, e.right)
            k = _const(e.right)
            if isinstance(e.op, (ast.Div, ast.FloorDiv)) and k in (1000, 1000.0):
                return {S} if lu == {MS} else set()
            if isinstance(e.op, ast.Mult) and (k in (1000, 1000.0) or _const(e.left) in (1000, 1000.0)):
                u = lu or ru
                return {MS} if u == {S} else set()
            if isinstance(e.op, ast.Mult) and (k == 0.001 or _const(e.left) == 0.001):
                u = lu or ru
                return {S} if u == {MS} else set()
            if isinstance(e.op, (ast.Add, ast.Sub)):
                return lu | ru
            if isinstance(e.op, (ast.Mult, ast.Div)) and (k is not None or _const(e.left) is not None):
                return lu | ru       # scaled by a plain factor: same unit
            return set()
        if isinstance(e, ast.IfExp):
            return self.unit(fi, e.body) | self.unit(fi, e.orelse)
        if isinstance(e, ast.BoolOp):
            out = set()
            for v in e.values:
                out |= self.unit(fi, v)
            return out
        if isinstance(e, ast.Call) and unparse(e.func) in ("time.monotonic", "monotonic", "self._loop.time", "loop.time", "time.time"):
            return {S}
        if isinstance(e, ast.Call) and isinstance(e.func, ast.Name) and e.func.id in ("min", "max", "float", "int", "abs", "round"):
            out = set()
            for a in e.args:
                out |= self.unit(fi, a)
            return out
        return set()

    def _mentions_monotonic(self, e):
        return any(isinstance(x, ast.Call) and unparse(x.func) in ("time.monotonic", "monotonic", "self._loop.time", "loop.time", "time.time") for x in ast.walk(e))

    # ---- propagation ----------------------------------------------------------------------------------------------------------
    def _add(self, table, key, units, fi, node):
        cur = table.setdefault(key, {})
        ch = False
        for u in units:
            if u not in cur:
                cur[u] = (fi, node)
                ch = True
        return ch

    def _targets_of_call(self, call):
        f = call.func
        name = f.id if isinstance(f, ast.Name) else (f.attr if isinstance(f, ast.Attribute) else None)
        if name is None:
            return []
        if name in self.classes:
            return [(t, 1) for t in self.classes[name]]
        if isinstance(f, ast.Name):
            return [(t, 0) for t in self.by_name.get(name, []) if t.owner_cls is None]
        # method call: only when the name is unique in the package (no receiver types here)
        cands = [t for t in self.by_name.get(name, []) if t.owner_cls is not None]
        if len(cands) == 1 and not name.startswith("__"):
            return [(cands[0], 1)]
        return []

    def _solve(self):
        # Jacobi iteration: every round recomputes all three tables from the previous round's tables, so that a provisional answer (a local
        # judged by its `_ms` name before its defining assignment was seen) does not survive
        prev_sig = None
        for _round in range(16):
            new_local, new_attr, new_param = {}, {}, {}
            for q, fi in self.funcs.items():
                for n in walk_own(fi.node):
                    if isinstance(n, (ast.Assign, ast.AnnAssign, ast.AugAssign)) and getattr(n, "value", None) is not None:
                        u = self.unit(fi, n.value)
                        if not u:
                            continue
                        tgts = n.targets if isinstance(n, ast.Assign) else [n.target]
                        for t in tgts:
                            if isinstance(t, ast.Name):
                                new_local.setdefault((q, t.id), set()).update(u)
                            elif isinstance(t, ast.Attribute):
                                self._add(new_attr, t.attr, u, fi, n)
                    elif isinstance(n, ast.Call):
                        for tgt, skip in self._targets_of_call(n):
                            ps = tgt.params()[skip:]
                            for i, a in enumerate(n.args):
                                if isinstance(a, ast.Starred) or i >= len(ps):
                                    break
                                u = self.unit(fi, a)
                                if u:
                                    self._add(new_param, (tgt.qualname, ps[i]), u, fi, a)
                            allp = set(tgt.params()) | {a.arg for a in tgt.node.args.kwonlyargs}
                            for kw in n.keywords:
                                if kw.arg in allp:
                                    u = self.unit(fi, kw.value)
                                    if u:
                                        self._add(new_param, (tgt.qualname, kw.arg), u, fi, kw.value)
            self.local, self.attr, self.param = new_local, new_attr, new_param
            sig = (sorted((k, tuple(sorted(v))) for k, v in new_local.items()), sorted((k, tuple(sorted(v))) for k, v in new_attr.items()),
                   sorted((k, tuple(sorted(v))) for k, v in new_param.items()))
            if sig == prev_sig:
                break
            prev_sig = sig
        self.n_flows = sum(len(v) for v in self.attr.values()) + sum(len(v) for v in self.param.values())
        self._check()

    def _check(self):
        # seconds sinks
        for q, fi in self.funcs.items():
            for n in walk_own(fi.node):
                if isinstance(n, ast.Call):
                    nm = call_attr(n) or (n.func.id if isinstance(n.func, ast.Name) else None)
                    args = []
                    if nm in _SINK_CALLS and n.args:
                        args.append(n.args[0])
                    if nm == "wait_for" and len(n.args) >= 2:
                        args.append(n.args[1])
                    if nm in ("wait_for", "wait", "timeout"):
                        args += [k.value for k in n.keywords if k.arg == "timeout"]
                        if nm == "timeout" and n.args:
                            args.append(n.args[0])
                    for a in args:
                        self.n_sinks += 1
                        self.sink_functions.add(q)
                        if MS in self.unit(fi, a):
                            self.findings.append((fi, n, f"`{unparse(n)[:70]}` takes seconds but `{unparse(a)[:40]}` is in milliseconds{self._origin(fi, a)}", f"sink:{nm}:{unparse(a)[:40]}"))
                elif isinstance(n, (ast.Compare, ast.BinOp)):
                    sides = [n.left] + list(n.comparators) if isinstance(n, ast.Compare) else ([n.left, n.right] if isinstance(n.op, (ast.Add, ast.Sub)) else [])
                    if len(sides) < 2:
                        continue
                    us = [self.unit(fi, s_) for s_ in sides]
                    if any(u_ == {S} for u_ in us):
                        for s_, u_ in zip(sides, us):
                            if u_ == {S}:
                                continue
                            self.n_sinks += 1
                            self.sink_functions.add(q)
                            if MS in u_:
                                self.findings.append((fi, n, f"`{unparse(n)[:70]}` mixes a value in seconds with `{unparse(s_)[:40]}`, which is in milliseconds{self._origin(fi, s_)}",
                                                      f"clock:{unparse(s_)[:40]}"))
        # mixed / misnamed
        for name, us in self.attr.items():
            if MS in us and S in us and not _is_ms_name(self.real_attr.get(name, name)):
                fi, node = us[MS]
                self.findings.append((fi, node, f"attribute `{name}` receives milliseconds here and seconds at {us[S][0].qualname}", f"attr-mixed:{name}"))
            if _is_ms_name(self.real_attr.get(name, name)) and S in us:
                fi, node = us[S]
                self.findings.append((fi, node, f"attribute `{name}` is named as milliseconds but is assigned a seconds value", f"attr-misnamed:{name}"))
        for (q, p), us in self.param.items():
            if MS in us and S in us and not _is_ms_name(p):
                fi, node = us[MS]
                self.findings.append((fi, node, f"parameter `{p}` of {q} receives milliseconds here and seconds at {us[S][0].qualname}", f"param-mixed:{q}:{p}"))
            if _is_ms_name(p) and S in us:
                fi, node = us[S]
                self.findings.append((fi, node, f"parameter `{p}` of {q} is named as milliseconds but receives a seconds value", f"param-misnamed:{q}:{p}"))

    def _origin(self, fi, e):
        """Where the milliseconds came from (for the report)."""
        for x in ast.walk(e):
            if isinstance(x, ast.Attribute) and MS in self.attr.get(x.attr, {}) and not _is_ms_name(x.attr):
                f0, n0 = self.attr[x.attr][MS]
                return f" (`{x.attr}` set from a milliseconds value in {f0.qualname}, line {getattr(n0, 'lineno', 0)})"
            if isinstance(x, ast.Name) and x.id in fi.params() and MS in self.param.get((fi.qualname, x.id), {}) and not _is_ms_name(x.id):
                f0, n0 = self.param[(fi.qualname, x.id)][MS]
                return f" (parameter `{x.id}` is passed a milliseconds value by {f0.qualname}, line {getattr(n0, 'lineno', 0)})"
        return ""
