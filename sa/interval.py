"""A small interval abstract interpreter over structured Python statements.

Used for the few arithmetic clauses whose truth is visible as masks / moduli in the
source (sequence wrap, correlation-id wrap, murmur2 width). Integers only; anything it
does not understand evaluates to TOP, which can only make a rule fail, never pass.
"""
from __future__ import annotations

import ast

from .loader import AnalysisError, unparse

INF = float("inf")


class Iv:
    __slots__ = ("lo", "hi")

    def __init__(self, lo, hi):
        self.lo, self.hi = lo, hi

    def __repr__(self):
        return f"[{self.lo}, {self.hi}]"

    def __eq__(self, o):
        return isinstance(o, Iv) and self.lo == o.lo and self.hi == o.hi

    def join(self, o):
        if o is None:
            return self
        return Iv(min(self.lo, o.lo), max(self.hi, o.hi))

    def is_const(self):
        return self.lo == self.hi

    def within(self, lo, hi):
        return self.lo >= lo and self.hi <= hi


TOP = Iv(-INF, INF)


def const(v):
    return Iv(v, v)


def _mul(a, b):
    c = []
    for x in (a.lo, a.hi):
        for y in (b.lo, b.hi):
            if (x in (INF, -INF) and y == 0) or (y in (INF, -INF) and x == 0):
                c.append(0)
            else:
                c.append(x * y)
    return Iv(min(c), max(c))


def binop(op, a, b):
    if a is None or b is None:
        return TOP
    if isinstance(op, ast.Add):
        return Iv(a.lo + b.lo, a.hi + b.hi)
    if isinstance(op, ast.Sub):
        return Iv(a.lo - b.hi, a.hi - b.lo)
    if isinstance(op, ast.Mult):
        return _mul(a, b)
    if isinstance(op, ast.Mod):
        if b.is_const() and b.lo > 0:
            m = b.lo
            if a.lo >= 0 and a.hi < m:
                return a
            return Iv(0, m - 1)
        return TOP
    if isinstance(op, ast.BitAnd):
        for x, y in ((a, b), (b, a)):
            if y.is_const() and y.lo >= 0:
                if x.lo >= 0 and x.hi <= y.lo and (y.lo & (y.lo + 1)) == 0:
                    return x
                return Iv(0, y.lo)
        if a.lo >= 0 and b.lo >= 0:
            return Iv(0, min(a.hi, b.hi))
        return TOP
    if isinstance(op, (ast.BitOr, ast.BitXor)):
        if a.lo >= 0 and b.lo >= 0 and a.hi != INF and b.hi != INF:
            bits = max(int(a.hi).bit_length(), int(b.hi).bit_length())
            return Iv(0, (1 << bits) - 1)
        return TOP
    if isinstance(op, ast.RShift):
        if b.is_const() and b.lo >= 0 and a.lo != -INF and a.hi != INF:
            return Iv(int(a.lo) >> int(b.lo), int(a.hi) >> int(b.lo))
        if b.is_const() and b.lo >= 0 and a.lo >= 0:
            return Iv(0, INF)
        return TOP
    if isinstance(op, ast.LShift):
        if b.is_const() and b.lo >= 0 and a.lo != -INF and a.hi != INF:
            return Iv(int(a.lo) << int(b.lo), int(a.hi) << int(b.lo))
        return TOP
    if isinstance(op, ast.Pow):
        if a.is_const() and b.is_const() and 0 <= b.lo <= 128:
            return const(int(a.lo) ** int(b.lo))
        return TOP
    if isinstance(op, ast.FloorDiv):
        if b.is_const() and b.lo > 0 and a.lo != -INF and a.hi != INF:
            return Iv(int(a.lo) // int(b.lo), int(a.hi) // int(b.lo))
        return TOP
    return TOP


class Result:
    def __init__(self):
        self.stored = None
        self.returned = None
        self.observations = []  # (kind, node, Iv)
        self.env = None


class Interp:
    def __init__(self, sub=None, track_store=None, module_consts=None, observe=None, max_iter=64, len_hi=None):
        self.len_hi = INF if len_hi is None else len_hi
        self.sub = sub or {}
        self.track = track_store
        self.consts = module_consts or {}
        self.res = Result()
        self.observe = observe
        self.max_iter = max_iter

    def ev(self, e, env):
        txt = None
        if isinstance(e, (ast.Subscript, ast.Attribute)):
            txt = unparse(e)
            if txt in self.sub:
                return self.sub[txt]
            if txt in env:
                return env[txt]
        if isinstance(e, ast.Constant):
            if isinstance(e.value, bool):
                return const(int(e.value))
            if isinstance(e.value, int):
                return const(e.value)
            return TOP
        if isinstance(e, ast.Name):
            if e.id in env:
                return env[e.id]
            if e.id in self.consts:
                return self.consts[e.id]
            return TOP
        if isinstance(e, ast.UnaryOp):
            v = self.ev(e.operand, env)
            if isinstance(e.op, ast.USub):
                return Iv(-v.hi, -v.lo)
            if isinstance(e.op, ast.UAdd):
                return v
            if isinstance(e.op, ast.Invert):
                return Iv(-v.hi - 1, -v.lo - 1)
            return TOP
        if isinstance(e, ast.BinOp):
            a = self.ev(e.left, env)
            b = self.ev(e.right, env)
            if self.observe is not None:
                self.observe(e, a, b)
            return binop(e.op, a, b)
        if isinstance(e, ast.Call):
            fn = unparse(e.func)
            if fn == "len":
                return Iv(0, self.len_hi)
            if fn == "int" and len(e.args) == 1:
                return self.ev(e.args[0], env)
            if fn in ("min", "max") and e.args:
                vs = [self.ev(a, env) for a in e.args]
                if fn == "min":
                    return Iv(min(v.lo for v in vs), min(v.hi for v in vs))
                return Iv(max(v.lo for v in vs), max(v.hi for v in vs))
            if fn == "abs" and e.args:
                v = self.ev(e.args[0], env)
                return Iv(0, max(abs(v.lo), abs(v.hi)))
            return TOP
        if isinstance(e, ast.IfExp):
            return self.ev(e.body, env).join(self.ev(e.orelse, env))
        return TOP

    # refine env under condition `e` being truth value `val`; returns env or None (infeasible)
    def refine(self, e, env, val):
        if isinstance(e, ast.UnaryOp) and isinstance(e.op, ast.Not):
            return self.refine(e.operand, env, not val)
        if isinstance(e, ast.BoolOp):
            if isinstance(e.op, ast.And) == val:
                cur = env
                for v in e.values:
                    cur = self.refine(v, cur, val)
                    if cur is None:
                        return None
                return cur
            # disjunction of refinements: join
            outs = [self.refine(v, env, val) for v in e.values]
            outs = [o for o in outs if o is not None]
            if not outs:
                return None
            return _join_env(outs)
        if isinstance(e, ast.Compare) and len(e.ops) == 1:
            l, r = e.left, e.comparators[0]
            lv, rv = self.ev(l, env), self.ev(r, env)
            op = e.ops[0]
            if not val:
                op = _NEG.get(type(op))
                if op is None:
                    return env
                op = op()
            new = dict(env)
            for target, tv, ov, o in ((l, lv, rv, op), (r, rv, lv, _FLIP.get(type(op), lambda: None)())):
                if o is None:
                    continue
                key = target.id if isinstance(target, ast.Name) else (
                    unparse(target) if isinstance(target, (ast.Subscript, ast.Attribute)) else None)
                if key is None:
                    continue
                lo, hi = tv.lo, tv.hi
                if isinstance(o, ast.Gt):
                    lo = max(lo, ov.lo + 1)
                elif isinstance(o, ast.GtE):
                    lo = max(lo, ov.lo)
                elif isinstance(o, ast.Lt):
                    hi = min(hi, ov.hi - 1)
                elif isinstance(o, ast.LtE):
                    hi = min(hi, ov.hi)
                elif isinstance(o, ast.Eq):
                    lo, hi = max(lo, ov.lo), min(hi, ov.hi)
                if lo > hi:
                    return None
                new[key] = Iv(lo, hi)
            return new
        return env

    def block(self, stmts, env):
        for s in stmts:
            if env is None:
                return None
            env = self.stmt(s, env)
        return env

    def _assign(self, t, v, env):
        env = dict(env)
        if isinstance(t, ast.Name):
            env[t.id] = v
        elif isinstance(t, (ast.Subscript, ast.Attribute)):
            k = unparse(t)
            env[k] = v
            if self.track is not None and k == self.track:
                self.res.stored = v.join(self.res.stored)
        elif isinstance(t, (ast.Tuple, ast.List)):
            for x in t.elts:
                env = self._assign(x, TOP, env)
        return env

    def stmt(self, s, env):
        if isinstance(s, ast.Assign):
            v = self.ev(s.value, env)
            for t in s.targets:
                env = self._assign(t, v, env)
            return env
        if isinstance(s, ast.AnnAssign):
            if s.value is not None:
                return self._assign(s.target, self.ev(s.value, env), env)
            return env
        if isinstance(s, ast.AugAssign):
            cur = self.ev(s.target, env)
            rhs = self.ev(s.value, env)
            if self.observe is not None:
                self.observe(s, cur, rhs)
            v = binop(s.op, cur, rhs)
            return self._assign(s.target, v, env)
        if isinstance(s, ast.If):
            et = self.refine(s.test, env, True)
            ef = self.refine(s.test, env, False)
            ot = self.block(s.body, et) if et is not None else None
            of = self.block(s.orelse, ef) if ef is not None else None
            outs = [o for o in (ot, of) if o is not None]
            return _join_env(outs) if outs else None
        if isinstance(s, (ast.While, ast.For)):
            cur = env
            for i in range(self.max_iter):
                if isinstance(s, ast.While):
                    body_in = self.refine(s.test, cur, True)
                else:
                    body_in = self._assign(s.target, self._iter_elem(s.iter, cur), cur)
                out = self.block(s.body, body_in) if body_in is not None else None
                nxt = _join_env([cur, out]) if out is not None else cur
                if _env_eq(nxt, cur):
                    break
                cur = nxt
            else:
                cur = {k: TOP for k in cur}
            if isinstance(s, ast.While):
                ex = self.refine(s.test, cur, False)
                return ex
            return cur
        if isinstance(s, ast.Return):
            if s.value is not None:
                v = self.ev(s.value, env)
                self.res.returned = v.join(self.res.returned)
            return None
        if isinstance(s, ast.Raise):
            return None
        if isinstance(s, ast.Expr):
            self.ev(s.value, env)
            return env
        if isinstance(s, (ast.Pass, ast.Assert, ast.Import, ast.ImportFrom, ast.Global)):
            return env
        # unknown statement: forget everything it may write
        out = dict(env)
        for x in ast.walk(s):
            if isinstance(x, ast.Name) and isinstance(x.ctx, ast.Store):
                out[x.id] = TOP
        return out

    def _iter_elem(self, it, env):
        if isinstance(it, ast.Call) and unparse(it.func) == "range":
            a = [self.ev(x, env) for x in it.args]
            if len(a) == 1:
                return Iv(0, max(a[0].hi - 1, 0))
            if len(a) >= 2:
                return Iv(a[0].lo, max(a[1].hi - 1, a[0].lo))
        return TOP


_NEG = {ast.Gt: ast.LtE, ast.GtE: ast.Lt, ast.Lt: ast.GtE, ast.LtE: ast.Gt, ast.Eq: ast.NotEq, ast.NotEq: ast.Eq}
_FLIP = {ast.Gt: ast.Lt, ast.GtE: ast.LtE, ast.Lt: ast.Gt, ast.LtE: ast.GtE, ast.Eq: ast.Eq, ast.NotEq: ast.NotEq}


def _join_env(envs):
    keys = set()
    for e in envs:
        keys |= set(e)
    out = {}
    for k in keys:
        v = None
        for e in envs:
            if k in e:
                v = e[k].join(v)
            else:
                v = TOP
                break
        out[k] = v
    return out


def _env_eq(a, b):
    return set(a) == set(b) and all(a[k] == b[k] for k in a)


def run_function(fn_ast, env, sub=None, track_store=None, module_consts=None, observe=None, len_hi=None):
    it = Interp(sub, track_store, module_consts, observe, len_hi=len_hi)
    body = [s for s in fn_ast.body if not (isinstance(s, ast.Expr) and isinstance(s.value, ast.Constant))]
    it.res.env = it.block(body, dict(env))
    return it.res
