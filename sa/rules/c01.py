"""C01 -- per-partition produce order, no loss / duplication under retries.

Decides the structure that makes "one batch per partition in flight, retries go back
to the front, sequence stamped once" true on every schedule. Does not decide the
resulting broker log (a history property).
"""
from __future__ import annotations

import ast

from ..cfg import enum_paths
from ..loader import AnalysisError, call_attr, call_name, dotted, unparse
from ..rulekit import arg_of, class_attr, const_value, def_value, is_none_test, local_defs
from .. import interval

SENDER = "aiokafka.producer.sender.Sender"
ACC = "aiokafka.producer.message_accumulator.MessageAccumulator"
BATCH = "aiokafka.producer.message_accumulator.MessageBatch"
HANDLER = "aiokafka.producer.sender.SendProduceReqHandler"
TXN = "aiokafka.producer.transaction_manager.TransactionManager"


def _self_attr_call(n, attr, meth):
    """call node is self.<attr>.<meth>(...)"""
    f = n.ast.func
    return (isinstance(f, ast.Attribute) and f.attr == meth and isinstance(f.value, ast.Attribute)
            and f.value.attr == attr)


def _set_adds(c, attr, meths=("add", "update")):
    return [n for n in c.nodes if n.kind == "call" and any(_self_attr_call(n, attr, m) for m in meths)] + \
           [n for n in c.nodes if n.kind == "store" and isinstance(n.ast, ast.Attribute) and n.ast.attr == attr
            and isinstance(n.stmt, ast.AugAssign)]


def rule_mute_pair(ctx):
    R = "mute-pair"
    ctx.rep.rule(R, "sender loop: between drain_by_nodes and the adds to _muted_partitions/_in_flight "
                    "and the creation of the produce task there is no suspension point; every drained "
                    "tp / node is added in the iteration that creates the task; removes only after "
                    "`await handler.do()` and on every normal exit of _send_produce_req")
    fi = ctx.fn(f"{SENDER}._sender_routine")
    c = ctx.cfg(fi)
    drain = ctx.one(c.calls(attr="drain_by_nodes"), "drain_by_nodes call in _sender_routine")
    spawns = [n for n in c.calls(attr="create_task")
              if n.ast.args and isinstance(n.ast.args[0], ast.Call) and call_attr(n.ast.args[0]) == "_send_produce_req"]
    ctx.floor(spawns, 1, "create_task(self._send_produce_req(...))")
    mutes = _set_adds(c, "_muted_partitions")
    flights = _set_adds(c, "_in_flight")
    ctx.ob(R, fi, drain, bool(mutes), "no add to self._muted_partitions in the sender loop", text="mute-add-exists")
    ctx.ob(R, fi, drain, bool(flights), "no add to self._in_flight in the sender loop", text="inflight-add-exists")
    for tgt in spawns + mutes + flights:
        ok, w = ctx.no_suspension_between(fi, drain, tgt)
        ctx.ob(R, fi, tgt, ok, f"suspension point {w!r} lies between drain_by_nodes and {tgt.text()}" if not ok else "",
               text="nosusp:" + tgt.text())
    for sp in spawns:
        loops = c.enclosing(sp, types=(ast.For,), role="body")
        ctx.ob(R, fi, sp, bool(loops), "produce task not created inside the loop over drained nodes", text="spawn-in-loop")
        if not loops:
            continue
        loop_ast = loops[0][0]
        head = c.loop_head(loop_ast)
        spawn_call = sp.ast.args[0]
        node_arg = arg_of(spawn_call, 0)
        batches_arg = arg_of(spawn_call, 1)
        # on every normal path from the spawn to the next iteration: a mute of every tp, an in-flight add
        for what, adds, arg in (("mute", mutes, batches_arg), ("in-flight", flights, node_arg)):
            inl = [m for m in adds if head in [h for h in _heads(c, m)]]
            good = set()
            for m in inl:
                k = _adds_all(c, m, arg, head)
                if k is not None:
                    good.add(k)
            # the set of 'good' adds must cut every path spawn -> head
            cut = bool(good) and head not in c.reachable([sp], avoid=good, exc=False)
            ctx.ob(R, fi, sp, cut,
                   f"a path from the task creation to the next iteration misses the {what} add of "
                   f"{unparse(arg) if arg is not None else '?'}", text=f"same-iter-{what}")
    # removes in _send_produce_req
    fr = ctx.fn(f"{SENDER}._send_produce_req")
    cr = ctx.cfg(fr)
    do_aw = [n for n in cr.nodes if n.kind == "await" and isinstance(n.ast, ast.Await)
             and isinstance(n.ast.value, ast.Call) and call_attr(n.ast.value) == "do"]
    do_aw = ctx.one(do_aw, "await handler.do(...) in _send_produce_req")
    hcls = ctx._local_class(fr, dotted(do_aw.ast.value.func.value) or "")
    ctx.ob(R, fr, do_aw, hcls is not None and hcls.name == "SendProduceReqHandler",
           "handler awaited in _send_produce_req is not a SendProduceReqHandler", text="handler-class")
    for attr in ("_muted_partitions", "_in_flight"):
        rem = [n for n in cr.nodes if n.kind == "call" and any(_self_attr_call(n, attr, m) for m in ("remove", "discard", "difference_update"))] + \
              [n for n in cr.nodes if n.kind == "store" and isinstance(n.ast, ast.Attribute) and n.ast.attr == attr]
        ctx.ob(R, fr, do_aw, bool(rem), f"no remove from self.{attr} after the produce round-trip", text=f"remove-exists-{attr}")
        for r in rem:
            ctx.ob(R, fr, r, cr.dominates(do_aw, r), f"{r.text()} is reachable before `await handler.do()` returned",
                   text=f"remove-after-do-{attr}")
        if rem:
            # every normal exit passes a remove (of every partition / of the node)
            arg = ast.Name(id=fr.params()[2 if attr == "_muted_partitions" else 1], ctx=ast.Load())
            cuts = {k for k in (_adds_all(cr, r, arg, None) for r in rem) if k is not None}
            ok = bool(cuts) and cr.exit not in cr.reachable([do_aw], avoid=cuts, exc=False)
            ctx.ob(R, fr, do_aw, ok, f"a normal exit of _send_produce_req leaves self.{attr} set", text=f"remove-on-exit-{attr}")
    # nobody else touches the two sets
    for attr in ("_muted_partitions", "_in_flight"):
        for wf, wn, how in ctx.attr_writers_of(attr, "Sender", fields=("_sender", "sender")):
            allowed = wf.qualname in (f"{SENDER}.__init__", f"{SENDER}._sender_routine", f"{SENDER}._send_produce_req")
            ctx.ob(R, wf, wn, allowed, f"unexpected writer of {attr}: {how} in {wf.qualname}", text=f"writer-{attr}-{how}")
    # _send_produce_req started only by the sender loop
    for cf, cn in ctx.callers("_send_produce_req"):
        ctx.ob(R, cf, cn, cf.qualname == f"{SENDER}._sender_routine", "_send_produce_req called outside the sender loop",
               text="caller-of-send-produce-req")


def _heads(c, n):
    out = []
    for a, role in n.within:
        if isinstance(a, (ast.For, ast.While)) and role == "body":
            h = c.loop_head(a)
            if h is not None:
                out.append(h)
    return out


def _adds_all(c, m, arg, outer_head):
    """Does add/remove-node m apply to (all elements of) `arg`?  Accepted idioms:
       S.add(x) with x == arg; for x in arg: S.add(x) (unconditional body); S.update(arg); S |= ..arg..
       Returns the node that must lie on every path (m itself, or the loop's iterator node), else None."""
    if arg is None:
        return None
    at = unparse(arg)
    if m.kind == "store":
        return m if at in unparse(m.stmt.value) else None
    meth = call_attr(m.ast)
    a0 = arg_of(m.ast, 0)
    if a0 is None:
        return None
    if meth in ("update", "difference_update"):
        return m if at in unparse(a0) else None
    if unparse(a0) == at:
        return m
    # element-wise loop
    loops = c.enclosing(m, types=(ast.For,), role="body")
    if not loops:
        return None
    la = loops[0][0]
    it = unparse(la.iter)
    if not (it == at or it in (f"{at}.keys()", f"list({at})", f"{at}.items()")):
        return None
    tgt_names = {x.id for x in ast.walk(la.target) if isinstance(x, ast.Name)}
    if not (isinstance(a0, ast.Name) and a0.id in tgt_names):
        return None
    h = c.loop_head(la)
    nxt = [n for n in c.nodes if n.kind == "fornext" and n.ast is la][0]
    # unconditional: every path T-branch -> head passes m, and no break leaves the loop early
    tsucc = [x for x, l in nxt.succ if l == "T"]
    reach = c.reachable(tsucc, avoid={m}, exc=False, include_src=True)
    if h in reach:
        return None
    body = c.loop_body(h, exc=False)
    for n in body:
        if n.kind == "break" and any(a is la for a, r in n.within):
            return None
    return [n for n in c.nodes if n.kind == "foriter" and n.ast is la][0]


def rule_mute_flow(ctx):
    R = "mute-flow"
    ctx.rep.rule(R, "the muted set handed to drain_by_nodes contains self._muted_partitions on every path; "
                    "ignore_nodes is self._in_flight")
    fi = ctx.fn(f"{SENDER}._sender_routine")
    c = ctx.cfg(fi)
    drain = ctx.one(c.calls(attr="drain_by_nodes"), "drain_by_nodes call")
    acc = ctx.fn(f"{ACC}.drain_by_nodes")
    params = acc.params()
    ctx.anchor("muted_partitions" in params and "ignore_nodes" in params, "drain_by_nodes(ignore_nodes, muted_partitions)")

    def bound(pname):
        v = arg_of(drain.ast, kw=pname)
        if v is None:
            idx = params.index(pname) - 1
            v = arg_of(drain.ast, pos=idx)
        return v

    rd = c.reaching_defs()

    def contains(expr, attr, at, depth=0):
        """expr (evaluated at node `at`) is self.<attr> or a union/copy containing it."""
        if depth > 6:
            return False
        if isinstance(expr, ast.Attribute) and expr.attr == attr and dotted(expr) == f"self.{attr}":
            return True
        if isinstance(expr, ast.BinOp) and isinstance(expr.op, ast.BitOr):
            return contains(expr.left, attr, at, depth + 1) or contains(expr.right, attr, at, depth + 1)
        if isinstance(expr, ast.Call) and call_attr(expr) == "union":
            return contains(expr.func.value, attr, at, depth + 1) or any(contains(a, attr, at, depth + 1) for a in expr.args)
        if isinstance(expr, ast.Call) and call_name(expr) in ("set", "frozenset") and expr.args:
            return contains(expr.args[0], attr, at, depth + 1)
        if isinstance(expr, ast.Name):
            defs = rd[at].get(expr.id)
            if not defs:
                return False
            for d in defs:
                if d.kind != "store":
                    return False
                v = def_value(d)
                if v is None:
                    return False
                if isinstance(v, ast.AugAssign):
                    if not isinstance(v.op, ast.BitOr):
                        return False
                    # x |= y keeps x: check previous defs of x at d
                    prev = rd[d].get(expr.id)
                    if not prev or not all(p.kind == "store" and def_value(p) is not None and not isinstance(def_value(p), ast.AugAssign)
                                           and contains(def_value(p), attr, p, depth + 1) for p in prev):
                        return False
                    continue
                if not contains(v, attr, d, depth + 1):
                    return False
            return True
        return False

    mv = bound("muted_partitions")
    ctx.ob(R, fi, drain, mv is not None and contains(mv, "_muted_partitions", drain),
           f"muted_partitions argument {unparse(mv) if mv is not None else '<default>'} does not always include self._muted_partitions",
           text="muted-arg")
    iv = bound("ignore_nodes")
    ctx.ob(R, fi, drain, iv is not None and contains(iv, "_in_flight", drain),
           f"ignore_nodes argument {unparse(iv) if iv is not None else '<missing>'} is not self._in_flight", text="ignore-arg")


def _not_reachable_from_true(c, tests, site, heads):
    for t in tests:
        ts = [m for m, l in t.succ if l == "T"]
        if site in c.reachable(ts, avoid=set(heads), exc=True, include_src=True):
            return False
    return True


def rule_drain_guard(ctx):
    R = "drain-guard"
    ctx.rep.rule(R, "drain_by_nodes: a batch is popped only for a partition that is not in the muted set "
                    "(test evaluated on every path, pop unreachable from its true branch), and -- for a batch that is "
                    "sent -- whose leader is not in ignore_nodes; the node it is filed under is that leader")
    fi = ctx.fn(f"{ACC}.drain_by_nodes")
    c = ctx.cfg(fi)
    pops = ctx.floor(c.calls(attr="_pop_batch"), 1, "_pop_batch call sites in drain_by_nodes")
    for p in pops:
        loops = c.enclosing(p, types=(ast.For,), role="body")
        ctx.anchor(bool(loops), "_pop_batch inside the partition loop")
        la = loops[-1][0]
        head = c.loop_head(la)
        tvars = {x.id for x in ast.walk(la.target) if isinstance(x, ast.Name)}
        parg = arg_of(p.ast, 0)
        ctx.ob(R, fi, p, isinstance(parg, ast.Name) and parg.id in tvars,
               "_pop_batch is not applied to the partition the loop is testing", text="pop-arg:" + unparse(p.ast))
        mt = [n for n in c.nodes if n.kind == "test" and isinstance(n.ast, ast.Compare) and len(n.ast.ops) == 1
              and isinstance(n.ast.ops[0], ast.In) and isinstance(n.ast.left, ast.Name) and n.ast.left.id in tvars
              and isinstance(n.ast.comparators[0], ast.Name) and n.ast.comparators[0].id == "muted_partitions"]
        ok = bool(mt) and any(c.dominates(t, p) for t in mt) and _not_reachable_from_true(c, mt, p, [head])
        if not ok:
            # the same guard in any spelling (`not in` with the rest nested, De Morgan, ...): the fact holds on every path to the pop
            from ..rulekit import must_facts
            ok = any((tv, "not in", "muted_partitions") in must_facts(c)[p] for tv in tvars)
        ctx.ob(R, fi, p, ok, "pop reachable without the `tp in muted_partitions` test being false", text="muted-guard:" + _where(c, p))
        # muted_partitions must still be the parameter there
        rd = c.reaching_defs()
        for t in mt:
            d = rd[t].get("muted_partitions", set())
            ctx.ob(R, fi, t, all(x.kind == "entry" for x in d), "muted_partitions rebound before the test", text="muted-param")
        # sent (not failed) batches: ignore_nodes
        sent = _is_filed(c, p)
        if sent:
            it = [n for n in c.nodes if n.kind == "test" and isinstance(n.ast, ast.Compare) and len(n.ast.ops) == 1
                  and isinstance(n.ast.ops[0], ast.In) and isinstance(n.ast.comparators[0], ast.Name)
                  and n.ast.comparators[0].id == "ignore_nodes"]
            gate = [n for n in c.nodes if n.kind == "test" and ((isinstance(n.ast, ast.Name) and n.ast.id == "ignore_nodes") or n in it)]
            ok = bool(it) and any(c.dominates(g, p) for g in gate) and _not_reachable_from_true(c, it, p, [head])
            ctx.ob(R, fi, p, ok, "a batch can be drained for a node that is in ignore_nodes (in flight)", text="ignore-guard:" + _where(c, p))
            # leader identity: the tested name is what the batch is filed under, and comes from leader_for_partition(tp)
            for t in it:
                ln = t.ast.left
                if isinstance(ln, ast.Name):
                    defs = [d for d in local_defs(c, ln.id)]
                    okl = bool(defs) and all(isinstance(def_value(d), ast.Call) and call_attr(def_value(d)) == "leader_for_partition"
                                             and unparse(arg_of(def_value(d), 0)) in tvars for d in defs)
                    ctx.ob(R, fi, t, okl, f"`{ln.id}` is not the cluster's leader for the partition under test", text="leader-def")
                    filed = [s for s in c.nodes if s.kind == "store" and isinstance(s.ast, ast.Subscript)
                             and isinstance(s.ast.value, ast.Subscript) and p in c.co_reachable([s], avoid=[head])]
                    for s in filed:
                        ctx.ob(R, fi, s, unparse(s.ast.value.slice) == ln.id and unparse(s.ast.slice) in tvars,
                               f"batch filed under {unparse(s.ast)} rather than [leader][tp]", text="filed-under")


def _where(c, p):
    conds = []
    for a, role in p.within:
        if isinstance(a, ast.If):
            conds.append(("" if role == "body" else "not ") + unparse(a.test)[:40])
    return ";".join(conds[-2:])


def _is_filed(c, p):
    """The popped batch flows into a `nodes[...][...] = batch` store (it is sent)."""
    st = p.stmt
    if not (isinstance(st, ast.Assign) and isinstance(st.targets[0], ast.Name)):
        return False
    name = st.targets[0].id
    for s in c.nodes:
        if s.kind == "store" and isinstance(s.ast, ast.Subscript) and isinstance(s.stmt, ast.Assign) \
                and isinstance(s.stmt.value, ast.Name) and s.stmt.value.id == name and c.path_exists(p, s):
            rd = c.reaching_defs()
            if any(d.stmt is st for d in rd[s].get(name, ())):
                return True
    return False


def rule_fifo(ctx):
    R = "fifo"
    ctx.rep.rule(R, "who-mutates table of MessageAccumulator._batches[tp]: _append_batch appends at the back, "
                    "reenqueue puts back at the FRONT, _pop_batch pops from the front and deletes only an empty deque; nobody else")
    allowed = {
        (f"{ACC}.__init__", "store"),
        (f"{ACC}._append_batch", "[].append"),
        (f"{ACC}.reenqueue", "[].appendleft"),
        (f"{ACC}._pop_batch", "[].popleft"),
        (f"{ACC}._pop_batch", "delete[]"),
    }
    required = {(f"{ACC}._append_batch", "[].append"), (f"{ACC}.reenqueue", "[].appendleft"), (f"{ACC}._pop_batch", "[].popleft")}
    seen = set()
    for wf, wn, how in ctx.attr_writers_of("_batches", "MessageAccumulator", fields=("_message_accumulator",)):
        seen.add((wf.qualname, how))
        ctx.ob(R, wf, wn, (wf.qualname, how) in allowed, f"{wf.qualname} mutates the partition queue with `{how}`", text=f"{how}")
    for q, how in sorted(required):
        fi = ctx.fn(q)
        ctx.ob(R, fi, fi.node, (q, how) in seen, f"{q} no longer does `{how}` on self._batches[tp]", text=f"required {how}")
    # delete only when empty
    fi = ctx.fn(f"{ACC}._pop_batch")
    c = ctx.cfg(fi)
    for d in [n for n in c.nodes if n.kind == "delete" and isinstance(n.ast, ast.Subscript) and unparse(n.ast.value) == "self._batches"]:
        tests = [t for t in c.nodes if t.kind == "test" and "self._batches[" in unparse(t.ast)]
        ok = False
        for t in tests:
            e = t.ast
            if isinstance(e, ast.Compare) and isinstance(e.ops[0], ast.Eq) and const_value(e.comparators[0]) == 0 and unparse(e.left).startswith("len("):
                ok = ok or c.dominated_by_branch(t, "T", d)
            elif isinstance(e, ast.Subscript):
                ok = ok or c.dominated_by_branch(t, "F", d)
        ctx.ob(R, fi, d, ok, "the partition deque is deleted without the emptiness test", text="delete-when-empty")
    # the popped batch is the one returned; append position of reenqueue's argument
    fr = ctx.fn(f"{ACC}.reenqueue")
    cr = ctx.cfg(fr)
    for n in cr.calls(attr="appendleft") + cr.calls(attr="append"):
        recv = n.ast.func.value
        if "self._batches" in unparse(recv):
            a0 = arg_of(n.ast, 0)
            ctx.ob(R, fr, n, isinstance(a0, ast.Name) and a0.id in fr.params() and isinstance(recv, ast.Subscript)
                   and unparse(recv.slice) in ("batch.tp", "tp"),
                   "reenqueue does not put its own batch back under the batch's partition", text="reenqueue-arg")


def rule_seq_once(ctx):
    R = "seq-once"
    ctx.rep.rule(R, "_pop_batch: pid/epoch/base sequence are stamped and the counter advanced only under "
                    "`retry_count == 0 and txn_manager is not None`; the base sequence is the value read before the "
                    "increment; the increment is the batch's record count; drain_ready() (which bumps retry_count) on every path; "
                    "_retry_count written only by __init__ / drain_ready")
    fi = ctx.fn(f"{ACC}._pop_batch")
    c = ctx.cfg(fi)
    seqc = c.calls(attr="sequence_number")
    incc = c.calls(attr="increment_sequence_number")
    stc = c.calls(attr="set_producer_state")
    ctx.ob(R, fi, fi.node, len(seqc) == 1 and len(incc) == 1 and len(stc) == 1,
           f"expected one read / one increment / one stamp, found {len(seqc)}/{len(incc)}/{len(stc)}", text="triple")
    # guards
    def first_retry_tests():
        out = []
        for t in c.nodes:
            if t.kind != "test":
                continue
            e = t.ast
            if _is_first_drain(e):
                out.append((t, "T"))
            elif isinstance(e, ast.Name):
                defs = local_defs(c, e.id)
                if defs and all(_is_first_drain(def_value(d)) for d in defs):
                    out.append((t, "T"))
        return out

    def txn_tests():
        out = []
        for t in c.nodes:
            if t.kind == "test":
                x = is_none_test(t.ast, negate=True)
                if x is not None and unparse(x).endswith("_txn_manager"):
                    out.append((t, "T"))
        return out

    fr, tx = first_retry_tests(), txn_tests()
    for n in seqc + incc + stc:
        ok1 = any(c.dominated_by_branch(t, l, n) for t, l in fr)
        ok2 = any(c.dominated_by_branch(t, l, n) for t, l in tx)
        ctx.ob(R, fi, n, ok1, f"{call_attr(n.ast)} is reachable on a retry (retry_count != 0)", text="first-drain:" + call_attr(n.ast))
        ctx.ob(R, fi, n, ok2, f"{call_attr(n.ast)} not guarded by txn_manager is not None", text="txn-guard:" + call_attr(n.ast))
    if len(seqc) == 1 and len(incc) == 1 and len(stc) == 1:
        s, i, st = seqc[0], incc[0], stc[0]
        ctx.ob(R, fi, i, c.dominates(s, i) and not c.path_exists(i, s), "sequence read does not precede the increment", text="read-before-inc")
        ctx.ob(R, fi, i, unparse(arg_of(s.ast, 0)) == unparse(arg_of(i.ast, 0)), "read and increment use different partitions", text="same-tp")
        inc = arg_of(i.ast, 1) or arg_of(i.ast, kw="increment")
        ctx.ob(R, fi, i, inc is not None and unparse(inc).endswith(".record_count"), f"increment is {unparse(inc) if inc is not None else None}, not the batch's record count", text="inc-by-count")
        _count_chain(ctx, R, fi, i)
        bs = arg_of(st.ast, kw="base_sequence") or arg_of(st.ast, 2)
        okb = False
        if isinstance(bs, ast.Name):
            defs = local_defs(c, bs.id)
            okb = len(defs) == 1 and defs[0].stmt is s.stmt
        ctx.ob(R, fi, st, okb, "base_sequence is not the value read before the increment", text="base-seq-def")
        for kw, prop in (("producer_id", "producer_id"), ("producer_epoch", "producer_epoch")):
            v = arg_of(st.ast, kw=kw)
            ctx.ob(R, fi, st, v is not None and unparse(v) == f"self._txn_manager.{prop}", f"{kw} is not the transaction manager's", text="stamp-" + kw)
        # the batch stamped is the batch popped
        popped = [n for n in c.calls(attr="popleft")]
        if popped and isinstance(popped[0].stmt, ast.Assign) and isinstance(popped[0].stmt.targets[0], ast.Name):
            b = popped[0].stmt.targets[0].id
            ctx.ob(R, fi, st, dotted(st.ast.func.value) == b, "stamped batch is not the popped batch", text="stamp-target")
            rets = [n for n in c.nodes if n.kind == "return"]
            ctx.ob(R, fi, fi.node, all(isinstance(r.ast.value, ast.Name) and r.ast.value.id == b for r in rets) and bool(rets),
                   "_pop_batch does not return the popped batch", text="returns-popped")
    dr = c.calls(attr="drain_ready")
    ctx.ob(R, fi, fi.node, bool(dr) and c.exit not in c.reachable([c.entry], avoid=set(dr), exc=False),
           "a normal path through _pop_batch skips drain_ready()", text="drain-ready-all-paths")
    for d in dr:
        for n in seqc + stc:
            ctx.ob(R, fi, d, not c.path_exists(d, n), "drain_ready() precedes the stamp (set_producer_state asserts not drained)", text="stamp-before-drain")
    # drain_ready increments, nobody else writes
    fd = ctx.fn(f"{BATCH}.drain_ready")
    cd = ctx.cfg(fd)
    incs = [n for n in cd.stores(attr="_retry_count") if isinstance(n.stmt, ast.AugAssign) and isinstance(n.stmt.op, ast.Add)
            and const_value(n.stmt.value) == 1]
    ctx.ob(R, fd, fd.node, len(incs) == 1 and cd.exit not in cd.reachable([cd.entry], avoid=set(incs), exc=False),
           "drain_ready does not increment _retry_count by one on every path", text="retry-inc")
    for wf, wn, how in ctx.attr_writers_of("_retry_count", "MessageBatch", fields=("batch",)):
        ctx.ob(R, wf, wn, wf.qualname in (f"{BATCH}.__init__", f"{BATCH}.drain_ready"), f"_retry_count written in {wf.qualname}", text="retry-writer")
    fi0 = ctx.fn(f"{BATCH}.__init__")
    z = [n for n in ctx.cfg(fi0).stores(attr="_retry_count")]
    ctx.ob(R, fi0, fi0.node, len(z) == 1 and const_value(z[0].stmt.value) == 0, "_retry_count not initialised to 0", text="retry-init")
    rc = ctx.fn(f"{BATCH}.retry_count")
    rets = [n for n in ctx.cfg(rc).nodes if n.kind == "return"]
    ctx.ob(R, rc, rc.node, len(rets) == 1 and unparse(rets[0].ast.value) == "self._retry_count", "retry_count property is not _retry_count", text="retry-prop")
    # sequence_number / increment use the same table
    fs = ctx.fn(f"{TXN}.sequence_number")
    rets = [n for n in ctx.cfg(fs).nodes if n.kind == "return"]
    ctx.ob(R, fs, fs.node, len(rets) == 1 and unparse(rets[0].ast.value) == f"self._sequence_numbers[{fs.params()[1]}]",
           "sequence_number does not read the partition's counter", text="seq-read")
    for wf, wn, how in ctx.attr_writers_of("_sequence_numbers", "TransactionManager", fields=("_txn_manager", "txn_manager")):
        ctx.ob(R, wf, wn, wf.qualname in (f"{TXN}.__init__", f"{TXN}.increment_sequence_number"),
               f"_sequence_numbers written in {wf.qualname} ({how})", text="seq-writer")
    # _pop_batch callers: only drain_by_nodes
    for cf, cn in ctx.callers("_pop_batch"):
        ctx.ob(R, cf, cn, cf.qualname == f"{ACC}.drain_by_nodes", "_pop_batch called outside drain_by_nodes", text="pop-caller")


def _is_first_drain(e):
    return (isinstance(e, ast.Compare) and len(e.ops) == 1 and isinstance(e.ops[0], ast.Eq)
            and const_value(e.comparators[0]) == 0 and unparse(e.left).endswith("retry_count"))


RES_CALLS = ("done", "done_noack", "failure")


def _resolution_events(c):
    out = []
    for n in c.nodes:
        if n.kind != "call":
            continue
        a = call_attr(n.ast)
        f = n.ast.func
        if a in RES_CALLS and isinstance(f, ast.Attribute) and isinstance(f.value, ast.Name):
            out.append(n)
        elif a == "append" and isinstance(f, ast.Attribute) and unparse(f.value).endswith("_to_reenqueue"):
            out.append(n)
    return out



def _count_chain(ctx, R, fi, inc_node):
    """`batch.record_count` must be the number of records the batch puts on the wire: MessageBatch.record_count -> the user-visible
    BatchBuilder's counter, which moves by one exactly when the record builder accepted a record."""
    from ..rulekit import none_tests, only_return_value
    MBq = "aiokafka.producer.message_accumulator.MessageBatch.record_count"
    BBq = "aiokafka.producer.message_accumulator.BatchBuilder.record_count"
    fm, fb = ctx.fn(MBq), ctx.fn(BBq)
    rv = only_return_value(fm.node)
    ctx.ob(R, fm, fm.node, rv is not None and unparse(rv) == "self._builder.record_count()",
           f"MessageBatch.record_count is `{unparse(rv) if rv is not None else None}`, not the builder's count of appended records: batches filled through "
           "create_batch()/send_batch() are counted differently and the next batch re-uses sequence numbers", text="count-is-builder-count")
    rb = only_return_value(fb.node)
    okc = rb is not None and isinstance(rb, ast.Attribute) and unparse(rb.value) == "self"
    ctx.ob(R, fb, fb.node, okc, "BatchBuilder.record_count does not return a counter field", text="builder-count-field")
    if not okc:
        return
    cnt = rb.attr
    fa = ctx.fn("aiokafka.producer.message_accumulator.BatchBuilder.append")
    ca = ctx.cfg(fa)
    writers = []
    for name, fm_ in ctx.repo.cls("aiokafka.producer.message_accumulator.BatchBuilder").methods.items():
        for s_ in ctx.cfg(fm_).stores(attr=cnt):
            if unparse(s_.ast) == f"self.{cnt}":
                writers.append((fm_.qualname, s_))
    incs = [s_ for q, s_ in writers if q.endswith(".append")]
    others = [q for q, s_ in writers if not q.endswith(".append") and not q.endswith(".__init__")]
    ok = len(incs) == 1 and not others and isinstance(incs[0].stmt, ast.AugAssign) and isinstance(incs[0].stmt.op, ast.Add) and const_value(incs[0].stmt.value) == 1
    if ok:
        ap = [n for n in ca.nodes if n.kind == "call" and unparse(n.ast.func) == "self._builder.append"]
        ok = len(ap) == 1
        if ok:
            md = ap[0].stmt.targets[0].id if isinstance(ap[0].stmt, ast.Assign) and isinstance(ap[0].stmt.targets[0], ast.Name) else None
            nt = none_tests(ca, md) if md else []
            ok = len(nt) == 1
            if ok:
                t, l_none, l_some = nt[0]
                refused = ca.reachable([m for m, l in t.succ if l == l_none], include_src=True)
                accepted_rets = [r for r in ca.nodes if r.kind == "return" and r.ast.value is not None and unparse(r.ast.value) == md]
                # counted iff accepted: never on the refused arm, and on every path to `return metadata`
                ok = incs[0] not in refused and bool(accepted_rets) and all(r not in ca.reachable([t], avoid=[incs[0]], exc=False) for r in accepted_rets)
    ctx.ob(R, fa, fa.node, ok, f"BatchBuilder.{cnt} does not move by exactly one for every record the record builder accepted (and only then)", text="builder-count-tracks-appends")


def _produce_effects(ctx, R):
    """Which reply code leads to which resolution in SendProduceReqHandler.handle_response, decided on the facts that hold at each
    resolution call: acknowledged only for NoError / DuplicateSequenceNumber, failed or re-enqueued only for another code, and the
    choice between the two is _can_retry."""
    from ..rulekit import must_facts
    fi = ctx.fn(f"{HANDLER}.handle_response")
    c = ctx.cfg(fi)
    ev = _resolution_events(c)
    er = None
    for n in c.calls(attr="for_code"):
        if isinstance(n.stmt, ast.Assign) and isinstance(n.stmt.targets[0], ast.Name):
            er = n.stmt.targets[0].id
    ctx.anchor(er is not None, "error = Errors.for_code(error_code) in handle_response")
    ok_codes = {(er, "is", "Errors.NoError"), (er, "is", "DuplicateSequenceNumber"), (er, "==", "Errors.NoError"), (er, "==", "DuplicateSequenceNumber")}
    from ..rulekit import atoms_of_test
    heads = [h for h in c.nodes if h.kind == "loop"]

    def edges(pred):
        """(test, successor) edges whose added facts satisfy pred."""
        out = []
        for t in c.nodes:
            if t.kind == "test":
                for m, l in t.succ:
                    lab = l
                    if l == "back":
                        others = {x for _m, x in t.succ if x in ("T", "F")}
                        lab = "F" if others == {"T"} else "T" if others == {"F"} else None
                    if lab in ("T", "F") and pred(atoms_of_test(t.ast, lab == "T")):
                        out.append((t, m))
        return out
    lic = edges(lambda at: bool(at & ok_codes))
    retry_t = edges(lambda at: any("_can_retry(" in a_[0] and a_[1] == "truthy" for a_ in at))
    retry_f = edges(lambda at: any("_can_retry(" in a_[0] and a_[1] == "falsy" for a_ in at))
    ctx.anchor(bool(lic) and bool(retry_t) and bool(retry_f), "tests on the reply code and on _can_retry in handle_response")

    def region(starts, cut_edges, avoid=()):
        seen, work = set(), list(starts)
        ce = {(id(t_), id(m_)) for t_, m_ in cut_edges}
        while work:
            n_ = work.pop()
            if n_ in seen or n_ in avoid:
                continue
            seen.add(n_)
            for m_, l_ in n_.succ:
                if l_ == "exc" or (id(n_), id(m_)) in ce:
                    continue
                work.append(m_)
        return seen
    unlicensed = region([c.entry], lic)
    n_done = n_other = 0
    for e in ev:
        kind = call_attr(e.ast)
        if kind in ("done",):
            n_done += 1
            ctx.ob(R, fi, e, e not in unlicensed, f"`{unparse(e.ast)[:50]}` can acknowledge the batch without the reply code having been found to be NoError / "
                                                  "DuplicateSequenceNumber", text="ack-only-on-success:" + kind)
        elif kind in ("failure", "append"):
            n_other += 1
            via_ok = any(e in region([m_], [], avoid=heads) for _t, m_ in lic)
            wrong = retry_t if kind == "failure" else retry_f
            via_wrong = any(e in region([m_], [], avoid=heads) for _t, m_ in wrong)
            right = retry_f if kind == "failure" else retry_t
            needs = e not in region([c.entry], right)
            ctx.ob(R, fi, e, not via_ok and not via_wrong and needs,
                   f"`{unparse(e.ast)[:50]}`: {'reachable for a successful reply code; ' if via_ok else ''}{'reachable on the wrong side of _can_retry; ' if via_wrong else ''}"
                   f"{'' if needs else 'reachable without _can_retry having decided'}", text="error-arm:" + kind)
    ctx.anchor(n_done >= 1 and n_other >= 2, "done / failure / re-enqueue arms of handle_response")


def rule_classify(ctx):
    R = "classify"
    ctx.rep.rule(R, "SendProduceReqHandler: on every path through the per-batch loops of do() and handle_response() a batch "
                    "gets exactly one of done / done_noack / failure / queued-for-reenqueue (or is skipped because the "
                    "response names a partition that was not sent); requeued batches are re-enqueued before do() returns; "
                    "reenqueue is called from nowhere else")
    _produce_effects(ctx, R)
    total = 0
    for q in (f"{HANDLER}.do", f"{HANDLER}.handle_response"):
        fi = ctx.fn(q)
        c = ctx.cfg(fi)
        ev = _resolution_events(c)
        total += len(ev)
        loops = {}
        for e in ev:
            ls = c.enclosing(e, types=(ast.For,), role="body")
            ctx.ob(R, fi, e, bool(ls), "batch resolution outside a per-batch loop", text="in-loop:" + e.text())
            if ls:
                loops.setdefault(id(ls[0][0]), ls[0][0])
        for la in loops.values():
            head = c.loop_head(la)
            nxt = [n for n in c.nodes if n.kind == "fornext" and n.ast is la][0]
            starts = [m for m, l in nxt.succ if l == "T"]
            for st in starts:
                paths = enum_paths(c, st, [head], exc=False)
                ctx.anchor(bool(paths), f"paths through loop at line {la.lineno}")
                for p in paths:
                    k = [n for n in p if n in ev]
                    skipped = [n for n in p if n.kind == "continue"]
                    ok_skip = bool(skipped) and all(_none_guarded(c, s) for s in skipped)
                    if not ok_skip:
                        # the skip written without `continue`: the path takes the `is None` arm of a test (no batch was sent for that
                        # partition) and does nothing else
                        seq = list(p) + ([head] if not p or p[-1] is not head else [])
                        for i_, (a, b) in enumerate(zip(seq, seq[1:])):
                            if a.kind == "test":
                                x, xn = is_none_test(a.ast), is_none_test(a.ast, negate=True)
                                lab = [l for m, l in a.succ if m is b]
                                # (a back edge to the loop head is labelled `back`: it is the arm that is not the other label)
                                others = {l for m, l in a.succ if m is not b and l != "exc"}
                                took_t = "T" in lab or ("back" in lab and others == {"F"})
                                took_f = "F" in lab or ("back" in lab and others == {"T"})
                                if (x is not None and took_t) or (xn is not None and took_f):
                                    ok_skip = not any(n.kind in ("call", "await") for n in seq[i_ + 1:])
                    good = len(k) == 1 or (len(k) == 0 and ok_skip)   # a `continue` after the single resolution is the guard-clause form
                    if not good:
                        ctx.ob(R, fi, la, False,
                               f"path {[n.lineno for n in p if n.kind in ('test', 'call', 'continue')]} resolves the batch {len(k)} times", text=f"loop@{unparse(la.iter)}")
                        break
                else:
                    ctx.ob(R, fi, la, True, text=f"loop@{unparse(la.iter)}")
    if total < 6:
        raise AnalysisError(f"classify: only {total} resolution events found (floor 6)")
    # the loops cover all batches of the request
    fi = ctx.fn(f"{HANDLER}.do")
    c = ctx.cfg(fi)
    for la in {id(a): a for e in _resolution_events(c) for a, r in c.enclosing(e, types=(ast.For,), role="body")[:1]}.values():
        ctx.ob(R, fi, la, unparse(la.iter) in ("self._batches.values()", "self._batches.items()"),
               f"loop iterates {unparse(la.iter)}, not every batch of the request", text="covers-all:" + unparse(la.iter))
    # requeue happens before do() returns, on every normal path once _to_reenqueue is non-empty
    rq = c.calls(attr="reenqueue")
    ctx.ob(R, fi, fi.node, len(rq) >= 1, "do() never re-enqueues", text="reenqueue-exists")
    for r in rq:
        ls = c.enclosing(r, types=(ast.For,), role="body")
        ctx.ob(R, fi, r, bool(ls) and unparse(ls[0][0].iter) == "self._to_reenqueue" and unparse(arg_of(r.ast, 0)) == unparse(ls[0][0].target),
               "reenqueue is not applied to every batch of _to_reenqueue", text="reenqueue-loop")
    # every batch put on _to_reenqueue is handed back: no normal path of do() that appended to the list (itself or through
    # handle_response) ends without passing the re-enqueue loop.  Decided by exploring the CFG with the abstract state
    # (appended?, loop passed?, None-ness of locals): a guard on the list itself is exact, a guard on a local (`backoff is not None`) is
    # followed through the helper's returns; an expression other than None / a local / a summarised call is taken to be non-None.
    summ = {}
    for hn in ("handle_response", "handle_error"):
        try:
            hf = ctx.fn(f"{HANDLER}.{hn}")
        except AnalysisError:
            continue
        summ[hn] = {(a, v) for a, _r, v in _explore_requeue(ctx.cfg(hf), {}, as_summary=True)}
    outs = _explore_requeue(c, summ)
    bad = sorted({ln for a, r_, ln in outs if a and not r_})
    ctx.ob(R, fi, fi.node, not bad, f"do() can end (exit reached from line(s) {bad[:3]}) with batches on _to_reenqueue that were never re-enqueued: they are "
                                    "neither resolved nor retried", text="reenqueue-guard")
    # the per-partition / per-batch loops are not left early: every entry of the response (every batch of the request) is classified
    for hf in (fi, ctx.fn(f"{HANDLER}.handle_response")):
        hc = ctx.cfg(hf)
        loops = {id(a): a for e in _resolution_events(hc) for a, _r in hc.enclosing(e, types=(ast.For,), role="body")}
        outer = [l for l in loops.values() if not any(l is not o and any(x is l for x in ast.walk(o)) for o in loops.values())]
        for la in outer:
            early = [x for x in ast.walk(la) if isinstance(x, (ast.Return, ast.Break))]
            ctx.ob(R, hf, la, not early, f"the loop over {unparse(la.iter)} is left early at line {early[0].lineno if early else 0}: the remaining "
                                         "partitions' batches are neither acknowledged, failed nor re-enqueued", text="no-early-exit:" + unparse(la.iter))
    for cf, cn in ctx.callers("reenqueue"):
        ctx.ob(R, cf, cn, cf.qualname == f"{HANDLER}.do", f"reenqueue called from {cf.qualname}", text="reenqueue-caller")
    # exception arm catches every KafkaError of the send
    send = [n for n in c.nodes if n.kind == "await" and isinstance(n.ast, ast.Await) and isinstance(n.ast.value, ast.Call) and call_attr(n.ast.value) == "send"]
    send = ctx.one(send, "await self._client.send in SendProduceReqHandler.do")
    hs = [m for m, l in send.succ if l == "exc" and m.kind == "handler"]
    ctx.ob(R, fi, send, any("KafkaError" in unparse(h.ast.type) for h in hs if h.ast.type is not None),
           "send errors are not caught as KafkaError", text="send-handler")


def _none_guarded(c, cont):
    for t in c.nodes:
        if t.kind == "test" and is_none_test(t.ast) is not None and c.dominated_by_branch(t, "T", cont):
            return True
    return False


def _explore_requeue(c, summ, as_summary=False):
    """Outcomes (appended, passed_requeue_loop, x) of the normal paths of a handler method; x is the return value's None-ness
    ('N', 'V', 'U') -- for a summary -- paired with the line the exit was reached from."""
    outs = set()
    seen = set()
    todo = [(c.entry, False, False, frozenset())]

    def val(e, env):
        if e is None or (isinstance(e, ast.Constant) and e.value is None):
            return "N"
        if isinstance(e, ast.Name):
            return dict(env).get(e.id, "U")
        if isinstance(e, (ast.BoolOp, ast.IfExp)):
            return "U"
        return "V"

    def summarised(e):
        if isinstance(e, ast.Await):
            e = e.value
        if isinstance(e, ast.Call) and isinstance(e.func, ast.Attribute) and unparse(e.func.value) == "self" and e.func.attr in summ:
            return summ[e.func.attr]
        return None

    while todo:
        st = todo.pop()
        if st in seen:
            continue
        seen.add(st)
        n, a, r, env = st
        nexts = [(m, l) for m, l in n.succ if not (l == "exc" and m.kind != "handler")]
        forks = [(a, r, env)]
        if n.kind == "call" and call_attr(n.ast) == "append" and unparse(n.ast.func.value) == "self._to_reenqueue":
            forks = [(True, r, env)]
        elif n.kind == "call" and summarised(n.ast) is not None and not (isinstance(n.stmt, (ast.Assign, ast.Return)) and n.stmt.value in (n.ast,)):
            forks = [(a or a2, r, env) for a2, _v in summarised(n.ast)]
        elif n.kind == "foriter" and unparse(n.ast.iter) == "self._to_reenqueue" and any(isinstance(x, ast.Call) and call_attr(x) == "reenqueue" for x in ast.walk(n.ast)):
            forks = [(a, True, env)]
        elif n.kind == "store" and isinstance(n.ast, ast.Name) and isinstance(n.stmt, ast.Assign) and len(n.stmt.targets) == 1 and n.stmt.targets[0] is n.ast:
            sm = summarised(n.stmt.value)
            if sm is not None:
                forks = [(a or a2, r, frozenset({**dict(env), n.ast.id: v}.items())) for a2, v in sm]
            else:
                forks = [(a, r, frozenset({**dict(env), n.ast.id: val(n.stmt.value, env)}.items()))]
        elif n.kind == "store" and isinstance(n.ast, ast.Name):
            forks = [(a, r, frozenset({**dict(env), n.ast.id: "U"}.items()))]
        elif n.kind == "return":
            sm = summarised(n.ast.value) if n.ast.value is not None else None
            for a2, v in (sm if sm is not None else [(False, val(n.ast.value, env))]):
                outs.add((a or a2, r, v if as_summary else n.lineno))
            continue
        if n.kind == "test":
            t = n.ast
            neg = False
            while isinstance(t, ast.UnaryOp) and isinstance(t.op, ast.Not):
                t, neg = t.operand, not neg
            feas = {"T", "F"}
            if unparse(t) == "self._to_reenqueue":
                feas = {"T"} if a else {"F"}
            elif isinstance(t, ast.Name) and dict(env).get(t.id) == "N":
                feas = {"F"}
            elif is_none_test(t) is not None and isinstance(is_none_test(t), ast.Name):
                v = dict(env).get(is_none_test(t).id, "U")
                feas = {"T"} if v == "N" else {"F"} if v == "V" else {"T", "F"}
            elif is_none_test(t, negate=True) is not None and isinstance(is_none_test(t, negate=True), ast.Name):
                v = dict(env).get(is_none_test(t, negate=True).id, "U")
                feas = {"F"} if v == "N" else {"T"} if v == "V" else {"T", "F"}
            if neg:
                feas = {{"T": "F", "F": "T"}[x] for x in feas}
            nexts = [(m, l) for m, l in nexts if l not in ("T", "F") or l in feas]
        for a2, r2, env2 in forks:
            for m, _l in nexts:
                if m.kind == "exit":
                    outs.add((a2, r2, "N" if as_summary else n.lineno))
                elif m.kind != "raise_exit":
                    todo.append((m, a2, r2, env2))
    return outs


def _falls_to_exit_only(c, t):
    f = [m for m, l in t.succ if l == "F"]
    r = c.reachable(f, exc=False, include_src=True)
    return not any(n.kind in ("call", "await") for n in r)


def rule_no_expire(ctx):
    R = "no-expire-idempotent"
    ctx.rep.rule(R, "every place that gives up on a batch because expired() is true is reachable only when there is no "
                    "transaction manager (idempotent producers never expire a batch: it would fail an accepted record on a "
                    "retriable fault and burn sequence numbers)")
    sites = []
    for cf, cn in ctx.callers("expired"):
        sites.append((cf, cn))
    ctx.floor(sites, 2, "expired() call sites")
    for cf, cn in sites:
        c = ctx.cfg(cf)
        node = [n for n in c.nodes if n.kind == "call" and n.ast is cn.ast]
        node = ctx.one(node, "expired() node")
        # a guard fact, however the test is spelled (`x is None and expired()`, or an early return on `x is not None` before it)
        from ..rulekit import must_facts
        ok = any(a[0].endswith("_txn_manager") and a[1] == "is" and a[2] == "None" for a in must_facts(c)[node])
        ctx.ob(R, cf, node, ok, f"{cf.name}: batch expiry applies to idempotent/transactional producers too", text="expiry-guard")



def rule_errno_unique(ctx, R):
    """for_code() maps a reply's error code through `{x.errno: x for x in subclasses}`: two classes with one errno make the code resolve to
    whichever is defined last, with that class's `retriable` flag -- every code a handler classifies must belong to one class."""
    mod = ctx.repo.module("aiokafka.errors")
    by = {}
    n = 0
    for st in mod.tree.body:
        if isinstance(st, ast.ClassDef):
            for b in st.body:
                if isinstance(b, ast.Assign) and len(b.targets) == 1 and unparse(b.targets[0]) == "errno" and isinstance(const_value(b.value), int):
                    by.setdefault(const_value(b.value), []).append((st.name, st.lineno))
                    n += 1
    ctx.anchor(n >= 60, f"error classes with an errno in aiokafka.errors: {n} < 60")
    # the table is built over ALL subclasses: a subclass that does not declare an errno of its own inherits its parent's and takes the
    # parent's place in the table (children are visited after their parent), although handlers compare reply classes by identity
    classes = {st.name: st for st in mod.tree.body if isinstance(st, ast.ClassDef)}

    def own_errno(c_):
        for b in c_.body:
            if isinstance(b, ast.Assign) and len(b.targets) == 1 and unparse(b.targets[0]) == "errno" and isinstance(const_value(b.value), int):
                return const_value(b.value)
        return None

    def eff_errno(name, depth=0):
        c_ = classes.get(name)
        if c_ is None or depth > 8:
            return None
        e = own_errno(c_)
        if e is not None:
            return e
        for b in c_.bases:
            e = eff_errno(unparse(b), depth + 1)
            if e is not None:
                return e
        return None
    for name, c_ in classes.items():
        if own_errno(c_) is None:
            e = eff_errno(name)
            if e is not None:
                by.setdefault(e, []).append((name + " (inherited)", c_.lineno))
    dup = {k: v for k, v in by.items() if len(v) > 1}
    ctx.rep.ob(R, f"{mod.relpath}:{min(l for v in dup.values() for _n, l in v) if dup else 1} aiokafka.errors", "aiokafka.errors|errno-unique", not dup,
               f"error codes declared by more than one class: { {k: [n_ for n_, _l in v] for k, v in sorted(dup.items())} } -- for_code() resolves such a code to the class "
               "defined last, with that class's retriable flag (a retriable reply is failed, or a fatal one retried)")
    tab = [st for st in mod.tree.body if isinstance(st, ast.Assign) and unparse(st.targets[0]) == "kafka_errors"]
    ok = len(tab) == 1 and unparse(tab[0].value) == "{x.errno: x for x in _iter_subclasses(BrokerResponseError)}"
    ff = ctx.fn("aiokafka.errors.for_code")
    ok = ok and "kafka_errors.get(error_code, UnknownError)" in unparse(ff.node)
    ctx.rep.ob(R, f"{mod.relpath}:{ff.node.lineno} aiokafka.errors.for_code", "aiokafka.errors.for_code|table", ok, "for_code is not the errno -> class table of all BrokerResponseError subclasses")


def rule_retriable_table(ctx):
    R = "retriable-table"
    ctx.rep.rule(R, "the faults C01 names are classified retriable; _can_retry returns exactly error.retriable past the expiry guard; "
                    "a retriable reply leads to the re-enqueue arm")
    names = ["UnknownTopicOrPartitionError", "LeaderNotAvailableError", "NotLeaderForPartitionError", "RequestTimedOutError",
             "NotEnoughReplicasError", "NotEnoughReplicasAfterAppendError", "KafkaConnectionError", "NodeNotReadyError"]
    errno = {"UnknownTopicOrPartitionError": 3, "LeaderNotAvailableError": 5, "NotLeaderForPartitionError": 6,
             "RequestTimedOutError": 7, "NotEnoughReplicasError": 19, "NotEnoughReplicasAfterAppendError": 20}
    mod = ctx.repo.module("aiokafka.errors")
    for nm in names:
        ci = [x for x in ctx.repo.classes_by_name.get(nm, []) if x.module is mod]
        ctx.anchor(len(ci) == 1, f"error class {nm}")
        v = class_attr(ctx.repo, "aiokafka.errors", nm, "retriable")
        ctx.rep.ob(R, f"{mod.relpath}:{ci[0].node.lineno} {nm}", f"{nm}|retriable", v is not None and const_value(v) is True,
                   f"{nm}.retriable is {unparse(v) if v is not None else None}")
        if nm in errno:
            e = class_attr(ctx.repo, "aiokafka.errors", nm, "errno")
            ctx.rep.ob(R, f"{mod.relpath}:{ci[0].node.lineno} {nm}", f"{nm}|errno", e is not None and const_value(e) == errno[nm],
                       f"{nm}.errno is {unparse(e) if e is not None else None}, Kafka says {errno[nm]}")
    rule_errno_unique(ctx, R)
    for nm in ("OutOfOrderSequenceNumber", "DuplicateSequenceNumber", "InvalidProducerEpoch", "ProducerFenced"):
        v = class_attr(ctx.repo, "aiokafka.errors", nm, "retriable")
        ctx.rep.ob(R, f"{mod.relpath} {nm}", f"{nm}|not-retriable", v is not None and const_value(v) is False,
                   f"{nm} must not be retried (would re-send with a stale sequence/epoch)")
    fi = ctx.fn(f"{HANDLER}._can_retry")
    c = ctx.cfg(fi)
    rets = [n for n in c.nodes if n.kind == "return"]
    ps = fi.params()
    for r in rets:
        v = r.ast.value
        if const_value(v) is False and isinstance(v, ast.Constant):
            t = [x for x in c.nodes if x.kind == "test" and isinstance(x.ast, ast.Call) and call_attr(x.ast) == "expired"]
            ctx.ob(R, fi, r, any(c.dominated_by_branch(x, "T", r) for x in t), "_can_retry refuses a retry for a reason other than expiry", text="ret-false")
        else:
            ctx.ob(R, fi, r, isinstance(v, ast.Attribute) and v.attr == "retriable" and isinstance(v.value, ast.Name) and v.value.id == ps[1],
                   f"_can_retry returns {unparse(v)} instead of error.retriable", text="ret-retriable")
    ctx.ob(R, fi, fi.node, any(isinstance(r.ast.value, ast.Attribute) for r in rets), "_can_retry never consults error.retriable", text="has-retriable")
    # in both arms the decision between failure and re-enqueue is `_can_retry(err, batch)`
    for q in (f"{HANDLER}.do", f"{HANDLER}.handle_response"):
        f2 = ctx.fn(q)
        c2 = ctx.cfg(f2)
        tests = [t for t in c2.nodes if t.kind == "test" and isinstance(t.ast, ast.Call) and call_attr(t.ast) == "_can_retry"]
        ctx.ob(R, f2, f2.node, len(tests) >= 1, "no _can_retry decision", text="can-retry-test")
        for t in tests:
            tb = c2.reachable([m for m, l in t.succ if l == "T"], exc=False, include_src=True)
            fb = c2.reachable([m for m, l in t.succ if l == "F"], exc=False, include_src=True)
            app = [n for n in _resolution_events(c2) if call_attr(n.ast) == "append"]
            fl = [n for n in _resolution_events(c2) if call_attr(n.ast) == "failure"]
            okT = any(c2.dominated_by_branch(t, "T", a) for a in app) and not any(c2.dominated_by_branch(t, "T", f) for f in fl)
            okF = any(c2.dominated_by_branch(t, "F", f) for f in fl) and not any(c2.dominated_by_branch(t, "F", a) for a in app)
            ctx.ob(R, f2, t, okT and okF, "_can_retry true must lead to re-enqueue and false to failure", text="can-retry-arms")
            a1 = arg_of(t.ast, 1)
            # the batch tested is the batch resolved
            for n in app + fl:
                if c2.dominates(t, n):
                    tgt = unparse(arg_of(n.ast, 0)) if call_attr(n.ast) == "append" else dotted(n.ast.func.value)
                    ctx.ob(R, f2, n, a1 is not None and tgt == unparse(a1), "retry decision and resolution concern different batches", text="same-batch:" + call_attr(n.ast))


def rule_seq_wrap(ctx):
    R = "seq-wrap"
    ctx.rep.rule(R, "interval: increment_sequence_number maps seq in [0,2^31-1], increment in [1,2^31-1] into [0,2^31-1] "
                    "(Kafka's wrap-around rule)")
    fi = ctx.fn(f"{TXN}.increment_sequence_number")
    ps = fi.params()
    env = {ps[2]: interval.Iv(1, 2**31 - 1)}
    sub = {"self._sequence_numbers[%s]" % ps[1]: interval.Iv(0, 2**31 - 1)}
    res = interval.run_function(fi.node, env, sub, track_store="self._sequence_numbers[%s]" % ps[1])
    ctx.anchor(res.stored is not None, "increment_sequence_number stores the counter")
    ok = res.stored.lo >= 0 and res.stored.hi <= 2**31 - 1
    ctx.ob(R, fi, fi.node, ok, f"stored sequence ranges over [{res.stored.lo}, {res.stored.hi}], outside 0..2^31-1", text="range")


def run(ctx):
    rep = ctx.rep
    rep.explanation = ("C01 structural clauses: mute/unmute pairing around the produce round-trip with no suspension point "
                       "between drain and mute, drain guards, FIFO discipline of the partition deque, once-only sequence stamping, "
                       "exhaustive classification of produce outcomes, retriable-fault table, no expiry for idempotent producers, "
                       "interval check of the sequence wrap. Each rule is decided on the CFG / who-writes index of the current tree.")
    rule_mute_pair(ctx)
    rule_mute_flow(ctx)
    rule_drain_guard(ctx)
    rule_fifo(ctx)
    rule_seq_once(ctx)
    rule_classify(ctx)
    rule_no_expire(ctx)
    rule_retriable_table(ctx)
    rule_seq_wrap(ctx)
    from .common import rule_client_send_errors_retriable
    rule_client_send_errors_retriable(ctx, "retriable-table")
    from .common import rule_instance_state
    rule_instance_state(ctx, ("aiokafka.producer.",))
    rep.nd("the resulting broker log order / exactly-once count under arbitrary fault sequences (history property)")
    rep.nd("correctness of leader routing beyond `leader_for_partition(tp)` being the node the batch is filed under")
