"""Obligation bookkeeping, known findings, evidence and exit codes."""
from __future__ import annotations

import json
import os
import sys
import time

VERIF = os.path.dirname(os.path.dirname(os.path.abspath(__file__)))
KNOWN = os.path.join(VERIF, "known_findings.json")


def load_known():
    if not os.path.exists(KNOWN):
        return []
    with open(KNOWN) as f:
        data = json.load(f)
    return data.get("findings", [])


class Report:
    def __init__(self, pid, tier, repo_root, seed=0):
        self.pid = pid
        self.tier = tier
        self.repo_root = repo_root
        self.seed = seed
        self.t0 = time.time()
        self.obligations = []  # dict(rule, site, key, ok, detail)
        self.notes = []
        self.not_decided = []
        self.rules = {}
        self.functions = set()
        self.cfg_nodes = 0
        self.assumptions = []
        self.explanation = ""
        self.extra = {}
        self.known = [k for k in load_known() if k.get("property") == pid]
        self.unresolved_calls = 0
        self.resolved_calls = 0

    # -- recording ----------------------------------------------------------
    def rule(self, rid, text):
        self.rules[rid] = text

    def ob(self, rule, site, key, ok, detail=""):
        if rule not in self.rules:
            self.rules[rule] = ""
        self.obligations.append(
            {"rule": rule, "site": site, "key": f"{rule}|{key}", "ok": bool(ok),
             "detail": detail}
        )
        return bool(ok)

    def note(self, text):
        self.notes.append(text)

    def nd(self, text):
        self.not_decided.append(text)

    # -- verdict ------------------------------------------------------------
    def finish(self):
        viol, known_hits = [], []
        open_known = {k["key"]: k for k in self.known if k.get("status", "open") == "open"}
        seen_keys = set()
        for o in self.obligations:
            if o["ok"]:
                continue
            if o["key"] in open_known:
                if o["key"] not in seen_keys:
                    known_hits.append((o, open_known[o["key"]]))
                seen_keys.add(o["key"])
                o["known"] = True
            else:
                viol.append(o)
        wall = time.time() - self.t0
        n_ob = len(self.obligations)
        n_ok = sum(1 for o in self.obligations if o["ok"])
        per_rule = {}
        for o in self.obligations:
            r = per_rule.setdefault(o["rule"], {"obligations": 0, "discharged": 0})
            r["obligations"] += 1
            r["discharged"] += 1 if o["ok"] else 0
        samples = []
        seen_rules = set()
        for o in self.obligations:
            if o["rule"] not in seen_rules or not o["ok"]:
                seen_rules.add(o["rule"])
                samples.append(
                    {"rule": o["rule"], "site": o["site"], "verdict": "holds" if o["ok"] else
                     ("known-finding" if o.get("known") else "VIOLATED"),
                     "detail": o["detail"][:300]}
                )
        samples = samples[:80]
        replay_paths = []
        if viol:
            rdir = os.environ.get("VERIF_REPLAY_DIR") or os.path.join(VERIF, "replay")
            os.makedirs(rdir, exist_ok=True)
            for i, o in enumerate(viol):
                p = os.path.join(rdir, f"{self.pid}-{i}.json")
                with open(p, "w") as f:
                    json.dump({"property": self.pid, "rule": o["rule"], "key": o["key"],
                               "site": o["site"], "detail": o["detail"],
                               "rule_text": self.rules.get(o["rule"], "")}, f, indent=1)
                replay_paths.append(p)
        stale_known = [k for k in open_known if k not in seen_keys]
        ev = {
            "property_id": self.pid,
            "tier": self.tier,
            "seed": self.seed,
            "level": "other",
            "coverage": {
                "explanation": self.explanation
                or "static rules decided on the current working tree; see rules/obligations",
                "obligations": n_ob,
                "discharged": n_ok,
                "evaluations": max(self.cfg_nodes, 1),
                "distinct_nontrivial": len({o["key"] for o in self.obligations}),
                "rule": "evaluations = program points (CFG nodes) of the functions analysed by this run; one obligation = one rule "
                        "instance at one named construct (file:line function, node text); distinct_nontrivial = distinct (rule, construct) keys",
                "samples": samples,
                "rules": {r: {"text": self.rules[r], **per_rule.get(r, {"obligations": 0, "discharged": 0})}
                          for r in self.rules},
                "functions_analysed": sorted(self.functions),
                "cfg_nodes": self.cfg_nodes,
                "calls_resolved": self.resolved_calls,
                "calls_unresolved": self.unresolved_calls,
                "known_findings_hit": [k["key"] for _, k in known_hits],
                "known_findings_not_reproduced": stale_known,
                "not_decided": self.not_decided,
                "notes": self.notes[:60],
                "exhaustive": False,
                "repo_root": self.repo_root,
                **self.extra,
            },
            "assumptions": self.assumptions
            or ["ast/Cython parsers represent the source faithfully",
                "asyncio runs coroutine steps atomically between suspension points",
                "implicit exceptions are modelled at call/await/yield nodes only"],
            "wall_s": round(wall, 3),
            "violations": len(viol),
        }
        # evidence of a run against a scratch tree (seed evaluation, self-test) must not replace the evidence of /repo
        edir = os.environ.get("VERIF_EVIDENCE_DIR") or os.path.join(VERIF, "evidence")
        os.makedirs(edir, exist_ok=True)
        with open(os.path.join(edir, f"{self.pid}.json"), "w") as f:
            json.dump(ev, f, indent=1, sort_keys=False)
        print(f"[{self.pid}] tier={self.tier} rules={len(self.rules)} obligations={n_ob} "
              f"discharged={n_ok} functions={len(self.functions)} cfg_nodes={self.cfg_nodes} "
              f"wall={wall:.2f}s")
        for r, c in per_rule.items():
            print(f"  rule {r}: {c['discharged']}/{c['obligations']}")
        for o, k in known_hits:
            print(f"KNOWN-FINDING: property={self.pid} {k.get('what', o['detail'])} [{o['key']}]")
        for k in stale_known:
            print(f"  note: known finding not reproduced on this tree: {k}")
        for o, p in zip(viol, replay_paths):
            print(f"  FAIL {o['rule']} at {o['site']}: {o['detail']}")
            print(f"VIOLATION property={self.pid} replay={p}")
        sys.stdout.flush()
        return 1 if viol else 0
