"""C12 -- responses reach exactly their requests; connection failure fails all waiters."""
from __future__ import annotations

import ast

from ..loader import AnalysisError, call_attr, call_name, dotted, unparse
from ..rulekit import arg_of, const_value, def_value, is_none_test, local_defs
from .. import interval

CONN = "aiokafka.conn.AIOKafkaConnection"
CLIENT = "aiokafka.client.AIOKafkaClient"


def rule_queue(ctx):
    R = "queue"
    ctx.rep.rule(R, "the in-flight queue: appended only in send/_send_sasl_token (after the bytes were handed to the writer, no suspension "
                    "in between: send order = queue order), popped only in _handle_frame, reset only in close; the entry is (correlation id put "
                    "in the header, the struct that was encoded, the future that is returned)")
    allowed = {(f"{CONN}.__init__", "store"), (f"{CONN}.send", ".append"), (f"{CONN}._send_sasl_token", ".append"), (f"{CONN}._handle_frame", ".popleft"), (f"{CONN}.close", "store")}
    seen = set()
    for wf, wn, how in ctx.attr_writers_of("_requests", "AIOKafkaConnection", fields=("conn", "_conn")):
        seen.add((wf.qualname, how))
        ctx.ob(R, wf, wn, (wf.qualname, how) in allowed, f"{wf.qualname} mutates the in-flight queue with {how}", text="writer:" + how)
    for need in sorted(allowed):
        f = ctx.fn(need[0])
        ctx.ob(R, f, f.node, need in seen, f"{need[0]} no longer does {need[1]} on _requests", text="required:" + need[1] + ":" + f.name)
    # the queue never drops an entry by itself: every value stored is an unbounded empty container (a deque with maxlen discards the HEAD
    # entry on append -- the oldest waiter -- and every later reply is matched against the wrong request)
    for wf, wn, how in ctx.attr_writers_of("_requests", "AIOKafkaConnection", fields=("conn", "_conn")):
        if how != "store":
            continue
        v = wn.stmt.value if isinstance(wn.stmt, ast.Assign) else None
        okv = isinstance(v, ast.Call) and unparse(v.func) in ("collections.deque", "deque", "list") and not v.args and not v.keywords or (isinstance(v, ast.List) and not v.elts)
        ctx.ob(R, wf, wn, okv, f"the in-flight queue is created as `{unparse(v)[:50] if v is not None else '?'}`: it must be an empty, UNBOUNDED queue", text="unbounded:" + wf.name)
    for m in ("send", "_send_sasl_token"):
        fi = ctx.fn(f"{CONN}.{m}")
        c = ctx.cfg(fi)
        ctx.ob(R, fi, fi.node, not fi.is_async and not ctx.suspension_nodes(fi), f"{m} can be suspended between writing and queuing (pipelined requests could queue out of order)", text=f"{m}:sync")
        wr = [n for n in c.calls(attr="write") if unparse(n.ast.func.value) == "self._writer"]
        ap = [n for n in c.calls(attr="append") if unparse(n.ast.func.value) == "self._requests"]
        ok = len(wr) == 1 and len(ap) == 1 and c.dominates(wr[0], ap[0])
        ctx.ob(R, fi, fi.node, ok, f"{m}: the request is queued before / without being written", text=f"{m}:write-before-queue")
        if ok:
            rets = [r for r in c.nodes if r.kind == "return" and c.dominates(ap[0], r)]
            el = arg_of(ap[0].ast, 0)
            okr = len(rets) == 1 and isinstance(el, ast.Tuple) and len(el.elts) == 3 and isinstance(rets[0].ast.value, ast.Call) and call_name(rets[0].ast.value) == "wait_for" \
                and unparse(arg_of(rets[0].ast.value, 0)) == unparse(el.elts[2]) and unparse(arg_of(rets[0].ast.value, 1)) == "self._request_timeout"
            ctx.ob(R, fi, ap[0], okr, f"{m}: the future returned to the caller is not the queued one (with the request timeout)", text=f"{m}:returns-queued-future")
    # a request is queued exactly when a reply is expected: an unqueued request whose reply arrives would be matched with the NEXT
    # request's entry; a queued one without a reply would shift every later match
    from ..rulekit import must_facts
    for m in ("send", "_send_sasl_token"):
        fi = ctx.fn(f"{CONN}.{m}")
        c = ctx.cfg(fi)
        mf = must_facts(c)
        ap = [n for n in c.calls(attr="append") if unparse(n.ast.func.value) == "self._requests"]
        dr = [r for r in c.nodes if r.kind == "return" and isinstance(r.ast.value, ast.Call) and call_attr(r.ast.value) == "drain"]
        ok = len(ap) == 1 and ("expect_response", "truthy", "") in mf[ap[0]] and bool(dr) and all(("expect_response", "falsy", "") in mf[r] for r in dr)
        ctx.ob(R, fi, fi.node, ok, f"{m}: the request is not queued exactly when a reply is expected", text=f"{m}:queued-iff-reply-expected")
    fi = ctx.fn(f"{CONN}.send")
    c = ctx.cfg(fi)
    ap = [n for n in c.calls(attr="append") if unparse(n.ast.func.value) == "self._requests"]
    if len(ap) == 1 and isinstance(arg_of(ap[0].ast, 0), ast.Tuple):
        cid, rs, fut = [unparse(x) for x in arg_of(ap[0].ast, 0).elts]
        hd = ctx.one(c.calls(attr="build_request_header"), "build_request_header call")
        ok = unparse(arg_of(hd.ast, kw="correlation_id") or arg_of(hd.ast, 0)) == cid and dotted(hd.ast.func.value) == rs
        cd = local_defs(c, cid)
        ok = ok and len(cd) == 1 and unparse(def_value(cd[0])) == "self._next_correlation_id()"
        ctx.ob(R, fi, ap[0], ok, "the correlation id queued is not the fresh id put in the header of that same struct", text="same-correlation-id")
        rd = local_defs(c, rs)
        ok = len(rd) == 1 and unparse(def_value(rd[0])) == "request.prepare(self._versions)"
        ctx.ob(R, fi, ap[0], ok, "the struct queued (used later to parse the reply) is not the one negotiated for this connection", text="same-struct-prepared")
        md = local_defs(c, "message")
        ok = len(md) == 1 and unparse(def_value(md[0])) == f"header.encode() + {rs}.encode()"
        hdd = local_defs(c, "header")
        ok = ok and len(hdd) == 1 and hdd[0].stmt is hd.stmt
        ctx.ob(R, fi, ap[0], ok, "bytes written are not header + body of the queued struct", text="same-struct-encoded")
        sz = local_defs(c, "size")
        wr = [n for n in c.calls(attr="write") if unparse(n.ast.func.value) == "self._writer"]
        ok = len(sz) == 1 and unparse(def_value(sz[0])) == "struct.pack('>i', len(message))" and len(wr) == 1 and unparse(arg_of(wr[0].ast, 0)) == "size + message"
        ctx.ob(R, fi, fi.node, ok, "frame is not int32 length + message", text="framing")
    # write failure closes
    wr = [n for n in c.calls(attr="write") if unparse(n.ast.func.value) == "self._writer"]
    if wr:
        hs = [m for m, l in wr[0].succ if l == "exc" and m.kind == "handler"]
        ok = bool(hs) and all(any(n.kind == "call" and call_attr(n.ast) == "close" for n in c.reachable([h], exc=False)) and any(n.kind == "raise" for n in c.reachable([h], exc=False)) for h in hs)
        ctx.ob(R, fi, wr[0], ok, "a failed write does not close the connection and raise", text="write-failure")
    nt = [t for t in c.nodes if t.kind == "test" and is_none_test(t.ast) is not None and unparse(is_none_test(t.ast)) == "self._writer"]
    ctx.ob(R, fi, fi.node, bool(nt) and any(n.kind == "raise" and "KafkaConnectionError" in unparse(n.ast.exc) for n in c.reachable([m for m, l in nt[0].succ if l == "T"], include_src=True)), "send on a closed connection does not raise KafkaConnectionError", text="closed-raises")


def rule_one_stream(ctx, R="match"):
    """The reply's body starts where its header ended: header and body are read from ONE stream object, so whatever header form the request
    selected (v0: correlation id; v1 of flexible versions: correlation id + tagged fields) is consumed before the struct is decoded."""
    fi = ctx.fn(f"{CONN}._handle_frame")
    c = ctx.cfg(fi)
    ph = [n for n in c.calls(attr="parse_response_header")]
    dc = [n for n in c.calls(attr="decode") if not unparse(n.ast.func.value).startswith(("Int", "ResponseHeader", "struct"))]
    ctx.anchor(len(ph) == 1 and len(dc) >= 1, "parse_response_header / body decode in _handle_frame")
    a = arg_of(ph[0].ast, 0)
    ok, why = isinstance(a, ast.Name), f"the header is parsed from `{unparse(a)[:40]}`"
    if ok:
        ds = [d for d in local_defs(c, a.id) if c.path_exists(d, ph[0], exc=False)]
        dv = def_value(ds[0]) if len(ds) == 1 else None
        ok = isinstance(dv, ast.Call) and unparse(dv.func) in ("io.BytesIO", "BytesIO") and len(dv.args) == 1
        why = f"`{a.id}` is not a stream over the frame when the header is parsed (a bytes object is wrapped privately by the header parser: the body's start is then a guess)"
        for d in dc:
            b = arg_of(d.ast, 0)
            same = isinstance(b, ast.Name) and b.id == a.id and not any(c.path_exists(ph[0], x, exc=False) and c.path_exists(x, d, exc=False) for x in local_defs(c, a.id))
            if ok and not same:
                ok, why = False, f"the body is decoded from `{unparse(b)[:40]}`, not from the stream the header was read from: a flexible reply's tagged-field section is not skipped"
    ctx.ob(R, fi, ph[0], ok, f"_handle_frame: {why}", text="header-and-body-one-stream")


def rule_match(ctx):
    R = "match"
    ctx.rep.rule(R, "_handle_frame: the frame is matched against the head of the queue; every way to completing the head entry (resolving it or "
                    "just popping an abandoned one) passes the correlation-id comparison; a mismatch fails the future, closes the connection and "
                    "does not pop; done futures are skipped but still popped; the reply is parsed with the head request's header form and RESPONSE_TYPE")
    fi = ctx.fn(f"{CONN}._handle_frame")
    c = ctx.cfg(fi)
    hd = [s for s in c.nodes if s.kind == "stmt" and isinstance(s.ast, ast.Assign) and unparse(s.ast.value) in ("self._requests[0]", "self._requests.popleft()")]
    hd = ctx.one(hd, "head = self._requests[0]  (or popleft())")
    # the head entry must stay in the queue while anything that can still fail runs: close() fails exactly the queued futures
    pops0 = [n for n in c.calls(attr="popleft") if unparse(n.ast.func.value) == "self._requests"]
    risky = [n for n in c.nodes if n.kind == "call" and call_attr(n.ast) in ("parse_response_header", "decode")]
    ctx.anchor(len(risky) >= 2, "parse_response_header / decode calls in _handle_frame")
    late = [r for r in risky for p0 in pops0 if c.path_exists(p0, r, exc=False)]
    ctx.ob(R, fi, (pops0[0] if pops0 else fi.node), bool(pops0) and not late,
           "the head entry is removed from the in-flight queue before the reply has been parsed/decoded: when a malformed frame makes that step raise, "
           "close() no longer finds the waiter and it stays pending for ever", text="pop-after-decode")
    names = [unparse(x) for x in hd.ast.targets[0].elts] if isinstance(hd.ast.targets[0], ast.Tuple) else []
    ctx.anchor(len(names) == 3, "(correlation_id, request, fut) unpacking of the head entry")
    cid, req, fut = names
    pop = [n for n in c.calls(attr="popleft") if unparse(n.ast.func.value) == "self._requests"]
    ctx.ob(R, fi, fi.node, len(pop) == 1, f"{len(pop)} pops per frame", text="one-pop")
    from ..rulekit import none_tests
    st_ = none_tests(c, cid)
    if not st_:
        # a truthiness test is not an anchor loss but a defect: 0 is a legitimate correlation id (the counter wraps to it), None is the SASL marker
        tr = [t for t in c.nodes if t.kind == "test" and isinstance(t.ast, ast.Name) and t.ast.id == cid]
        if tr:
            ctx.ob(R, fi, tr[0], False, f"the SASL pass-through is selected by the truthiness of `{cid}`, not by `{cid} is None`: the request that carries correlation id 0 "
                                        "(after the counter wrapped) is answered with the raw frame and its id is never compared", text="sasl-iff-none")
            return
    ctx.anchor(len(st_) == 1, "`correlation_id is None` (SASL) test")
    sasl, SASL_T, SASL_F = st_[0]   # labels meaning `is None` (SASL packet) / `is not None` (a Kafka reply)
    ctests = [t for t in c.nodes if t.kind == "test" and "response_header.correlation_id" in unparse(t.ast)]
    mism = [t for t in ctests if isinstance(t.ast, ast.Compare) and isinstance(t.ast.ops[0], (ast.NotEq, ast.Eq)) and {unparse(t.ast.left), unparse(t.ast.comparators[0])} == {"response_header.correlation_id", cid}]
    ctx.ob(R, fi, fi.node, len(mism) == 1, "no comparison of the reply's correlation id with the head request's", text="has-comparison")
    nonsasl = [m for m, l in sasl.succ if l == SASL_F]
    # An edge out of a test *licenses* delivery when, with it, the facts on every path say either that the ids are equal or that this
    # is the 0.8.2 FindCoordinator quirk (reply id 0 to a non-zero request id) -- nothing weaker.
    from ..rulekit import must_facts, atoms_of_test
    mf = must_facts(c)
    rh = "response_header.correlation_id"

    def licensed(facts):
        eq = (rh, "==", cid) in facts or (cid, "==", rh) in facts
        quirk = ("resp_type", "is", "FindCoordinatorResponse_v0") in facts and ((cid, "!=", "0") in facts or ("0", "!=", cid) in facts) \
            and ((rh, "==", "0") in facts or ("0", "==", rh) in facts)
        return eq or quirk

    def unlicensed_region(starts):
        seen, work = set(), list(starts)
        while work:
            n = work.pop()
            if n in seen:
                continue
            seen.add(n)
            for m, l in n.succ:
                if n.kind == "test" and l in ("T", "F") and licensed(mf[n] | atoms_of_test(n.ast, l == "T")):
                    continue
                work.append(m)
        return seen
    unl = unlicensed_region(nonsasl)
    if pop:
        ok = pop[0] not in unl
        ctx.ob(R, fi, pop[0], ok, "the head entry can be completed/popped without the correlation id of the frame being compared (e.g. when its waiter "
                                  "was cancelled or timed out): a desynchronised stream goes unnoticed", text="pop-after-comparison")
    sr = [n for n in c.calls(attr="set_result") if dotted(n.ast.func.value) == fut]
    # the waiter of the head entry is answered before the entry is removed: from the arm on which its future is still pending the pop
    # is unreachable without set_result / set_exception on that future
    dn = [t for t in c.nodes if t.kind == "test" and unparse(t.ast) == f"{fut}.done()"]
    resolved = set(sr) | {n for n in c.calls(attr="set_exception") if dotted(n.ast.func.value) == fut}
    ctx.anchor(len(dn) >= 2, f"`{fut}.done()` tests in _handle_frame")
    if pop:
        for t in dn:
            pend = [m for m, l in t.succ if l == "F"]
            ok = pop[0] not in c.reachable(pend, avoid=resolved, exc=False, include_src=True)
            ctx.ob(R, fi, t, ok, "the head entry can be removed while its (still pending) waiter was neither given the reply nor failed: the caller waits until its timeout",
                   text="answered-before-pop")
    for s in sr:
        if c.dominated_by_branch(sasl, SASL_T, s):
            continue
        ok = s not in unl
        ctx.ob(R, fi, s, ok, "a waiter can receive a reply whose correlation id was not compared", text="result-after-comparison")
    if len(mism) == 1:
        t = mism[0]
        bad = "T" if isinstance(t.ast.ops[0], ast.NotEq) else "F"
        bsucc = [m for m, l in t.succ if l == bad]
        bb = unlicensed_region(bsucc)
        cl = [n for n in bb if n.kind == "call" and call_attr(n.ast) == "close" and dotted(n.ast.func.value) == "self"]
        se = [n for n in bb if n.kind == "call" and call_attr(n.ast) == "set_exception" and dotted(n.ast.func.value) == fut]
        # the unlicensed part of the mismatch arm: fails the waiter, closes, and cannot reach the normal exit without closing
        noclose = set()
        work = list(bsucc)
        while work:
            n = work.pop()
            if n in noclose or n in cl or n not in bb:
                continue
            noclose.add(n)
            work += [m for m, l in n.succ if l != "exc"]
        ok = bool(cl) and bool(se) and (not pop or pop[0] not in bb) and not any(n in bb for n in sr) and c.exit not in noclose
        ctx.ob(R, fi, t, ok, "a correlation mismatch does not fail the waiter, close the connection (failing all others) and stop", text="mismatch-closes")
        ctx.ob(R, fi, t, all("CorrelationIdError" in unparse(local_defs(c, unparse(arg_of(n.ast, 0)))[0].stmt.value) for n in se if isinstance(arg_of(n.ast, 0), ast.Name) and local_defs(c, unparse(arg_of(n.ast, 0)))), "mismatch error type", text="mismatch-error")
    # done futures: skipped but still popped
    for s in sr + [n for n in c.calls(attr="set_exception") if dotted(n.ast.func.value) == fut]:
        dt = [t for t in c.nodes if t.kind == "test" and isinstance(t.ast, ast.Call) and call_attr(t.ast) == "done" and dotted(t.ast.func.value) == fut]
        ctx.ob(R, fi, s, any(c.dominated_by_branch(t, "F", s) for t in dt), "resolution of a future that may already be done (timed out / cancelled)", text="not-done:" + call_attr(s.ast))
    if pop:
        dt = [t for t in c.nodes if t.kind == "test" and isinstance(t.ast, ast.Call) and call_attr(t.ast) == "done"]
        ctx.ob(R, fi, pop[0], not any(c.dominated_by_branch(t, "F", pop[0]) for t in dt), "an abandoned request is not popped: every later reply would be matched against the wrong request", text="pop-abandoned")
        # every normal exit that is not the mismatch arm pops
        ok = True
        avoid = set(pop)
        if len(mism) == 1:
            bad = "T" if isinstance(mism[0].ast.ops[0], ast.NotEq) else "F"
            avoid |= set(m for m, l in mism[0].succ if l == bad)
        ok = c.exit not in c.reachable([c.entry], avoid=avoid, exc=False)
        ctx.ob(R, fi, pop[0], ok, "a frame can be handled without popping the head entry", text="pop-on-every-path")
    # parsed with the head request
    ph = c.calls(attr="parse_response_header")
    ctx.ob(R, fi, fi.node, len(ph) == 1 and dotted(ph[0].ast.func.value) == req, "reply header is not parsed by the head request (flexible vs plain header form)", text="header-form")
    rt = local_defs(c, "resp_type")
    dc = [n for n in c.calls(attr="decode")]
    ok = len(rt) == 1 and unparse(def_value(rt[0])) == f"{req}.RESPONSE_TYPE" and any(dotted(n.ast.func.value) == "resp_type" for n in dc)
    ctx.ob(R, fi, fi.node, ok, "reply body is not decoded with the head request's RESPONSE_TYPE", text="response-type")
    for s in sr:
        if not c.dominated_by_branch(sasl, SASL_T, s):
            a = arg_of(s.ast, 0)
            ds = local_defs(c, unparse(a)) if isinstance(a, ast.Name) else []
            ctx.ob(R, fi, s, len(ds) == 1 and isinstance(def_value(ds[0]), ast.Call) and call_attr(def_value(ds[0])) == "decode", "waiter receives something other than the decoded reply", text="result-is-decoded")
    for cf, cn in ctx.callers("_handle_frame"):
        ctx.ob(R, cf, cn, cf.qualname == f"{CONN}._read", f"_handle_frame called from {cf.qualname}", text="caller")


def rule_close(ctx):
    R = "close-fails-all"
    ctx.rep.rule(R, "close(): every not-done future of the queue gets a KafkaConnectionError before the queue is replaced; the reader task is "
                    "cancelled; the close callback fires once; repeated close is a no-op for these steps")
    fi = ctx.fn(f"{CONN}.close")
    c = ctx.cfg(fi)
    se = [n for n in c.calls(attr="set_exception")]
    rs = [s for s in c.stores(attr="_requests")]
    ok = len(se) == 1 and len(rs) == 1
    if ok:
        la = c.enclosing(se[0], types=(ast.For,), role="body")
        ok = bool(la) and unparse(la[0][0].iter) == "self._requests" and c.path_exists(se[0], rs[0]) and not c.path_exists(rs[0], se[0])
        if ok:
            head = c.loop_head(la[0][0])
            nxt = [n for n in c.nodes if n.kind == "fornext" and n.ast is la[0][0]][0]
            dt = [t for t in c.nodes if t.kind == "test" and isinstance(t.ast, ast.Call) and call_attr(t.ast) == "done"]
            futn = dotted(se[0].ast.func.value)
            dt = [t for t in dt if dotted(t.ast.func.value) == futn]
            ok = len(dt) == 1 and c.dominated_by_branch(dt[0], "F", se[0]) and head not in c.reachable([m for m, l in dt[0].succ if l == "F"], avoid=set(se), exc=False, include_src=True)
            ok = ok and head not in c.reachable([m for m, l in nxt.succ if l == "T"], avoid=set(dt), exc=False, include_src=True)
            # the future failed is the loop element's: a name of the loop target, or a local bound in the body to a component of it
            tnames = [unparse(x) for x in ast.walk(la[0][0].target) if isinstance(x, ast.Name)]
            if futn not in tnames:
                fd = [d for d in local_defs(c, futn or "") if any(a is la[0][0] for a, _r in c.enclosing(d, types=(ast.For,), role="body"))]
                dv = def_value(fd[0]) if len(fd) == 1 and len(local_defs(c, futn)) == 1 else None
                ok = ok and isinstance(dv, ast.Subscript) and isinstance(dv.value, ast.Name) and dv.value.id in tnames and isinstance(dv.slice, ast.Constant)
                # ... the component that holds the future in the tuples send() queues
                fpos = set()
                for qn in ("send", "_send_sasl_token"):
                    fq = ctx.fn(f"{CONN}.{qn}")
                    cq = ctx.cfg(fq)
                    for ap in cq.calls(attr="append"):
                        tup = arg_of(ap.ast, 0)
                        if unparse(ap.ast.func.value) == "self._requests" and isinstance(tup, ast.Tuple):
                            for i_, el in enumerate(tup.elts):
                                if isinstance(el, ast.Name) and any(isinstance(def_value(d), ast.Call) and call_attr(def_value(d)) == "create_future" for d in local_defs(cq, el.id)):
                                    fpos.add(i_)
                ok = ok and len(fpos) == 1 and isinstance(dv, ast.Subscript) and dv.slice.value in fpos
            ev = arg_of(se[0].ast, 0)
            ed = local_defs(c, unparse(ev)) if isinstance(ev, ast.Name) else []
            ok = ok and bool(ed) and all("KafkaConnectionError" in unparse(def_value(d)) for d in ed)
    ctx.ob(R, fi, fi.node, ok, "close() does not fail every outstanding waiter with KafkaConnectionError before dropping the queue", text="fails-all")
    rt = [t for t in c.nodes if t.kind == "test" and is_none_test(t.ast, negate=True) is not None and unparse(is_none_test(t.ast, negate=True)) == "self._reader"]
    ok = len(rt) == 1 and all(c.dominated_by_branch(rt[0], "T", n) for n in se + rs)
    st = [s for s in c.stores(attr="_reader") + c.stores(attr="_writer")]
    ok = ok and len(st) >= 2 and all(const_value(s.stmt.value) is None for s in st)
    ctx.ob(R, fi, fi.node, ok, "close() is not idempotent (guard on the reader, reader/writer cleared)", text="idempotent")
    cn = [n for n in c.calls(attr="cancel") if unparse(n.ast.func.value) == "self._read_task"]
    ctx.ob(R, fi, fi.node, len(cn) == 1 and bool(rt) and c.dominated_by_branch(rt[0], "T", cn[0]), "reader task is not cancelled on close", text="cancels-reader")
    wc = [n for n in c.calls(attr="close") if unparse(n.ast.func.value) == "self._writer"]
    ctx.ob(R, fi, fi.node, len(wc) == 1, "transport is not closed", text="closes-writer")
    cb = [n for n in c.nodes if n.kind == "call" and unparse(n.ast.func) == "self._on_close_cb"]
    cbs = [s for s in c.stores(attr="_on_close_cb")]
    ok = len(cb) == 1 and len(cbs) == 1 and c.dominates(cb[0], cbs[0]) and const_value(cbs[0].stmt.value) is None
    ctx.ob(R, fi, fi.node, ok, "close callback is not fired exactly once", text="callback-once")
    ih = [n for n in c.calls(attr="cancel") if unparse(n.ast.func.value) == "self._idle_handle"]
    ctx.ob(R, fi, fi.node, len(ih) == 1 and not (rt and c.dominated_by_branch(rt[0], "T", ih[0])), "idle timer is not cancelled on every close", text="cancels-idle-timer")


def rule_errors_close(ctx):
    R = "errors-close"
    ctx.rep.rule(R, "transport loss reaches close(): the reader task gets _on_read_task_error attached at creation (no suspension in between); "
                    "that callback closes on any Exception of the task; the reader loop never ends normally while the connection object is alive "
                    "and does not swallow read errors; the client closes the connection when a request times out")
    fi = ctx.fn(f"{CONN}._create_reader_task")
    c = ctx.cfg(fi)
    ct = [n for n in c.calls(attr="create_task") if "_read(" in unparse(n.ast)]
    cb = [n for n in c.calls(attr="add_done_callback") if "_on_read_task_error" in unparse(n.ast)]
    ok = len(ct) == 1 and len(cb) == 1 and c.dominates(ct[0], cb[0]) and not ctx.suspension_nodes(fi) and not fi.is_async and isinstance(ct[0].stmt, ast.Assign) and dotted(cb[0].ast.func.value) == unparse(ct[0].stmt.targets[0])
    rets = [r for r in c.nodes if r.kind == "return"]
    ok = ok and len(rets) == 1 and unparse(rets[0].ast.value) == unparse(ct[0].stmt.targets[0]) and c.dominates(cb[0], rets[0])
    ctx.ob(R, fi, fi.node, ok, "the error callback is not attached to the reader task at creation", text="callback-attached")
    fe = ctx.fn(f"{CONN}._on_read_task_error")
    ce = ctx.cfg(fe)
    rr = [n for n in ce.calls(attr="result")]
    cl = [n for n in ce.calls(attr="close")]
    ok = len(rr) == 1 and len(cl) == 1
    if ok:
        hs = [m for m, l in rr[0].succ if l == "exc" and m.kind == "handler"]
        ok = len(hs) == 1 and unparse(hs[0].ast.type) == "Exception" and cl[0] in ce.reachable([hs[0]], exc=False)
        if ok:
            # close is skipped only when the connection object is gone
            from ..rulekit import none_tests
            gone = {t: ln for t, ln, _lnn in none_tests(ce, "self")}   # label meaning `self is None` (connection object collected)
            # from the handler, the exit is reachable without close() only through a `self is None` edge
            seen, stack = set(), [hs[0]]
            leak = False
            while stack:
                n = stack.pop()
                if n in seen or n in cl:
                    continue
                seen.add(n)
                if n is ce.exit:
                    leak = True
                    break
                for m, l in n.succ:
                    if l == "exc" or (n in gone and l == gone[n]):
                        continue
                    stack.append(m)
            ok = not leak and bool(gone)
            ok = ok and unparse(arg_of(cl[0].ast, kw="exc") or ast.Constant(None)) == hs[0].ast.name
    ctx.ob(R, fe, fe.node, ok, "a failed reader task does not close the connection (with the cause)", text="callback-closes")
    fr = ctx.fn(f"{CONN}._read")
    cr = ctx.cfg(fr)
    reads = [n for n in cr.nodes if n.kind == "await" and isinstance(n.ast, ast.Await) and isinstance(n.ast.value, ast.Call) and call_attr(n.ast.value) == "readexactly"]
    ctx.floor(reads, 2, "readexactly awaits in _read")
    for n in reads:
        hs = [m for m, l in n.succ if l == "exc" and m.kind == "handler"]
        swallowing = [h for h in hs if cr.exit in cr.reachable([h], exc=False) or any(x.kind == "loop" for x in cr.reachable([h], exc=False))]
        ctx.ob(R, fr, n, not swallowing, "a read error / EOF is swallowed inside the reader loop: the task ends without an exception and nobody closes the connection", text="read-errors-propagate")
    for r in [x for x in cr.nodes if x.kind == "return"]:
        nt = [t for t in cr.nodes if t.kind == "test" and unparse(t.ast) == "self is None"]
        ctx.ob(R, fr, r, any(cr.dominated_by_branch(t, "T", r) for t in nt), "the reader loop can end normally while the connection object is alive (waiters would stay pending)", text="no-normal-end")
    wl = [n for n in cr.nodes if n.kind == "loop"]
    ctx.ob(R, fr, fr.node, len(wl) == 1 and isinstance(wl[0].ast.test, ast.Constant) and wl[0].ast.test.value is True, "reader loop is not `while True`", text="loops-forever")
    # framing on the read side
    a0 = [unparse(arg_of(n.ast.value, 0)) for n in reads]
    ok = a0[0] == "4" and len(a0) >= 2 and a0[1] == "size"
    sd = [d for d in cr.nodes if d.kind == "store" and isinstance(d.ast, ast.Name) and d.ast.id == "size"]
    ok = ok and len(sd) == 1 and unparse(sd[0].stmt.value) == "struct.unpack('>i', resp)"
    hf = cr.calls(attr="_handle_frame")
    ok = ok and len(hf) == 1 and cr.dominates(reads[1], hf[0])
    ctx.ob(R, fr, fr.node, ok, "reader does not read int32 size then exactly that many bytes and hand them to _handle_frame", text="read-framing")
    # client: timeout closes
    fs = ctx.fn(f"{CLIENT}.send")
    cs = ctx.cfg(fs)
    # the awaited local is the one that holds what conn.send() returned, whatever it is called
    futs = {d.ast.id for d in cs.nodes if d.kind == "store" and isinstance(d.ast, ast.Name) and isinstance(getattr(d.stmt, "value", None), ast.Call)
            and call_attr(d.stmt.value) == "send" and "_conns" in unparse(d.stmt.value.func)}
    aw = [n for n in cs.nodes if n.kind == "await" and isinstance(n.ast, ast.Await) and isinstance(n.ast.value, ast.Name) and n.ast.value.id in futs]
    ok = len(aw) == 1
    if ok:
        hs = [m for m, l in aw[0].succ if l == "exc" and m.kind == "handler" and "TimeoutError" in unparse(m.ast.type)]
        ok = len(hs) == 1
        if ok:
            r = cs.reachable([hs[0]], exc=False)
            ok = any(n.kind == "call" and call_attr(n.ast) == "close" for n in r) and any(n.kind == "raise" and "RequestTimedOutError" in unparse(n.ast.exc) for n in r)
    ctx.ob(R, fs, fs.node, ok, "a timed-out request does not close the connection (its reply would be matched against the next request)", text="timeout-closes")
    fw = ctx.fn("aiokafka.util.wait_for")
    src = unparse(fw.node)
    ctx.ob(R, fw, fw.node, "async_timeout.timeout(timeout)" in src and "return await fut" in src, "wait_for", text="wait-for")


def rule_wrap(ctx):
    R = "correlation-wrap"
    ctx.rep.rule(R, "interval: _next_correlation_id maps [0, 2^31-1] into [0, 2^31-1] and returns what it stored (ids fit the int32 header field)")
    fi = ctx.fn(f"{CONN}._next_correlation_id")
    res = interval.run_function(fi.node, {}, {"self._correlation_id": interval.Iv(0, 2**31 - 1)}, track_store="self._correlation_id")
    ctx.anchor(res.stored is not None, "_next_correlation_id stores the counter")
    ctx.ob(R, fi, fi.node, res.stored.within(0, 2**31 - 1), f"stored correlation id ranges over {res.stored}", text="stored-range")
    ctx.ob(R, fi, fi.node, res.returned is not None and res.returned == res.stored, f"returned id range {res.returned} differs from stored {res.stored}", text="returns-stored")
    # value level on the corner cases (the function is straight-line integer arithmetic: evaluated, not matched)
    from .. import finite
    bad = []
    for cid in (0, 1, 5, 2**31 - 2, 2**31 - 1):
        env = {"self._correlation_id": cid}
        try:
            finite.run(fi.node.body, env, set())
            got = ("no return", env.get("self._correlation_id"))
        except finite._Return as r_:
            got = (r_.v, env.get("self._correlation_id"))
        want = (cid + 1) % 2**31
        if got != (want, want):
            bad.append((cid, got))
    ctx.ob(R, fi, fi.node, not bad, f"from counter value {bad[0][0] if bad else ''} the function (returns, stores) {bad[0][1] if bad else ''}: ids must be consecutive modulo 2^31 "
                                    "and the id returned must be the one stored", text="increments")
    f0 = ctx.fn(f"{CONN}.__init__")
    s0 = ctx.cfg(f0).stores(attr="_correlation_id")
    ctx.ob(R, f0, f0.node, len(s0) == 1 and const_value(s0[0].stmt.value) == 0, "initial correlation id", text="init")


def run(ctx):
    rep = ctx.rep
    rep.explanation = ("C12 structural clauses of AIOKafkaConnection: who mutates the in-flight queue and in what order relative to the write; "
                       "head-of-queue matching in which every completion of the head entry passes the correlation comparison; close() fails all "
                       "waiters; every transport failure reaches close(); correlation id wrap by interval analysis.")
    rule_queue(ctx)
    rule_match(ctx)
    rule_one_stream(ctx)
    rule_close(ctx)
    rule_errors_close(ctx)
    rule_wrap(ctx)
    # a truncated or malformed body must make the decoder RAISE (the reader task then dies and close() fails every waiter): the
    # fixed-width primitives read exactly their width through struct (short read -> ValueError), shared with C11
    from . import c11
    c11.rule_codec_symmetry(ctx)
    from .common import rule_instance_state
    rule_instance_state(ctx, ("aiokafka.conn.",))
    rep.nd("byte-stream fragmentation (delegated to asyncio.StreamReader.readexactly)")
    rep.nd("ordering of timeouts relative to arrivals beyond the structural rule that abandoned requests are still popped")
