"""Static-analysis machinery for aiokafka properties C01-C19 (see /verif/DESIGN.md)."""
