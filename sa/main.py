"""Entry point: python -m sa.main <ID> [--tier quick|thorough] [--repo /repo]"""
from __future__ import annotations

import argparse
import importlib
import os
import sys
import traceback

from .loader import AnalysisError, Repo
from .report import Report
from .rulekit import Ctx


def main(argv=None):
    ap = argparse.ArgumentParser()
    ap.add_argument("pid")
    ap.add_argument("--tier", default=os.environ.get("VERIF_TIER", "quick"),
                    choices=["quick", "thorough"])
    ap.add_argument("--repo", default=os.environ.get("VERIF_REPO", "/repo"))
    ap.add_argument("--no-selftest", action="store_true")
    args = ap.parse_args(argv)
    pid = args.pid.upper()
    seed = int(os.environ.get("VERIF_SEED", "0") or 0)
    try:
        mod = importlib.import_module(f"sa.rules.{pid.lower()}")
    except ModuleNotFoundError:
        print(f"ANALYSIS-ERROR property={pid} no rule module")
        return 2
    rep = Report(pid, args.tier, args.repo, seed)
    try:
        repo = Repo(args.repo)
        ctx = Ctx(repo, rep, args.tier)
        ctx.args = args
        mod.run(ctx)
        if args.tier == "thorough" and not args.no_selftest:
            from . import selftest
            selftest.run(pid, rep, args.repo)
    except AnalysisError as e:
        print(f"ANALYSIS-ERROR property={pid} {e}")
        return 2
    except Exception:
        traceback.print_exc()
        print(f"ANALYSIS-ERROR property={pid} internal error in checker")
        return 2
    return rep.finish()


if __name__ == "__main__":
    sys.exit(main())
