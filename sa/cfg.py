"""Statement/event control-flow graph for one Python function, with dominators,
post-dominators, path queries and reaching definitions.

Granularity: every call, await, yield and store inside a statement is its own
node, chained in evaluation order in front of the node of the statement itself.
Tests of if/while are split at and/or/not so that a node can be "dominated by the
false branch of `tp in muted`" even when that test is one operand of a conjunction.

Edge labels: 'n' fallthrough, 'T'/'F' branch, 'back' loop back edge, 'exc' implicit
exception (from call/await/yield nodes to the handlers that may catch it), 'raise'
explicit raise. finally bodies are copied per continuation (fallthrough, return,
break, continue, exception), the standard way to keep them path-precise.
"""
from __future__ import annotations

import ast

from .loader import AnalysisError, unparse

EVENT_KINDS = ("call", "await", "yield")


class Node:
    __slots__ = ("id", "kind", "ast", "stmt", "succ", "pred", "within", "extra")

    def __init__(self, id, kind, ast_node, stmt, within):
        self.id = id
        self.kind = kind
        self.ast = ast_node
        self.stmt = stmt
        self.succ = []  # (node, label)
        self.pred = []  # (node, label)
        self.within = within
        self.extra = None

    @property
    def lineno(self):
        for a in (self.ast, self.stmt):
            ln = getattr(a, "lineno", None)
            if ln:
                return ln
        return 0

    def text(self):
        if self.ast is None:
            return self.kind
        if isinstance(
            self.ast,
            (ast.For, ast.AsyncFor, ast.While, ast.Try, ast.With, ast.AsyncWith,
             ast.ExceptHandler, ast.If, ast.FunctionDef, ast.AsyncFunctionDef,
             ast.ClassDef),
        ):
            head = unparse(self.ast).split("\n", 1)[0]
            return f"{self.kind}:{head}"
        return f"{self.kind}:{unparse(self.ast)}"

    def __repr__(self):
        return f"<{self.id} L{self.lineno} {self.text()[:70]}>"


class _Frame:
    def __init__(self, node, kind):
        self.node = node  # ast.Try / ast.With
        self.kind = kind  # 'try' | 'suppress'
        self.phase = "body"
        self.handlers = []  # list of (entry Node, ExceptHandler|None)
        self.catch_all = False
        self.finalbody = None
        self.exc_pending = []


def _is_catch_all(h):
    if h.type is None:
        return True
    names = []
    t = h.type
    elts = t.elts if isinstance(t, ast.Tuple) else [t]
    for e in elts:
        names.append(unparse(e))
    return any(n in ("BaseException",) for n in names)


class CFG:
    def __init__(self, fn_ast, name="?"):
        self.fn = fn_ast
        self.name = name
        self.nodes = []
        self._ctx = []
        self._frames = []
        self._loops = []  # (head, break_list, frame_depth, ast)
        self.entry = self._new("entry", None, None)
        self.exit = self._new("exit", None, None)
        self.raise_exit = self._new("raise_exit", None, None)
        out = self._block(fn_ast.body, [(self.entry, "n")])
        self._connect(out, self.exit)
        self._dom_cache = {}

    # ---- construction -------------------------------------------------------
    def _new(self, kind, ast_node, stmt):
        n = Node(len(self.nodes), kind, ast_node, stmt, tuple(self._ctx))
        self.nodes.append(n)
        return n

    def _connect(self, dangling, node):
        for src, label in dangling:
            src.succ.append((node, label))
            node.pred.append((src, label))

    def _seq(self, dangling, node):
        self._connect(dangling, node)
        return [(node, "n")]

    def _event(self, dangling, kind, ast_node, stmt):
        n = self._new(kind, ast_node, stmt)
        self._connect(dangling, n)
        if kind in EVENT_KINDS:
            self._route_exc([(n, "exc")])
        return [(n, "n")]

    def _route_exc(self, dangling, depth=None):
        i = (len(self._frames) - 1) if depth is None else depth
        while i >= 0:
            fr = self._frames[i]
            if fr.phase == "body":
                for entry, _h in fr.handlers:
                    self._connect(dangling, entry)
                if fr.catch_all:
                    return
                if fr.finalbody:
                    fr.exc_pending.extend(dangling)
                    return
            elif fr.phase in ("handler", "else"):
                if fr.finalbody:
                    fr.exc_pending.extend(dangling)
                    return
            i -= 1
        self._connect(dangling, self.raise_exit)

    def _run_finallies(self, dangling, down_to):
        """Copy the finally bodies of frames[down_to:] (innermost first) onto the path."""
        i = len(self._frames) - 1
        while i >= down_to:
            fr = self._frames[i]
            if fr.finalbody and fr.phase != "final":
                saved_frames, saved_loops = self._frames, self._loops
                self._frames = self._frames[:i]
                self._loops = [l for l in self._loops if l[2] <= i]
                self._ctx.append((fr.node, "finalbody"))
                dangling = self._block(fr.finalbody, dangling)
                self._ctx.pop()
                self._frames, self._loops = saved_frames, saved_loops
            i -= 1
        return dangling

    # expressions ------------------------------------------------------------
    def _expr(self, e, dangling, stmt):
        if e is None:
            return dangling
        if isinstance(e, ast.Call):
            dangling = self._expr(e.func, dangling, stmt)
            for a in e.args:
                dangling = self._expr(a, dangling, stmt)
            for k in e.keywords:
                dangling = self._expr(k.value, dangling, stmt)
            return self._event(dangling, "call", e, stmt)
        if isinstance(e, ast.Await):
            dangling = self._expr(e.value, dangling, stmt)
            return self._event(dangling, "await", e, stmt)
        if isinstance(e, (ast.Yield, ast.YieldFrom)):
            dangling = self._expr(e.value, dangling, stmt)
            return self._event(dangling, "yield", e, stmt)
        if isinstance(e, ast.NamedExpr):
            dangling = self._expr(e.value, dangling, stmt)
            return self._event(dangling, "store", e.target, stmt)
        if isinstance(e, ast.Lambda):
            return dangling
        if isinstance(e, (ast.ListComp, ast.SetComp, ast.GeneratorExp, ast.DictComp)):
            for g in e.generators:
                dangling = self._expr(g.iter, dangling, stmt)
                if g.is_async:
                    dangling = self._event(dangling, "await", g, stmt)
                for c in g.ifs:
                    dangling = self._expr(c, dangling, stmt)
            if isinstance(e, ast.DictComp):
                dangling = self._expr(e.key, dangling, stmt)
                dangling = self._expr(e.value, dangling, stmt)
            else:
                dangling = self._expr(e.elt, dangling, stmt)
            return dangling
        if isinstance(e, ast.AST):
            for c in ast.iter_child_nodes(e):
                if isinstance(c, (ast.expr, ast.keyword, ast.comprehension)):
                    dangling = self._expr(c, dangling, stmt)
                elif isinstance(c, ast.AST) and not isinstance(
                    c, (ast.expr_context, ast.operator, ast.cmpop, ast.boolop, ast.unaryop)
                ):
                    dangling = self._expr(c, dangling, stmt)
        return dangling

    def _target(self, t, dangling, stmt, kind="store"):
        if isinstance(t, (ast.Tuple, ast.List)):
            for e in t.elts:
                dangling = self._target(e, dangling, stmt, kind)
            return dangling
        if isinstance(t, ast.Starred):
            return self._target(t.value, dangling, stmt, kind)
        if isinstance(t, ast.Attribute):
            dangling = self._expr(t.value, dangling, stmt)
        elif isinstance(t, ast.Subscript):
            dangling = self._expr(t.value, dangling, stmt)
            dangling = self._expr(t.slice, dangling, stmt)
        return self._event(dangling, kind, t, stmt)

    def _cond(self, e, dangling, stmt):
        """Returns (true_dangling, false_dangling)."""
        if isinstance(e, ast.BoolOp):
            if isinstance(e.op, ast.And):
                falses = []
                cur = dangling
                for v in e.values:
                    t, f = self._cond(v, cur, stmt)
                    falses += f
                    cur = t
                return cur, falses
            else:
                trues = []
                cur = dangling
                for v in e.values:
                    t, f = self._cond(v, cur, stmt)
                    trues += t
                    cur = f
                return trues, cur
        if isinstance(e, ast.UnaryOp) and isinstance(e.op, ast.Not):
            t, f = self._cond(e.operand, dangling, stmt)
            return f, t
        dangling = self._expr(e, dangling, stmt)
        n = self._new("test", e, stmt)
        self._connect(dangling, n)
        if isinstance(e, ast.Constant):
            if e.value:
                return [(n, "T")], []
            return [], [(n, "F")]
        return [(n, "T")], [(n, "F")]

    # statements -------------------------------------------------------------
    def _block(self, stmts, dangling):
        for s in stmts:
            dangling = self._stmt(s, dangling)
        return dangling

    def _stmt(self, s, d):
        if isinstance(s, ast.Expr):
            d = self._expr(s.value, d, s)
            return self._seq(d, self._new("stmt", s, s))
        if isinstance(s, ast.Assign):
            d = self._expr(s.value, d, s)
            for t in s.targets:
                d = self._target(t, d, s)
            return self._seq(d, self._new("stmt", s, s))
        if isinstance(s, ast.AugAssign):
            d = self._expr(s.value, d, s)
            d = self._target(s.target, d, s)
            return self._seq(d, self._new("stmt", s, s))
        if isinstance(s, ast.AnnAssign):
            d = self._expr(s.value, d, s)
            if s.value is not None:
                d = self._target(s.target, d, s)
            return self._seq(d, self._new("stmt", s, s))
        if isinstance(s, ast.Return):
            d = self._expr(s.value, d, s)
            n = self._new("return", s, s)
            self._connect(d, n)
            d = self._run_finallies([(n, "n")], 0)
            self._connect(d, self.exit)
            return []
        if isinstance(s, ast.Raise):
            d = self._expr(s.exc, d, s)
            d = self._expr(s.cause, d, s)
            n = self._new("raise", s, s)
            self._connect(d, n)
            self._route_exc([(n, "raise")])
            return []
        if isinstance(s, ast.Assert):
            d = self._expr(s.test, d, s)
            return self._seq(d, self._new("assert", s, s))
        if isinstance(s, ast.Delete):
            for t in s.targets:
                d = self._target(t, d, s, kind="delete")
            return self._seq(d, self._new("stmt", s, s))
        if isinstance(s, (ast.Pass, ast.Import, ast.ImportFrom, ast.Global, ast.Nonlocal)):
            return self._seq(d, self._new("stmt", s, s))
        if isinstance(s, (ast.FunctionDef, ast.AsyncFunctionDef, ast.ClassDef)):
            for dec in s.decorator_list:
                d = self._expr(dec, d, s)
            return self._seq(d, self._new("def", s, s))
        if isinstance(s, ast.If):
            t, f = self._cond(s.test, d, s)
            self._ctx.append((s, "body"))
            t = self._block(s.body, t)
            self._ctx.pop()
            self._ctx.append((s, "orelse"))
            f = self._block(s.orelse, f)
            self._ctx.pop()
            return t + f
        if isinstance(s, ast.While):
            head = self._new("loop", s, s)
            self._connect(d, head)
            self._ctx.append((s, "test"))
            t, f = self._cond(s.test, [(head, "n")], s)
            self._ctx.pop()
            breaks = []
            self._loops.append((head, breaks, len(self._frames), s))
            self._ctx.append((s, "body"))
            out = self._block(s.body, t)
            self._ctx.pop()
            self._loops.pop()
            self._connect([(n, "back") for n, _ in out], head)
            self._ctx.append((s, "orelse"))
            f = self._block(s.orelse, f)
            self._ctx.pop()
            return f + breaks
        if isinstance(s, (ast.For, ast.AsyncFor)):
            d = self._expr(s.iter, d, s)
            it = self._new("foriter", s, s)
            self._connect(d, it)
            head = self._new("loop", s, s)
            self._connect([(it, "n")], head)
            d = [(head, "n")]
            if isinstance(s, ast.AsyncFor):
                d = self._event(d, "await", s, s)
            nxt = self._new("fornext", s, s)
            self._connect(d, nxt)
            breaks = []
            self._loops.append((head, breaks, len(self._frames), s))
            self._ctx.append((s, "body"))
            t = self._target(s.target, [(nxt, "T")], s)
            out = self._block(s.body, t)
            self._ctx.pop()
            self._loops.pop()
            self._connect([(n, "back") for n, _ in out], head)
            self._ctx.append((s, "orelse"))
            f = self._block(s.orelse, [(nxt, "F")])
            self._ctx.pop()
            return f + breaks
        if isinstance(s, ast.Break):
            n = self._new("break", s, s)
            self._connect(d, n)
            if not self._loops:
                raise AnalysisError(f"{self.name}: break outside loop")
            head, breaks, depth, _ = self._loops[-1]
            breaks.extend(self._run_finallies([(n, "n")], depth))
            return []
        if isinstance(s, ast.Continue):
            n = self._new("continue", s, s)
            self._connect(d, n)
            if not self._loops:
                raise AnalysisError(f"{self.name}: continue outside loop")
            head, breaks, depth, _ = self._loops[-1]
            out = self._run_finallies([(n, "n")], depth)
            self._connect([(x, "back") for x, _ in out], head)
            return []
        if isinstance(s, (ast.With, ast.AsyncWith)):
            is_async = isinstance(s, ast.AsyncWith)
            suppress = False
            for item in s.items:
                d = self._expr(item.context_expr, d, s)
                ce = item.context_expr
                if isinstance(ce, ast.Call) and unparse(ce.func).endswith("suppress"):
                    suppress = True
                if is_async:
                    d = self._event(d, "await", item, s)
                enter = self._new("with_enter", item, s)
                self._connect(d, enter)
                d = [(enter, "n")]
                if item.optional_vars is not None:
                    d = self._target(item.optional_vars, d, s)
            after = None
            if suppress:
                fr = _Frame(s, "suppress")
                after = self._new("join", s, s)
                fr.handlers = [(after, None)]
                self._frames.append(fr)
            self._ctx.append((s, "body"))
            d = self._block(s.body, d)
            self._ctx.pop()
            if suppress:
                self._frames.pop()
            if is_async:
                d = self._event(d, "await", s, s)
            ex = self._new("with_exit", s, s)
            self._connect(d, ex)
            d = [(ex, "n")]
            if after is not None:
                self._connect(d, after)
                d = [(after, "n")]
            return d
        if isinstance(s, (ast.Try, getattr(ast, "TryStar", ast.Try))):
            fr = _Frame(s, "try")
            fr.finalbody = s.finalbody or None
            self._ctx.append((s, "handler"))
            for h in s.handlers:
                self._ctx.append((h, "body"))
                fr.handlers.append((self._new("handler", h, s), h))
                self._ctx.pop()
                if _is_catch_all(h):
                    fr.catch_all = True
            self._ctx.pop()
            self._frames.append(fr)
            depth = len(self._frames) - 1
            tn = self._new("try", s, s)
            self._connect(d, tn)
            self._ctx.append((s, "body"))
            out = self._block(s.body, [(tn, "n")])
            self._ctx.pop()
            fr.phase = "else"
            self._ctx.append((s, "orelse"))
            out = self._block(s.orelse, out)
            self._ctx.pop()
            fr.phase = "handler"
            for entry, h in fr.handlers:
                self._ctx.append((s, "handler"))
                self._ctx.append((h, "body"))
                hd = [(entry, "n")]
                hout = self._block(h.body, hd)
                self._ctx.pop()
                self._ctx.pop()
                out = out + hout
            fr.phase = "final"
            self._frames.pop()
            if fr.finalbody:
                self._ctx.append((s, "finalbody"))
                out = self._block(fr.finalbody, out)
                if fr.exc_pending:
                    j = self._new("join", s, s)
                    self._connect(fr.exc_pending, j)
                    eo = self._block(fr.finalbody, [(j, "n")])
                    self._route_exc([(n, "exc") for n, _ in eo])
                self._ctx.pop()
            return out
        if isinstance(s, ast.Match):  # pragma: no cover
            raise AnalysisError(f"{self.name}: match statement unsupported")
        raise AnalysisError(f"{self.name}: unsupported statement {type(s).__name__}")

    # ---- queries -----------------------------------------------------------
    def succ(self, n, exc=True):
        if exc:
            return [m for m, _ in n.succ]
        return [m for m, l in n.succ if l != "exc"]

    def pred(self, n, exc=True):
        if exc:
            return [m for m, _ in n.pred]
        return [m for m, l in n.pred if l != "exc"]

    def find(self, kind=None, pred=None):
        out = []
        for n in self.nodes:
            if kind is not None:
                if isinstance(kind, str):
                    if n.kind != kind:
                        continue
                elif n.kind not in kind:
                    continue
            if pred is not None and not pred(n):
                continue
            out.append(n)
        return out

    def calls(self, name=None, attr=None, pred=None):
        """Call nodes whose dotted callee equals `name` or whose last component is `attr`."""
        from .loader import call_attr, call_name

        out = []
        for n in self.nodes:
            if n.kind != "call":
                continue
            if name is not None and call_name(n.ast) != name:
                continue
            if attr is not None and call_attr(n.ast) != attr:
                continue
            if pred is not None and not pred(n):
                continue
            out.append(n)
        return out

    def stores(self, attr=None, name=None, kinds=("store",)):
        """Store nodes writing attribute `.attr` (any receiver) or local `name`."""
        out = []
        for n in self.nodes:
            if n.kind not in kinds:
                continue
            t = n.ast
            if attr is not None:
                if isinstance(t, ast.Attribute) and t.attr == attr:
                    out.append(n)
            elif name is not None:
                if isinstance(t, ast.Name) and t.id == name:
                    out.append(n)
            else:
                out.append(n)
        return out

    def reachable(self, srcs, avoid=(), exc=True, include_src=False):
        """Nodes reachable from the successors of `srcs` without entering `avoid`."""
        avoid = set(avoid)
        seen = set()
        stack = []
        for s in srcs:
            if include_src:
                stack.append(s)
            else:
                stack.extend(self.succ(s, exc))
        while stack:
            n = stack.pop()
            if n in seen or n in avoid:
                continue
            seen.add(n)
            stack.extend(self.succ(n, exc))
        return seen

    def co_reachable(self, dsts, avoid=(), exc=True):
        avoid = set(avoid)
        seen = set()
        stack = []
        for s in dsts:
            stack.extend(self.pred(s, exc))
        while stack:
            n = stack.pop()
            if n in seen or n in avoid:
                continue
            seen.add(n)
            stack.extend(self.pred(n, exc))
        return seen

    def path_exists(self, a, b, avoid=(), exc=True):
        return b in self.reachable([a], avoid=avoid, exc=exc)

    def witness(self, a, b, avoid=(), exc=True):
        """Shortest path a -> b avoiding `avoid` (list of nodes) or None."""
        from collections import deque

        avoid = set(avoid)
        prev = {}
        dq = deque()
        for s in self.succ(a, exc):
            if s not in avoid and s not in prev:
                prev[s] = a
                dq.append(s)
        while dq:
            n = dq.popleft()
            if n is b:
                path = [n]
                while path[-1] is not a:
                    path.append(prev[path[-1]])
                    if len(path) > len(self.nodes) + 2:
                        break
                return list(reversed(path))
            for s in self.succ(n, exc):
                if s not in avoid and s not in prev:
                    prev[s] = n
                    dq.append(s)
        return None

    def live_nodes(self, exc=True):
        return self.reachable([self.entry], exc=exc, include_src=True)

    def _idoms(self, exc, reverse=False):
        key = (exc, reverse)
        if key in self._dom_cache:
            return self._dom_cache[key]
        if not reverse:
            root = self.entry
            succ = lambda n: self.succ(n, exc)
            pred = lambda n: self.pred(n, exc)
        else:
            # virtual sink: exit and raise_exit
            root = Node(-1, "sink", None, None, ())
            sinks = [self.exit, self.raise_exit] if exc else [self.exit]
            # nodes with no successors (infinite loops have none; fine)
            succ = lambda n: (sinks if n is root else self.pred(n, exc))
            pred = lambda n: (
                ([root] if n in sinks else []) + self.succ(n, exc)
            )
        order = []
        seen = set()

        def dfs(r):
            stack = [(r, iter(succ(r)))]
            seen.add(r)
            while stack:
                n, it = stack[-1]
                adv = False
                for m in it:
                    if m not in seen:
                        seen.add(m)
                        stack.append((m, iter(succ(m))))
                        adv = True
                        break
                if not adv:
                    order.append(n)
                    stack.pop()

        dfs(root)
        rpo = list(reversed(order))
        idx = {n: i for i, n in enumerate(rpo)}
        idom = {root: root}
        changed = True
        while changed:
            changed = False
            for n in rpo[1:]:
                new = None
                for p in pred(n):
                    if p in idom:
                        if new is None:
                            new = p
                        else:
                            a, b = p, new
                            while a is not b:
                                while idx[a] > idx[b]:
                                    a = idom[a]
                                while idx[b] > idx[a]:
                                    b = idom[b]
                            new = a
                if new is not None and idom.get(n) is not new:
                    idom[n] = new
                    changed = True
        self._dom_cache[key] = (idom, root)
        return idom, root

    def dominates(self, a, b, exc=True):
        """Every path entry -> b passes through a (a == b counts)."""
        idom, root = self._idoms(exc)
        if b not in idom:
            return True  # unreachable: vacuous
        n = b
        while True:
            if n is a:
                return True
            if n is root:
                return False
            n = idom[n]

    def postdominates(self, a, b, exc=False):
        """Every path b -> exit (and raise_exit if exc) passes through a."""
        idom, root = self._idoms(exc, reverse=True)
        if b not in idom:
            return True
        n = b
        while True:
            if n is a:
                return True
            if n is root:
                return False
            n = idom[n]

    def dominated_by_branch(self, test, label, b, exc=True):
        """b is reachable only through the `label` edge of `test`."""
        if not self.dominates(test, b, exc):
            return False
        # remove the label edge: b must become unreachable from test
        others = [m for m, l in test.succ if l != label and (exc or l != "exc")]
        seen = set()
        stack = list(others)
        while stack:
            n = stack.pop()
            if n in seen:
                continue
            if n is test:
                continue
            seen.add(n)
            stack.extend(self.succ(n, exc))
        return b not in seen

    def loop_body(self, head, exc=True):
        """Nodes of the natural loop of `head` (reach head again without leaving)."""
        body = {head}
        stack = [p for p, l in head.pred if l == "back"]
        while stack:
            n = stack.pop()
            if n in body:
                continue
            body.add(n)
            stack.extend(self.pred(n, exc))
        return body

    def loop_head(self, loop_ast):
        for n in self.nodes:
            if n.kind == "loop" and n.ast is loop_ast:
                return n
        return None

    def enclosing(self, n, types=None, role=None):
        """Innermost-first list of (ast, role) compound statements containing n."""
        out = []
        for a, r in reversed(n.within):
            if types is not None and not isinstance(a, types):
                continue
            if role is not None and r != role:
                continue
            out.append((a, r))
        return out

    # ---- reaching definitions (names) -----------------------------------------
    def defs_of(self, n):
        """Local names (re)defined at node n."""
        out = set()
        if n.kind in ("store", "delete") and isinstance(n.ast, ast.Name):
            out.add(n.ast.id)
        elif n.kind == "handler" and n.ast.name:
            out.add(n.ast.name)
        elif n.kind == "def":
            out.add(n.ast.name)
        elif n.kind == "stmt" and isinstance(n.ast, (ast.Import, ast.ImportFrom)):
            for a in n.ast.names:
                out.add((a.asname or a.name).split(".")[0])
        elif n.kind == "entry":
            a = self.fn.args
            for x in a.posonlyargs + a.args + a.kwonlyargs:
                out.add(x.arg)
            if a.vararg:
                out.add(a.vararg.arg)
            if a.kwarg:
                out.add(a.kwarg.arg)
        return out

    def reaching_defs(self, exc=True):
        """node -> {name: set(def nodes)} holding at node entry."""
        if getattr(self, "_rd", None) is not None and self._rd[0] == exc:
            return self._rd[1]
        IN = {n: {} for n in self.nodes}
        work = [self.entry]
        inq = {self.entry}
        gen = {n: self.defs_of(n) for n in self.nodes}
        while work:
            n = work.pop()
            inq.discard(n)
            out = dict(IN[n])
            for name in gen[n]:
                out[name] = frozenset([n])
            for m in self.succ(n, exc):
                tgt = IN[m]
                changed = False
                for name, ds in out.items():
                    cur = tgt.get(name)
                    if cur is None:
                        tgt[name] = ds
                        changed = True
                    elif not ds <= cur:
                        tgt[name] = cur | ds
                        changed = True
                if changed and m not in inq:
                    work.append(m)
                    inq.add(m)
        self._rd = (exc, IN)
        return IN

    def dump(self):
        lines = []
        for n in self.nodes:
            lines.append(
                f"{n.id:4d} L{n.lineno:<5d}{n.text()[:80]:82s} -> "
                + ", ".join(f"{m.id}{'' if l == 'n' else ':' + l}" for m, l in n.succ)
            )
        return "\n".join(lines)


def names_read(node_ast):
    out = set()
    if node_ast is None:
        return out
    for x in ast.walk(node_ast):
        if isinstance(x, ast.Name) and isinstance(x.ctx, ast.Load):
            out.add(x.id)
    return out


def is_suspension_kind(n):
    return n.kind in ("await", "yield")


def enum_paths(c, start, ends, avoid=(), exc=False, limit=20000, follow_back=False):
    """All simple paths start -> (first node in `ends`), as node lists (start included).
    `back` edges are not followed unless follow_back. Raises AnalysisError past `limit`."""
    ends = set(ends)
    avoid = set(avoid)
    out = []
    path = [start]
    onpath = {start}

    def go(n):
        if len(out) > limit:
            raise AnalysisError(f"{c.name}: path enumeration exceeded {limit}")
        for m, l in n.succ:
            if l == "exc" and not exc:
                continue
            if m in ends:
                out.append(path + [m])
                continue
            if l == "back" and not follow_back:
                continue
            if m in avoid or m in onpath:
                continue
            path.append(m)
            onpath.add(m)
            go(m)
            path.pop()
            onpath.discard(m)

    go(start)
    return out
