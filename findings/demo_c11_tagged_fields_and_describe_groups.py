"""Demonstrates (pre-fix) two C11 defects:
 * TaggedFields.encode wrote `tag, bytes` per field while decode reads `tag, size, bytes`:
   non-empty tagged fields did not round-trip;
 * DescribeGroupsRequest_v3 parsed its reply with the v2 schema, which lacks authorized_operations."""
import io
from aiokafka.protocol.types import TaggedFields
from aiokafka.protocol.admin import DescribeGroupsRequest_v3, DescribeGroupsResponse_v3


def test_tagged_fields_round_trip():
    v = {1: b"abc", 5: b""}
    assert TaggedFields.decode(io.BytesIO(TaggedFields.encode(v))) == v


def test_describe_groups_v3_reply_schema():
    assert DescribeGroupsRequest_v3.RESPONSE_TYPE.SCHEMA.names == DescribeGroupsResponse_v3.SCHEMA.names
    inner = DescribeGroupsRequest_v3.RESPONSE_TYPE.SCHEMA.fields[1].array_of
    assert "authorized_operations" in inner.names
