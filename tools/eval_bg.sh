#!/bin/bash
# eval_bg.sh <id>... : evaluate finished sub-agent work in /tmp/seedwork/<id> (seed ids end in A-L, neutral ids in M-Z), remove the worktree
cd /verif
for i in "$@"; do
  (
    case "$i" in
      *-[M-Z]) timeout 1700 /venv/bin/python tools/neutral_eval.py /tmp/seedwork/$i $i > /tmp/seedwork/$i/eval.log 2>&1 ;;
      *) timeout 1700 /venv/bin/python tools/seed_eval.py /tmp/seedwork/$i $i > /tmp/seedwork/$i/eval.log 2>&1 ;;
    esac
    git -C /repo worktree remove --force /tmp/seedwork/$i/wt 2>/dev/null
  ) &
done
wait
for i in "$@"; do echo "== $i"; tail -n 6 /tmp/seedwork/$i/eval.log | cut -c1-420; done
