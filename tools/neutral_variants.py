#!/venv/bin/python
"""Behaviour-preserving variants of the package, to measure false alarms of the checks.

  rename : every function-local variable (assigned in the function, not a parameter, not global/nonlocal, not captured
           by a nested function or comprehension scope problem-free) gets the suffix `_r`.
Usage: neutral_variants.py rename <dst>      (creates <dst>/aiokafka)
"""
import ast
import os
import shutil
import symtable
import sys

VERIF = os.path.dirname(os.path.dirname(os.path.abspath(__file__)))
sys.path.insert(0, VERIF)
from sa.selftest import _copy_pkg  # noqa: E402


from sa.alpha import Renamer  # noqa: E402


class Wrap(ast.NodeTransformer):
    """Body of every function (after its docstring) wrapped in `if True:`."""

    def _do(self, node):
        self.generic_visit(node)
        body = node.body
        head = []
        if body and isinstance(body[0], ast.Expr) and isinstance(body[0].value, ast.Constant) and isinstance(body[0].value.value, str):
            head, body = body[:1], body[1:]
        if body and not any(isinstance(x, (ast.Global, ast.Nonlocal)) for x in body):
            node.body = head + [ast.If(test=ast.Constant(value=True), body=body, orelse=[])]
        return node

    visit_FunctionDef = _do
    visit_AsyncFunctionDef = _do


class Noise(ast.NodeTransformer):
    """`log.debug("trace")` inserted as the first statement of every function."""

    def _do(self, node):
        self.generic_visit(node)
        body = node.body
        k = 1 if body and isinstance(body[0], ast.Expr) and isinstance(body[0].value, ast.Constant) and isinstance(body[0].value.value, str) else 0
        call = ast.Expr(value=ast.Call(func=ast.Attribute(value=ast.Name(id="log", ctx=ast.Load()), attr="debug", ctx=ast.Load()), args=[ast.Constant(value="trace")], keywords=[]))
        node.body = body[:k] + [call] + body[k:]
        return node

    visit_FunctionDef = _do
    visit_AsyncFunctionDef = _do



from sa.variants import TRANSFORMS  # noqa: E402

def main():
    mode, dst = sys.argv[1], sys.argv[2]
    if os.path.exists(dst):
        shutil.rmtree(dst)
    os.makedirs(dst)
    _copy_pkg("/repo", dst)
    n = 0
    for dirpath, _d, files in os.walk(os.path.join(dst, "aiokafka")):
        for f in files:
            if f.endswith(".py"):
                p = os.path.join(dirpath, f)
                tree = ast.parse(open(p, encoding="utf-8").read())
                if mode == "rename":
                    tree = Renamer().visit(tree)
                elif mode == "wrap":
                    tree = Wrap().visit(tree)
                elif mode in TRANSFORMS:
                    tree = TRANSFORMS[mode]().visit(tree)
                elif mode == "noise":
                    has_log = any(isinstance(x, ast.Assign) and any(isinstance(t, ast.Name) and t.id == "log" for t in x.targets) for x in tree.body)
                    if has_log:
                        tree = Noise().visit(tree)
                ast.fix_missing_locations(tree)
                src = ast.unparse(tree)
                compile(src, p, "exec")
                open(p, "w", encoding="utf-8").write(src + "\n")
                n += 1
    print("files", n)


if __name__ == "__main__":
    main()
