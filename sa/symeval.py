"""Symbolic evaluation of response-handling code against a reply schema.

A reply struct is modelled as a tree of symbolic fields named by their schema path
("topics[].partitions[].offset").  The evaluator runs a function's statements for one
fixed API version: version comparisons fold to constants, tuple unpacking / star
unpacking / constant subscripts move symbolic fields around, loops over a schema array
bind their target to the array's symbolic element (one representative iteration), and
untestable conditions fork.  What comes out is, per path, the list of calls of interest
with their symbolic arguments -- which reply field reaches which consumer.
"""
from __future__ import annotations

import ast

from .loader import AnalysisError, unparse


class SV:
    pass


class Field(SV):
    def __init__(self, path, typ=None):
        self.path = path
        self.typ = typ

    def __repr__(self):
        return f"<{self.path}>"

    def __eq__(self, o):
        return isinstance(o, Field) and o.path == self.path

    def __hash__(self):
        return hash(self.path)


class Const(SV):
    def __init__(self, v):
        self.v = v

    def __repr__(self):
        return f"const({self.v!r})"

    def __eq__(self, o):
        return isinstance(o, Const) and o.v == self.v and type(o.v) is type(self.v)

    def __hash__(self):
        return hash(("c", self.v))


class Unk(SV):
    def __init__(self, why="", deps=()):
        self.why = why
        self.deps = frozenset(deps)

    def __repr__(self):
        return f"?({self.why[:40]})"


class ListV(SV):
    """A list under construction (literal + append/extend); copied when a path forks."""

    def __init__(self, items=()):
        self.items = list(items)

    def copy(self):
        return ListV([x.copy() if isinstance(x, ListV) else x for x in self.items])

    def __repr__(self):
        return "L[" + ", ".join(map(repr, self.items)) + "]"


def deps_of(sv):
    """Schema / parameter fields a symbolic value was computed from."""
    if isinstance(sv, Field):
        return frozenset([sv.path])
    if isinstance(sv, (Tup, ListV)):
        out = frozenset()
        for x in sv.items:
            out |= deps_of(x)
        return out
    if isinstance(sv, Arr):
        return deps_of(sv.elem) | frozenset([sv.path])
    if isinstance(sv, Unk):
        return sv.deps
    return frozenset()


class Tup(SV):
    def __init__(self, items, names=None):
        self.items = list(items)
        self.names = names

    def __repr__(self):
        return "(" + ", ".join(map(repr, self.items)) + ")"


class Arr(SV):
    def __init__(self, elem, path):
        self.elem = elem
        self.path = path

    def __repr__(self):
        return f"[{self.elem!r}]"


class StructV(SV):
    def __init__(self, fields, version, name=""):
        self.fields = fields
        self.version = version
        self.name = name

    def __repr__(self):
        return f"struct {self.name} v{self.version}"


def from_schema(t, path=""):
    if t is None:
        return Unk("no schema")
    if t[0] == "prim":
        return Field(path, t[1])
    if t[0] == "array":
        return Arr(from_schema(t[1], path + "[]"), path)
    if t[0] == "schema":
        items, names = [], []
        for n, x in t[1]:
            p = f"{path}.{n}" if path else n
            items.append(from_schema(x, p))
            names.append(n)
        return Tup(items, names)
    return Unk("?")


def make_struct(schema, version, name=""):
    top = from_schema(schema)
    fields = dict(zip(top.names, top.items)) if isinstance(top, Tup) else {}
    return StructV(fields, version, name)


class _Jump(Exception):
    def __init__(self, kind):
        self.kind = kind


class Event:
    def __init__(self, callee, args, kwargs, conds, node):
        self.callee = callee
        self.args = args
        self.kwargs = kwargs
        self.conds = list(conds)
        self.node = node

    def __repr__(self):
        return f"{self.callee}({', '.join(map(repr, self.args))}) if {self.conds}"


class Path:
    def __init__(self, env, conds=None, events=None):
        self.env = env
        self.conds = conds or []
        self.events = events or []
        self.end = None

    def fork(self):
        env = {k: (v.copy() if isinstance(v, ListV) else v) for k, v in self.env.items()}
        return Path(env, list(self.conds), list(self.events))


class SymEval:
    def __init__(self, max_paths=4000, interest=None):
        self.max_paths = max_paths
        self.interest = interest  # predicate on callee text; None = all
        self.n = 0

    # ---- expressions -------------------------------------------------------
    def ev(self, e, p):
        if e is None:
            return Const(None)
        if isinstance(e, ast.Constant):
            return Const(e.value)
        if isinstance(e, ast.Name):
            return p.env.get(e.id, Unk(e.id))
        if isinstance(e, ast.Attribute):
            base = self.ev(e.value, p)
            if isinstance(base, StructV):
                if e.attr == "API_VERSION":
                    return Const(base.version)
                if e.attr in base.fields:
                    return base.fields[e.attr]
                return Unk(f"{base!r} has no field {e.attr}")
            if isinstance(base, Tup) and base.names and e.attr in base.names:
                return base.items[base.names.index(e.attr)]
            return Unk(unparse(e), deps_of(base))
        if isinstance(e, ast.Tuple):
            return Tup([self.ev(x, p) for x in e.elts])
        if isinstance(e, ast.List):
            return ListV([self.ev(x, p) for x in e.elts])
        if isinstance(e, ast.Subscript):
            base = self.ev(e.value, p)
            idx = self.ev(e.slice, p) if not isinstance(e.slice, ast.Slice) else None
            if isinstance(base, (Tup, ListV)) and isinstance(idx, Const) and isinstance(idx.v, int):
                if -len(base.items) <= idx.v < len(base.items):
                    return base.items[idx.v]
                return Unk(f"index {idx.v} out of range for {len(base.items)} fields")
            if isinstance(base, Tup) and isinstance(e.slice, ast.Slice):
                lo = self.ev(e.slice.lower, p) if e.slice.lower is not None else Const(None)
                hi = self.ev(e.slice.upper, p) if e.slice.upper is not None else Const(None)
                if isinstance(lo, Const) and isinstance(hi, Const) and e.slice.step is None:
                    return Tup(base.items[lo.v:hi.v])
            if isinstance(base, Arr):
                return base.elem
            return Unk(unparse(e), deps_of(base) | (deps_of(idx) if idx is not None else frozenset()))
        if isinstance(e, ast.UnaryOp):
            v = self.ev(e.operand, p)
            if isinstance(v, Const):
                try:
                    if isinstance(e.op, ast.Not):
                        return Const(not v.v)
                    if isinstance(e.op, ast.USub):
                        return Const(-v.v)
                except Exception:
                    pass
            return Unk(unparse(e))
        if isinstance(e, ast.Compare):
            vals = [self.ev(e.left, p)] + [self.ev(c, p) for c in e.comparators]
            if all(isinstance(v, Const) for v in vals):
                res = True
                try:
                    for i, op in enumerate(e.ops):
                        a, b = vals[i].v, vals[i + 1].v
                        r = {ast.Lt: lambda: a < b, ast.LtE: lambda: a <= b, ast.Gt: lambda: a > b, ast.GtE: lambda: a >= b,
                             ast.Eq: lambda: a == b, ast.NotEq: lambda: a != b, ast.Is: lambda: a is b, ast.IsNot: lambda: a is not b,
                             ast.In: lambda: a in b, ast.NotIn: lambda: a not in b}[type(op)]()
                        res = res and r
                    return Const(bool(res))
                except Exception:
                    return Unk(unparse(e))
            # a schema field is never None-by-construction in our model; leave unknown
            d = frozenset()
            for v in vals:
                d |= deps_of(v)
            return Unk(unparse(e), d)
        if isinstance(e, ast.BoolOp):
            vs = [self.ev(v, p) for v in e.values]
            if all(isinstance(v, Const) for v in vs):
                if isinstance(e.op, ast.And):
                    return Const(all(v.v for v in vs))
                return Const(any(v.v for v in vs))
            if isinstance(e.op, ast.And) and any(isinstance(v, Const) and not v.v for v in vs):
                return Const(False)
            if isinstance(e.op, ast.Or) and any(isinstance(v, Const) and v.v for v in vs):
                return Const(True)
            d = frozenset()
            for v in vs:
                d |= deps_of(v)
            return Unk(unparse(e), d)
        if isinstance(e, ast.IfExp):
            t = self.ev(e.test, p)
            if isinstance(t, Const):
                return self.ev(e.body if t.v else e.orelse, p)
            a, b = self.ev(e.body, p), self.ev(e.orelse, p)
            if repr(a) == repr(b):
                return a
            return Unk("ifexp:" + unparse(e.test), deps_of(a) | deps_of(b) | deps_of(t))
        if isinstance(e, ast.Call):
            args = []
            for a in e.args:
                if isinstance(a, ast.Starred):
                    v = self.ev(a.value, p)
                    if isinstance(v, (ListV, Tup)):
                        args.extend(v.items)
                    else:
                        args.append(Unk("*" + unparse(a.value), deps_of(v)))
                else:
                    args.append(self.ev(a, p))
            kwargs = {k.arg: self.ev(k.value, p) for k in e.keywords}
            callee = unparse(e.func)
            recv = None
            if isinstance(e.func, ast.Attribute):
                recv = self.ev(e.func.value, p)
                if isinstance(recv, ListV) and e.func.attr == "append" and len(args) == 1:
                    recv.items.append(args[0])
                    return Const(None)
                if isinstance(recv, ListV) and e.func.attr == "extend" and len(args) == 1 and isinstance(args[0], (ListV, Tup)):
                    recv.items.extend(args[0].items)
                    return Const(None)
            if self.interest is None or self.interest(callee):
                p.events.append(Event(callee, args, kwargs, p.conds, e))
            if callee == "len" and args and isinstance(args[0], Tup):
                return Const(len(args[0].items))
            if callee in ("list", "tuple") and args:
                return args[0]
            d = deps_of(recv) if recv is not None else frozenset()
            for a in list(args) + list(kwargs.values()):
                d |= deps_of(a)
            r = Unk(callee + "(...)", d)
            r.call = (callee, args, kwargs)
            return r
        if isinstance(e, ast.BinOp):
            a, b = self.ev(e.left, p), self.ev(e.right, p)
            if isinstance(a, Const) and isinstance(b, Const):
                try:
                    return Const({ast.Add: lambda: a.v + b.v, ast.Sub: lambda: a.v - b.v, ast.Mult: lambda: a.v * b.v}[type(e.op)]())
                except Exception:
                    pass
            if isinstance(e.op, ast.Add) and isinstance(a, Tup) and isinstance(b, Tup):
                return Tup(list(a.items) + list(b.items))
            r = Unk(unparse(e), deps_of(a) | deps_of(b))
            r.binop = (type(e.op).__name__, a, b)
            return r
        if isinstance(e, (ast.ListComp, ast.GeneratorExp, ast.SetComp, ast.DictComp)):
            d = frozenset()
            for g in e.generators:
                d |= deps_of(self.ev(g.iter, p))
            return Unk("comprehension", d)
        if isinstance(e, ast.JoinedStr):
            return Unk("fstring")
        if isinstance(e, ast.Await):
            return self.ev(e.value, p)
        return Unk(type(e).__name__)

    # ---- assignment ----------------------------------------------------------
    def bind(self, t, v, p):
        if isinstance(t, ast.Name):
            p.env[t.id] = v
        elif isinstance(t, (ast.Tuple, ast.List)):
            star = [i for i, x in enumerate(t.elts) if isinstance(x, ast.Starred)]
            if isinstance(v, Tup):
                n = len(t.elts)
                if not star:
                    if len(v.items) != n:
                        p.events.append(Event("<unpack-mismatch>", [Const(n), Const(len(v.items))], {}, p.conds, t))
                        for x in t.elts:
                            self.bind(x, Unk("arity mismatch"), p)
                        return
                    for x, iv in zip(t.elts, v.items):
                        self.bind(x, iv, p)
                else:
                    s = star[0]
                    after = n - s - 1
                    if len(v.items) < n - 1:
                        p.events.append(Event("<unpack-mismatch>", [Const(n - 1), Const(len(v.items))], {}, p.conds, t))
                        for x in t.elts:
                            self.bind(x.value if isinstance(x, ast.Starred) else x, Unk("arity mismatch"), p)
                        return
                    for x, iv in zip(t.elts[:s], v.items[:s]):
                        self.bind(x, iv, p)
                    self.bind(t.elts[s].value, Tup(v.items[s:len(v.items) - after]), p)
                    for x, iv in zip(t.elts[s + 1:], v.items[len(v.items) - after:] if after else []):
                        self.bind(x, iv, p)
            else:
                for i, x in enumerate(t.elts):
                    u = Unk(f"elem of {v!r}", deps_of(v))
                    u.slot = (i if not star else None, repr(v))      # which component of the unpacked value this is
                    self.bind(x.value if isinstance(x, ast.Starred) else x, u, p)
        elif isinstance(t, ast.Starred):
            self.bind(t.value, v, p)
        elif isinstance(t, (ast.Attribute, ast.Subscript)):
            # attribute / subscript stores are reported as events, not tracked in the environment
            key = self.ev(t.slice, p) if isinstance(t, ast.Subscript) else Const(None)
            if self.interest is None or self.interest("<store>"):
                p.events.append(Event("<store>", [Const(unparse(t)), v, key], {}, p.conds, t))

    # ---- statements ------------------------------------------------------------
    def run_block(self, stmts, paths):
        for s in stmts:
            nxt = []
            for p in paths:
                if p.end is not None:
                    nxt.append(p)
                    continue
                nxt.extend(self.stmt(s, p))
            paths = nxt
            self.n = max(self.n, len(paths))
            if len(paths) > self.max_paths:
                raise AnalysisError("symbolic evaluation: too many paths")
        return paths

    def branch(self, test, p):
        """(paths on which `test` holds, paths on which it does not), with short-circuit evaluation: the recorded path conditions
        are the atoms of and/or/not combinations, so `if a and b` and `if a: if b` give the same conditions."""
        if isinstance(test, ast.UnaryOp) and isinstance(test.op, ast.Not):
            ts, fs = self.branch(test.operand, p)
            return fs, ts
        if isinstance(test, ast.BoolOp):
            is_and = isinstance(test.op, ast.And)
            live, done = [p], []
            for v in test.values:
                nxt = []
                for q in live:
                    ts, fs = self.branch(v, q)
                    if is_and:
                        nxt += ts
                        done += fs
                    else:
                        nxt += fs
                        done += ts
                live = nxt
            return (live, done) if is_and else (done, live)
        t = self.ev(test, p)
        if isinstance(t, Const):
            return ([p], []) if t.v else ([], [p])
        a, b = p, p.fork()
        a.conds.append((unparse(test), True))
        b.conds.append((unparse(test), False))
        return [a], [b]

    def stmt(self, s, p):
        if isinstance(s, ast.Assign) and len(s.targets) == 1 and isinstance(s.targets[0], ast.Name) and _boolean_typed(s.value):
            # flag = <and/or/not over comparisons>: split the path here, the flag is a known constant on each side, so that a
            # later `if flag:` contributes the same path conditions as testing the expression directly
            ts, fs = self.branch(s.value, p)
            for q in ts:
                self.bind(s.targets[0], Const(True), q)
            for q in fs:
                self.bind(s.targets[0], Const(False), q)
            return ts + fs
        if isinstance(s, ast.Assign):
            v = self.ev(s.value, p)
            for t in s.targets:
                self.bind(t, v, p)
            return [p]
        if isinstance(s, ast.AnnAssign):
            if s.value is not None:
                self.bind(s.target, self.ev(s.value, p), p)
            return [p]
        if isinstance(s, ast.AugAssign):
            self.ev(s.value, p)
            self.bind(s.target, Unk(unparse(s)), p)
            return [p]
        if isinstance(s, ast.Expr):
            self.ev(s.value, p)
            return [p]
        if isinstance(s, ast.If):
            ts, fs = self.branch(s.test, p)
            return self.run_block(s.body, ts) + self.run_block(s.orelse, fs)
        if isinstance(s, (ast.For, ast.AsyncFor)):
            it = self.ev(s.iter, p)
            if isinstance(it, Arr):
                elem = it.elem
            elif isinstance(it, (ListV, Tup)) and it.items:
                elem = it.items[0]
            elif isinstance(it, Unk) and getattr(it, "call", None) and it.call[0].endswith(".items") :
                elem = Tup([Unk("key", it.deps), Unk("value", it.deps)])
            else:
                elem = Unk(f"elem of {it!r}", deps_of(it))
            self.bind(s.target, elem, p)
            outs = self.run_block(s.body, [p])
            res = []
            for o in outs:
                if o.end in ("continue", "break"):
                    o.end = None
                res.append(o)
            return res
        if isinstance(s, ast.While):
            outs = self.run_block(s.body, [p])
            for o in outs:
                if o.end in ("continue", "break"):
                    o.end = None
            return outs
        if isinstance(s, ast.Return):
            if s.value is not None:
                v = self.ev(s.value, p)
                p.events.append(Event("<return>", [v], {}, p.conds, s))
            p.end = "return"
            return [p]
        if isinstance(s, ast.Raise):
            if s.exc is not None:
                v = self.ev(s.exc, p)
                p.events.append(Event("<raise>", [v], {}, p.conds, s))
            p.end = "raise"
            return [p]
        if isinstance(s, ast.Continue):
            p.end = "continue"
            return [p]
        if isinstance(s, ast.Break):
            p.end = "break"
            return [p]
        if isinstance(s, (ast.Try,)):
            outs = self.run_block(s.body, [p])
            outs = self.run_block(s.orelse, outs)
            return self.run_block(s.finalbody, outs) if s.finalbody else outs
        if isinstance(s, (ast.With, ast.AsyncWith)):
            for it in s.items:
                v = self.ev(it.context_expr, p)
                if it.optional_vars is not None:
                    self.bind(it.optional_vars, v, p)
            return self.run_block(s.body, [p])
        if isinstance(s, (ast.Pass, ast.Assert, ast.Import, ast.ImportFrom, ast.Global, ast.Nonlocal, ast.FunctionDef, ast.AsyncFunctionDef, ast.ClassDef, ast.Delete)):
            return [p]
        raise AnalysisError(f"symbolic evaluation: unsupported statement {type(s).__name__}")

    def run_function(self, fn_ast, env):
        body = [s for s in fn_ast.body if not (isinstance(s, ast.Expr) and isinstance(s.value, ast.Constant))]
        return self.run_block(body, [Path(dict(env))])


def events_of(paths, callee_pred):
    out = []
    for p in paths:
        for e in p.events:
            if callee_pred(e.callee):
                out.append((p, e))
    return out


def _boolean_typed(e):
    """and/or/not combination whose every leaf is a comparison or a negation: its value is a bool, whatever the operands are."""
    if isinstance(e, ast.BoolOp):
        return all(_boolean_typed(v) or isinstance(v, ast.Compare) for v in e.values)
    if isinstance(e, ast.UnaryOp) and isinstance(e.op, ast.Not):
        return True
    if isinstance(e, ast.Compare):
        return True
    return False
