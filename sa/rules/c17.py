"""C17 -- keyed records choose the same partition as the Java client."""
from __future__ import annotations

import ast

from ..loader import AnalysisError, call_attr, call_name, dotted, unparse
from ..rulekit import arg_of, const_value, def_value, is_none_test, local_defs
from .. import interval

PART = "aiokafka.partitioner.DefaultPartitioner"
MASK32 = 0xFFFFFFFF


# ---- symbolic 32-bit terms ---------------------------------------------------------------
def C(v):
    return ("const", v)


def S(name):
    return ("sym", name)


def byte(kind, k):
    return ("byte", kind, k)


def mk(op, a, b):
    if op in ("xor", "add", "mul", "or") and repr(b) < repr(a):
        a, b = b, a
    return (op, a, b)


def simp(t):
    """Normal form modulo 2^32: masks to 32 bits and `% 2^32` vanish (every ring operation commutes with them; right shifts are covered by
    the width rule), `byte & 0xFF` is the byte."""
    if not isinstance(t, tuple) or t[0] in ("const", "sym", "byte", "bytes"):
        return t
    op = t[0]
    if op == "sext":
        n, x = t[1], simp(t[2])
        return x if n in (0, 4) else ("sext", n, x)
    args = [simp(x) for x in t[1:]]
    if op == "and" and len(args) == 2:
        for x, y in ((args[0], args[1]), (args[1], args[0])):
            if y == C(MASK32):
                return x
            if y == C(0xFF) and x[0] == "byte":
                return x
        return mk("and", args[0], args[1])
    if op == "mod" and args[1] == C(1 << 32):
        return args[0]
    if op == "sext":
        # sign extension of an n-byte little-endian value: invisible modulo 2^32 exactly when n == 4
        n, x = t[1], simp(t[2])
        if n == 4 or n == 0:
            return x
        return ("sext", n, x)
    if op in ("xor", "add", "mul", "or"):
        return mk(op, args[0], args[1])
    return (op, *args)


class _Undecided(Exception):
    pass


class SymExec:
    """Evaluates the straight-line / if fragment murmur2 is written in, on symbolic 32-bit terms."""
    module_consts = {}      # module-level integer constants of the partitioner module (a literal may be given a name there)

    def __init__(self, env, pinned=None, tail_len=None, len_name=None):
        self.env = dict(env)
        self.pinned = dict(pinned or {})
        self.ret = None
        self.tail_len = tail_len      # length % 4 in the phase that evaluates the tail
        self.len_name = len_name
        self.oracle = []              # decisions for tests on the (unknown) length: replayed by the driver
        self.trace = []               # (operator, constant, taken) of every such test met

    def idx(self, e):
        """Index expression -> ('blk', k) for 4*i + k, ('tail', k) for (length & ~3) + k, else None."""
        v = self.lin(e)
        return v

    def lin(self, e):
        # returns dict form {'i4': coeff, 'tail': coeff, 'c': const} or None
        if isinstance(e, ast.Constant) and isinstance(e.value, int):
            return {"c": e.value}
        if isinstance(e, ast.Name):
            v = self.env.get(e.id)
            if isinstance(v, dict):
                return v
            if isinstance(v, tuple) and v[0] == "const":
                return {"c": v[1]}
            if v == S("len"):
                return {"len": 1}
            return getattr(self, "lindefs", {}).get(e.id)
        if isinstance(e, ast.BinOp):
            if isinstance(e.op, ast.Add):
                a, b = self.lin(e.left), self.lin(e.right)
                if a is None or b is None:
                    return None
                out = dict(a)
                for k, v in b.items():
                    out[k] = out.get(k, 0) + v
                return out
            if isinstance(e.op, ast.Mult):
                a, b = self.lin(e.left), self.lin(e.right)
                if a is None or b is None:
                    return None
                out = None
                if set(a) <= {"c"}:
                    out = {k: v * a.get("c", 0) for k, v in b.items()}
                elif set(b) <= {"c"}:
                    out = {k: v * b.get("c", 0) for k, v in a.items()}
                if out is not None and out.get("n4", 0) and out["n4"] % 4 == 0:
                    # 4 * (length // 4) is the byte offset of the tail
                    out["tail"] = out.get("tail", 0) + out.pop("n4") // 4
                return out
            if isinstance(e.op, (ast.Mod, ast.BitAnd)) and unparse(e) in (f"{self.len_name or 'length'} % 4", f"{self.len_name or 'length'} & 3"):
                # length % 4 = length - tail offset
                return {"len": 1, "tail": -1}
            if isinstance(e.op, ast.BitAnd):
                # length & ~3  : byte offset of the tail (= 4 * (length // 4))
                l, r = unparse(e.left), unparse(e.right)
                if {l, r} in ({self.len_name or "length", "~3"}, {self.len_name or "length", "-4"}):
                    return {"tail": 1}
                return None
            if isinstance(e.op, ast.Sub):
                # length - length % 4
                if unparse(e.left) == (self.len_name or "length") and unparse(e.right) in (f"{self.len_name or 'length'} % 4", f"{self.len_name or 'length'} & 3"):
                    return {"tail": 1}
                a, b = self.lin(e.left), self.lin(e.right)
                if a is None or b is None:
                    return None
                out = dict(a)
                for k, v in b.items():
                    out[k] = out.get(k, 0) - v
                return out
        return None

    def ev(self, e):
        if isinstance(e, ast.Constant) and isinstance(e.value, int) and not isinstance(e.value, bool):
            return C(e.value)
        if isinstance(e, ast.Name):
            v = self.env.get(e.id)
            if isinstance(v, dict):
                raise AnalysisError(f"murmur2: index variable {e.id} used as a value")
            if v is None:
                if e.id in SymExec.module_consts:
                    return C(SymExec.module_consts[e.id])
                raise AnalysisError(f"murmur2: unbound name {e.id}")
            return v
        if isinstance(e, ast.Subscript) and not isinstance(e.slice, ast.Slice) and isinstance(e.value, ast.Name) and self.env.get(e.value.id) == S("data"):
            l = self.lin(e.slice)
            if l is None:
                return ("byte", "?", unparse(e.slice))
            l = {k: v for k, v in l.items() if v}
            if set(l) <= {"i", "c"} and l.get("i", 0) == 4:
                return byte("blk", l.get("c", 0))
            if set(l) <= {"tail", "c"} and l.get("tail", 0) == 1:
                return byte("tail", l.get("c", 0))
            return ("byte", "?", unparse(e.slice))
        if isinstance(e, ast.BinOp) and self.tail_len is not None and unparse(e) in (f"{self.len_name or 'length'} % 4", f"{self.len_name or 'length'} & 3"):
            return C(self.tail_len)
        if isinstance(e, ast.BinOp) and self.tail_len is not None and isinstance(e.op, (ast.Sub, ast.Add)):
            # length - (offset of the tail)  ==  length % 4
            l = self.lin(e)
            if l is not None and {k: v for k, v in l.items() if v and k != "c"} == {"len": 1, "tail": -1}:
                return C(self.tail_len + l.get("c", 0))
        if isinstance(e, ast.BinOp):
            a, b = self.ev(e.left), self.ev(e.right)
            op = {ast.BitXor: "xor", ast.Add: "add", ast.Mult: "mul", ast.BitAnd: "and", ast.BitOr: "or", ast.LShift: "shl", ast.RShift: "shr", ast.Mod: "mod"}.get(type(e.op))
            if op is None:
                raise AnalysisError(f"murmur2: unsupported operator {type(e.op).__name__}")
            if a[0] == "const" and b[0] == "const" and op in ("shl", "xor", "and", "or", "add", "mul"):
                pass
            return (op, a, b)
        if isinstance(e, ast.Subscript) and isinstance(e.slice, ast.Slice) and isinstance(e.value, ast.Name) and self.env.get(e.value.id) == S("data") \
                and isinstance(e.slice.lower, ast.UnaryOp) and isinstance(e.slice.lower.op, ast.USub) and e.slice.upper is None and e.slice.step is None and self.tail_len is not None:
            # data[-k:] : the last k bytes -- but for k == 0 Python reads `data[-0:]`, the WHOLE buffer
            kv = self.ev(e.slice.lower.operand)
            if kv[0] == "const":
                if kv[1] == 0:
                    return ("bytes", "whole", 0, None)
                if kv[1] == self.tail_len:
                    return ("bytes", "tail", 0, kv[1])
            return ("call", unparse(e))
        if isinstance(e, ast.Subscript) and not isinstance(e.slice, ast.Slice) and isinstance(e.value, ast.Name) and isinstance(self.env.get(e.value.id), tuple) \
                and self.env.get(e.value.id)[0] == "bytes" and isinstance(e.slice, ast.Constant) and isinstance(e.slice.value, int) and e.slice.value >= 0:
            _b, kind, start, _n = self.env[e.value.id]
            return byte(kind, start + e.slice.value)
        if isinstance(e, ast.Subscript) and isinstance(e.slice, ast.Slice) and isinstance(e.value, ast.Name) and self.env.get(e.value.id) == S("data"):
            lo = self.lin(e.slice.lower) if e.slice.lower is not None else {"c": 0}
            if lo is not None and e.slice.step is None:
                lo = {k: v for k, v in lo.items() if v}
                if e.slice.upper is not None:
                    hi = self.lin(e.slice.upper)
                    if hi is not None:
                        d = {k: hi.get(k, 0) - lo.get(k, 0) for k in set(hi) | set(lo)}
                        d = {k: v for k, v in d.items() if v}
                        if set(d) <= {"c"}:
                            n = d.get("c", 0)
                            if set(lo) <= {"i", "c"} and lo.get("i", 0) == 4:
                                return ("bytes", "blk", lo.get("c", 0), n)
                            if set(lo) <= {"tail", "c"} and lo.get("tail", 0) == 1:
                                return ("bytes", "tail", lo.get("c", 0), n)
                elif set(lo) <= {"tail", "c"} and lo.get("tail", 0) == 1 and self.tail_len is not None:
                    return ("bytes", "tail", lo.get("c", 0), max(self.tail_len - lo.get("c", 0), 0))
            return ("call", unparse(e))
        if isinstance(e, ast.Call):
            f = unparse(e.func)
            if f == "int.from_bytes" and e.args:
                src = self.ev(e.args[0])
                order = None
                if len(e.args) > 1 and isinstance(e.args[1], ast.Constant):
                    order = e.args[1].value
                signed = False
                for k in e.keywords:
                    if k.arg == "byteorder" and isinstance(k.value, ast.Constant):
                        order = k.value.value
                    if k.arg == "signed" and isinstance(k.value, ast.Constant):
                        signed = bool(k.value.value)
                if isinstance(src, tuple) and src[0] == "bytes" and order in ("little", "big"):
                    _b, kind, start, n = src
                    term = C(0)
                    for j in range(n):
                        sh = 8 * j if order == "little" else 8 * (n - 1 - j)
                        bt = byte(kind, start + j)
                        piece = bt if sh == 0 else ("shl", bt, C(sh))
                        term = piece if term == C(0) else mk("add", term, piece)
                    return ("sext", n, term) if signed else term
            if f == "len" and e.args:
                v = self.ev(e.args[0])
                if isinstance(v, tuple) and v[0] == "bytes":
                    return C(v[3]) if v[3] is not None else S("len")
            return ("call", unparse(e))
        if isinstance(e, ast.UnaryOp) and isinstance(e.op, ast.Invert):
            v = self.ev(e.operand)
            if v[0] == "const":
                return C(~v[1])
        raise AnalysisError(f"murmur2: unsupported expression {unparse(e)[:50]}")

    def run(self, stmts):
        stmts = list(stmts)
        while stmts:
            s = stmts.pop(0)
            if self.ret is not None:
                return
            if (isinstance(s, ast.Assign) and len(s.targets) == 1 and isinstance(s.targets[0], ast.Tuple) and isinstance(s.value, ast.Tuple)
                    and len(s.targets[0].elts) == len(s.value.elts) and all(isinstance(t, ast.Name) for t in s.targets[0].elts)):
                # a, b = x, y : simultaneous assignment; sequential when no right-hand side reads a target
                tg = {t.id for t in s.targets[0].elts}
                if not any(isinstance(n, ast.Name) and n.id in tg for v in s.value.elts for n in ast.walk(v)):
                    stmts[0:0] = [ast.Assign(targets=[t], value=v) for t, v in zip(s.targets[0].elts, s.value.elts)]
                    continue
            if isinstance(s, ast.Assign) and len(s.targets) == 1 and isinstance(s.targets[0], ast.Name):
                n = s.targets[0].id
                if n in self.pinned:
                    self.env[n] = self.pinned[n]
                    continue
                l = self.lin(s.value)
                if l is not None and any(k != "c" for k in l) and not l.get("len"):
                    self.env[n] = l
                else:
                    self.env[n] = self.ev(s.value)
                    if not hasattr(self, "lindefs"):
                        self.lindefs = {}
                    if l is not None:
                        self.lindefs[n] = l
                    else:
                        self.lindefs.pop(n, None)
            elif isinstance(s, ast.AugAssign) and isinstance(s.target, ast.Name):
                cur = self.ev(ast.Name(id=s.target.id, ctx=ast.Load()))
                rhs = self.ev(s.value)
                op = {ast.BitXor: "xor", ast.Add: "add", ast.Mult: "mul", ast.BitAnd: "and", ast.BitOr: "or", ast.LShift: "shl", ast.RShift: "shr", ast.Mod: "mod"}.get(type(s.op))
                if op is None:
                    raise AnalysisError("murmur2: unsupported augmented operator")
                self.env[s.target.id] = (op, cur, rhs)
            elif isinstance(s, ast.If):
                t = s.test
                if isinstance(t, ast.Compare) and len(t.ops) == 1 and isinstance(t.left, ast.Name):
                    lv = self.env.get(t.left.id)
                    rv = const_value(t.comparators[0])
                    if isinstance(lv, tuple) and lv[0] == "const" and rv is not None:
                        a, b = lv[1], rv
                        r = {ast.GtE: a >= b, ast.Gt: a > b, ast.Eq: a == b, ast.LtE: a <= b, ast.Lt: a < b, ast.NotEq: a != b}.get(type(t.ops[0]))
                        if r is not None:
                            self.run(s.body if r else s.orelse)
                            continue
                if isinstance(t, ast.Name):
                    lv = self.env.get(t.id)
                    if isinstance(lv, tuple) and lv[0] == "bytes":
                        self.run(s.body if lv[3] > 0 else s.orelse)
                        continue
                    if isinstance(lv, tuple) and lv[0] == "const":
                        self.run(s.body if lv[1] else s.orelse)
                        continue
                if isinstance(t, ast.Compare) and len(t.ops) == 1 and isinstance(t.left, ast.Name) and self.env.get(t.left.id) == S("len") and const_value(t.comparators[0]) is not None \
                        and self.tail_len is not None:
                    # a test on the length itself: both outcomes are explored by the driver (which keeps the lengths compatible with length % 4)
                    i_ = len(self.trace)
                    if i_ >= len(self.oracle):
                        raise _Undecided(i_)
                    taken = self.oracle[i_]
                    self.trace.append((type(t.ops[0]).__name__, const_value(t.comparators[0]), taken))
                    self.run(s.body if taken else s.orelse)
                    continue
                raise AnalysisError(f"murmur2: undecidable branch {unparse(t)[:40]}")
            elif isinstance(s, ast.Return):
                self.ret = self.ev(s.value)
            elif isinstance(s, ast.Expr) and isinstance(s.value, ast.Constant):
                continue
            elif isinstance(s, ast.Pass):
                continue
            else:
                raise AnalysisError(f"murmur2: unsupported statement {type(s).__name__}")


def reference():
    """Java Utils.murmur2 (Appendix A.4 of DESIGN.md) as terms."""
    m, r, seed = C(0x5BD1E995), C(24), C(0x9747B28C)
    init = mk("xor", seed, S("len"))
    h = S("h")
    k = mk("add", mk("add", mk("add", byte("blk", 0), ("shl", byte("blk", 1), C(8))), ("shl", byte("blk", 2), C(16))), ("shl", byte("blk", 3), C(24)))
    k = mk("mul", k, m)
    k = mk("xor", k, ("shr", k, r))
    k = mk("mul", k, m)
    loop = mk("xor", mk("mul", h, m), k)
    fin = {}
    for e in range(4):
        x = h
        if e >= 3:
            x = mk("xor", x, ("shl", byte("tail", 2), C(16)))
        if e >= 2:
            x = mk("xor", x, ("shl", byte("tail", 1), C(8)))
        if e >= 1:
            x = mk("xor", x, byte("tail", 0))
            x = mk("mul", x, m)
        x = mk("xor", x, ("shr", x, C(13)))
        x = mk("mul", x, m)
        x = mk("xor", x, ("shr", x, C(15)))
        fin[e] = x
    return init, loop, fin


def _piece(x):
    """(byte term, shift) when x is a byte placed at a byte-aligned position below 32 bits."""
    if isinstance(x, tuple) and x[0] == "byte":
        return (x, 0)
    if isinstance(x, tuple) and x[0] == "shl" and isinstance(x[1], tuple) and x[1][0] == "byte" and x[2][0] == "const" and x[2][1] in (8, 16, 24):
        return (x[1], x[2][1])
    if isinstance(x, tuple) and x[0] == "bytesum" and len(x[1]) == 1:
        return x[1][0]
    return None


def _canon(t):
    """Flatten associative-commutative chains so that a+b+c compares equal irrespective of grouping."""
    t = simp(t)
    if not isinstance(t, tuple) or t[0] in ("const", "sym", "byte", "call"):
        return t
    op = t[0]
    if op in ("xor", "add", "mul", "or"):
        items = []

        def flat(x):
            x = simp(x)
            if isinstance(x, tuple) and x[0] == op:
                flat(x[1])
                flat(x[2])
            else:
                items.append(_canon(x))
        flat(t)
        # bytes placed at distinct byte positions combine identically under +, | and ^
        pieces, rest = [], []
        for x in items:
            pc = _piece(x)
            (pieces if pc is not None else rest).append(pc if pc is not None else x)
        if pieces and len({sh for _b, sh in pieces}) == len(pieces) and (op == "xor" or not rest):
            bs = ("bytesum", tuple(sorted(pieces, key=repr)))
            if not rest:
                return bs
            return (op, tuple(sorted(rest + [bs], key=repr)))
        return (op, tuple(sorted(items, key=repr)))
    return (op, *[_canon(x) for x in t[1:]])


def rule_murmur(ctx):
    R = "murmur2-dataflow"
    ctx.rep.rule(R, "symbolic 32-bit evaluation of murmur2's AST (initial value, one loop iteration over bytes 4i..4i+3, the tail for "
                    "length % 4 in {0,1,2,3}, the finaliser) equals, term for term modulo 2^32, the Java Utils.murmur2 (seed 0x9747b28c, "
                    "m 0x5bd1e995, r 24, shifts 13/15, little-endian block, tail bytes 2,1,0 then one multiply); byte access by index, by "
                    "slice and through int.from_bytes is understood (a sign-extended 1..3 byte tail is not Java's)")
    fi = ctx.fn("aiokafka.partitioner.murmur2")
    from ..rulekit import flatten_const_ifs
    body = [s for s in flatten_const_ifs(fi.node.body) if not (isinstance(s, ast.Expr) and isinstance(s.value, ast.Constant))]
    loops = [s for s in body if isinstance(s, ast.For)]
    ctx.anchor(len(loops) == 1, "one block loop in murmur2")
    li = body.index(loops[0])
    pre, loop, post = body[:li], loops[0], body[li + 1:]
    p = fi.params()[0]
    ref_init, ref_loop, ref_fin = reference()
    # `length = len(data)`
    ln = None
    preA = []
    for s in pre:
        if isinstance(s, ast.Assign) and isinstance(s.value, ast.Call) and unparse(s.value) == f"len({p})" and isinstance(s.targets[0], ast.Name):
            ln = s.targets[0].id
        else:
            preA.append(s)
    ctx.anchor(ln is not None, "length = len(data)")
    SymExec.module_consts = {st.targets[0].id: const_value(st.value) for st in fi.module.tree.body
                             if isinstance(st, ast.Assign) and len(st.targets) == 1 and isinstance(st.targets[0], ast.Name) and isinstance(const_value(st.value), int)
                             and not isinstance(const_value(st.value), bool)}
    se = SymExec({p: S("data"), ln: S("len")}, len_name=ln)
    # block count variable(s): X = length // 4 (also length >> 2)
    cnt = [s for s in preA if isinstance(s, ast.Assign) and isinstance(s.targets[0], ast.Name) and unparse(s.value) in (f"{ln} // 4", f"{ln} >> 2")]
    for s in cnt:
        se.env[s.targets[0].id] = {"n4": 1}
    se.run([s for s in preA if s not in cnt])
    hname = "h"
    ctx.anchor(hname in se.env, "hash accumulator `h`")
    got_init = _canon(se.env[hname])
    ctx.ob(R, fi, fi.node, got_init == _canon(ref_init), f"initial hash is {se.env[hname]}, Java: seed ^ length", text="init")
    # loop header: for i in range(length // 4)  |  for i4 in range(0, 4 * (length // 4), 4)
    it = loop.iter
    ok_iter, loopvar = False, None
    if isinstance(it, ast.Call) and unparse(it.func) == "range" and isinstance(loop.target, ast.Name):
        if len(it.args) == 1:
            n = se.lin(it.args[0]) if not (isinstance(it.args[0], ast.BinOp)) else None
            if n is None and unparse(it.args[0]) in (f"{ln} // 4", f"{ln} >> 2"):
                n = {"n4": 1}
            ok_iter = n is not None and {k: v for k, v in n.items() if v} == {"n4": 1}
            loopvar = {"i": 1}
        elif len(it.args) == 3:
            st, sp, step = se.lin(it.args[0]), se.lin(it.args[1]), se.lin(it.args[2])
            ok_iter = st == {"c": 0} and step == {"c": 4} and sp is not None and {k: v for k, v in sp.items() if v} == {"tail": 1}
            loopvar = {"i": 4}
    word_loop = None
    if isinstance(it, ast.Call) and call_attr(it) == "iter_unpack" and isinstance(loop.target, (ast.Tuple, ast.List)) and len(loop.target.elts) == 1 \
            and isinstance(loop.target.elts[0], ast.Name):
        # for (k,) in struct.Struct("<I").iter_unpack(data[:U]) : k is the little-endian word of the block; U must be the tail offset
        fmt = None
        recv = it.func.value
        if isinstance(recv, ast.Name) and recv.id == "struct" and it.args and isinstance(it.args[0], ast.Constant):
            fmt, bufe = it.args[0].value, (it.args[1] if len(it.args) > 1 else None)
        else:
            bufe = it.args[0] if it.args else None
            for st_ in fi.module.tree.body:
                if isinstance(st_, ast.Assign) and unparse(st_.targets[0]) == unparse(recv) and isinstance(st_.value, ast.Call) \
                        and unparse(st_.value.func) in ("struct.Struct", "Struct") and st_.value.args and isinstance(st_.value.args[0], ast.Constant):
                    fmt = st_.value.args[0].value
        inner = bufe
        if isinstance(inner, ast.Subscript) and isinstance(inner.slice, ast.Slice):
            base = inner.value
            if isinstance(base, ast.Call) and unparse(base.func) in ("memoryview", "bytes") and base.args:
                base = base.args[0]
            up = se.lin(inner.slice.upper) if inner.slice.upper is not None else None
            lo_ok = inner.slice.lower is None or se.lin(inner.slice.lower) == {"c": 0}
            ok_iter = fmt == "<I" and unparse(base) == p and lo_ok and up is not None and {k_: v_ for k_, v_ in up.items() if v_} == {"tail": 1} and inner.slice.step is None
        else:
            ok_iter = False
        word_loop = loop.target.elts[0].id
    ctx.ob(R, fi, loop, ok_iter, f"block loop `for {unparse(loop.target)} in {unparse(it)[:70]}` does not visit exactly the length // 4 whole blocks "
                                 "(a negative slice bound such as [:-(length % 4)] is EMPTY when the length is a multiple of 4)", text="block-count")
    # phase B: one iteration
    envB = dict(se.env)
    envB[hname] = S("h")
    if word_loop is not None:
        envB[word_loop] = mk("add", mk("add", mk("add", byte("blk", 0), ("shl", byte("blk", 1), C(8))), ("shl", byte("blk", 2), C(16))), ("shl", byte("blk", 3), C(24)))
    elif isinstance(loop.target, ast.Name):
        envB[loop.target.id] = loopvar or {"i": 1}
    else:
        raise AnalysisError(f"murmur2: block loop target `{unparse(loop.target)}` not understood")
    sb = SymExec(envB, len_name=ln)
    sb.run(loop.body)
    got_loop = _canon(sb.env[hname])
    ctx.ob(R, fi, loop, got_loop == _canon(ref_loop), "one block iteration differs from Java's `k*=m; k^=k>>>24; k*=m; h*=m; h^=k` over the little-endian block", text="block")
    # phase C: tail + finaliser for each length % 4
    for e in range(4):
        # the straight-line prologue is pure: re-evaluate it knowing length % 4 == e (a hoisted `extra = length % 4` is a constant here)
        import operator as _op
        CMP = {"GtE": _op.ge, "Gt": _op.gt, "Eq": _op.eq, "LtE": _op.le, "Lt": _op.lt, "NotEq": _op.ne}
        pending, ok, witness = [[]], True, None
        n_runs = 0
        while pending:
            oracle = pending.pop()
            n_runs += 1
            if n_runs > 64:
                raise AnalysisError("murmur2: too many length-dependent branches in the tail")
            sc = SymExec({p: S("data"), ln: S("len")}, tail_len=e, len_name=ln)
            sc.oracle = oracle
            for s_ in cnt:
                sc.env[s_.targets[0].id] = {"n4": 1}
            try:
                sc.run([s_ for s_ in preA if s_ not in cnt])
                sc.env[hname] = S("h")
                sc.run(post)
            except _Undecided:
                pending += [oracle + [True], oracle + [False]]
                continue
            ctx.anchor(sc.ret is not None, "murmur2 returns")
            # lengths (congruent to e modulo 4) on which exactly this sequence of outcomes happens
            lens = [L for L in range(e, 260, 4) if all(CMP[o](L, k_) == tk for o, k_, tk in sc.trace)]
            if not lens:
                continue
            if _canon(sc.ret) != _canon(ref_fin[e]):
                ok, witness = False, lens[0]
        ctx.rep.ob(R, ctx.site(fi, fi.node), f"{fi.qualname}|tail-{e}", ok, f"tail + finaliser for length % 4 == {e}" + (f" (e.g. a key of {witness} bytes)" if witness is not None else "") +
                   f" differs from Java's (bytes {list(range(e))} mixed in unsigned, multiply iff >= 1, then >>>13, *m, >>>15)")


def _expand_chain(c, name_node, at):
    """Expression a local holds at `at` when it is built by a straight chain  x = A; x op= B; x op= C  that dominates `at`."""
    nm = name_node.id
    ds = local_defs(c, nm)
    if not ds or not all(c.dominates(a, b) for a, b in zip(ds, ds[1:])) or not c.dominates(ds[-1], at):
        return None
    expr = None
    for d in ds:
        st = d.stmt
        if isinstance(st, ast.Assign) and len(st.targets) == 1 and expr is None:
            expr = st.value
        elif isinstance(st, ast.AugAssign) and expr is not None:
            expr = ast.BinOp(left=expr, op=st.op, right=st.value)
        else:
            return None
    return expr


def rule_width(ctx):
    R = "width"
    ctx.rep.rule(R, "interval: every value that is shifted right, reduced modulo the partition count, or returned lies in [0, 2^32) "
                    "(so Python's unbounded ints behave like Java's 32-bit ints there); the partition index is masked to 31 bits before the modulo")
    fi = ctx.fn("aiokafka.partitioner.murmur2")
    bad = []
    seen = [0]

    def obs(node, a, b):
        op = node.op
        if isinstance(op, ast.RShift):
            seen[0] += 1
            if not a.within(0, MASK32):
                bad.append((node, a))

    # Java arrays (and Kafka keys) are shorter than 2**31 bytes: the comparison with the Java client is only defined there
    res = interval.run_function(fi.node, {fi.params()[0]: interval.TOP}, observe=obs, len_hi=(1 << 31) - 1)
    ctx.ob(R, fi, fi.node, seen[0] >= 3, f"only {seen[0]} right shifts seen", text="shifts-seen")
    ctx.ob(R, fi, fi.node, not bad, f"right shift of a value outside [0,2^32): {[(unparse(n)[:40], repr(iv)) for n, iv in bad[:2]]}", text="shift-operands")
    ctx.ob(R, fi, fi.node, res.returned is not None and res.returned.within(0, MASK32), f"murmur2 returns {res.returned}", text="return-range")
    fc = ctx.fn(f"{PART}.__call__")
    c = ctx.cfg(fc)
    rets = [r for r in c.nodes if r.kind == "return" and isinstance(r.ast.value, ast.Subscript)]
    ok = len(rets) == 1
    if ok:
        ps = fc.params()
        sl = rets[0].ast.value.slice
        class _Exp(ast.NodeTransformer):
            def __init__(self):
                self.depth = 0

            def visit_Name(self, n):
                if isinstance(n.ctx, ast.Load) and n.id not in ps and n.id in mconsts and not local_defs(c, n.id):
                    return ast.Constant(value=mconsts[n.id])      # a module-level name for a literal
                if isinstance(n.ctx, ast.Load) and n.id not in ps and self.depth < 4:
                    e = _expand_chain(c, n, rets[0])
                    if e is not None:
                        self.depth += 1
                        out = self.visit(ast.parse(unparse(e), mode="eval").body)
                        self.depth -= 1
                        return out
                return n
        mconsts = {st.targets[0].id: const_value(st.value) for st in fc.module.tree.body
                   if isinstance(st, ast.Assign) and len(st.targets) == 1 and isinstance(st.targets[0], ast.Name) and isinstance(const_value(st.value), int)
                   and not isinstance(const_value(st.value), bool)}
        expr = _Exp().visit(ast.parse(unparse(sl), mode="eval").body)
        want = f"(murmur2({ps[1]}) & 2147483647) % len({ps[2]})"
        ok = expr is not None and unparse(expr) == want and unparse(rets[0].ast.value.value) == ps[2]
    ctx.ob(R, fc, fc.node, ok, "keyed partition is not all_partitions[(murmur2(key) & 0x7fffffff) % len(all_partitions)]", text="index-chain")


def rule_route(ctx):
    R = "route"
    ctx.rep.rule(R, "keyed records: the choice reads only the key and all_partitions (no data flow from `available`); unkeyed records choose "
                    "from `available` when it is non-empty; all_partitions handed to the partitioner is ordered by partition id (sorted, or a list "
                    "of the cluster's *set* of ids -- both sites are checked together)")
    fc = ctx.fn(f"{PART}.__call__")
    c = ctx.cfg(fc)
    ps = fc.params()
    from ..rulekit import none_tests
    kts = none_tests(c, ps[1])
    ctx.anchor(len(kts) == 1, f"exactly one None-ness test of `{ps[1]}` (found {len(kts)})")
    kt, _l_none, l_keyed = kts[0]
    keyed = c.reachable([m for m, l in kt.succ if l == l_keyed], include_src=True)
    reads = set()
    for n in keyed:
        if n.ast is not None and n.kind in ("stmt", "return", "call", "test", "store"):
            for x in ast.walk(n.stmt if n.stmt is not None else n.ast):
                if isinstance(x, ast.Name):
                    reads.add(x.id)
    ctx.ob(R, fc, kt, ps[3] not in reads and "random" not in reads, f"keyed path reads {sorted(reads & {ps[3], 'random'})}: the partition of a keyed record depends on availability / chance", text="keyed-independent")
    # unkeyed: evaluate the body with key = None for an empty and a non-empty `available`
    from .. import finite
    got = {}
    ok = True
    for label, av in (("empty", []), ("some", ["A1"])):
        env = {ps[1]: None, ps[3]: av, ps[2]: ["P0", "P1"], "__calls__": {"random.choice": lambda x: ("choice", tuple(x))}}
        try:
            finite.run(fc.node.body, env, set())
            got[label] = None
        except finite._Return as r:
            got[label] = r.v
        except Exception as e:      # a construct the finite evaluator does not understand: cannot decide
            raise AnalysisError(f"route: cannot evaluate {fc.qualname} for key=None: {e}")
    ok = got == {"empty": ("choice", ("P0", "P1")), "some": ("choice", ("A1",))}
    ctx.ob(R, fc, kt, ok, "unkeyed records do not go to an available partition whenever one is available", text="unkeyed-available")
    fp = ctx.fn("aiokafka.producer.producer.AIOKafkaProducer._partition")
    cp = ctx.cfg(fp)
    call = [n for n in cp.nodes if n.kind == "call" and unparse(n.ast.func) == "self._partitioner"]
    call = ctx.one(call, "self._partitioner(...) call")
    a = [unparse(x) for x in call.ast.args]
    ok = len(a) == 3 and a[0] == fp.params()[5]
    ctx.ob(R, fp, call, ok, f"partitioner is called with {a} (first argument must be the serialized key)", text="partitioner-args")
    ad = local_defs(cp, a[1]) if len(a) == 3 else []
    ok = len(ad) == 1
    sorted_here = False
    if ok:
        v = def_value(ad[0])
        txt = unparse(v)
        sorted_here = txt.startswith("sorted(")
        ok = "self._metadata.partitions_for_topic(topic)" in txt and (txt.startswith("list(") or sorted_here)
    ctx.ob(R, fp, fp.node, ok, "all_partitions is not the cluster's partitions of the topic", text="all-partitions-source")
    av = local_defs(cp, a[2]) if len(a) == 3 else []
    ctx.ob(R, fp, fp.node, len(av) == 1 and "available_partitions_for_topic(topic)" in unparse(def_value(av[0])), "available is not the cluster's available partitions", text="available-source")
    fm = ctx.fn("aiokafka.cluster.ClusterMetadata.partitions_for_topic")
    cm = ctx.cfg(fm)
    rets = [r for r in cm.nodes if r.kind == "return" and not (isinstance(r.ast.value, ast.Constant) and r.ast.value.value is None)]
    is_set = len(rets) == 1 and ((isinstance(rets[0].ast.value, ast.Call) and unparse(rets[0].ast.value.func) == "set") or isinstance(rets[0].ast.value, (ast.SetComp, ast.Set)))
    ctx.ob(R, fm, fm.node, sorted_here or is_set, "the producer turns partitions_for_topic() into a list without sorting, so it relies on it being a *set* of ids "
                                                 "(ascending when listed); it now returns something whose order is the broker's listing order", text="ordered-by-id")
    # explicit partition bypasses the partitioner
    from ..rulekit import none_tests as _nts
    pt = _nts(cp, fp.params()[2])
    ok = len(pt) == 1 and call not in cp.reachable([m for m, l in pt[0][0].succ if l == pt[0][2]], include_src=True)
    ctx.ob(R, fp, fp.node, ok, "an explicit partition does not bypass the partitioner", text="explicit-partition")
    # send() passes the serialized key
    fs = ctx.fn("aiokafka.producer.producer.AIOKafkaProducer.send")
    cs = ctx.cfg(fs)
    pc = ctx.one(cs.calls(attr="_partition"), "_partition call in send")
    a = [unparse(x) for x in pc.ast.args]
    ctx.ob(R, fs, pc, len(a) == 6 and a[4] == "key_bytes" and a[0] == "topic", f"_partition({a})", text="send-passes-key-bytes")
    # ... and the CALLER's partition: the explicit-partition path skips the partitioner (and with it the availability filter), so send() may
    # take it only with the value the application passed -- the parameter reaches _partition un-rebound
    pn = fs.params()
    pname = "partition" if "partition" in pn else None
    rebinds = [d for d in local_defs(cs, pname or "") if cs.path_exists(d, pc, exc=False)] if pname else []
    ctx.ob(R, fs, pc, pname is not None and len(a) >= 2 and a[1] == pname and not rebinds,
           f"send() passes `{a[1] if len(a) > 1 else '?'}` as the explicit partition" + (f" after re-binding it at line {rebinds[0].lineno}" if rebinds else "") +
           ": a partition chosen by send() itself bypasses the partitioner and its available-partitions filter", text="send-passes-user-partition")
    f0 = ctx.fn("aiokafka.producer.producer.AIOKafkaProducer.__init__")
    mod = ctx.repo.module("aiokafka.producer.producer")
    dflt = [unparse(s.value) for s in mod.tree.body if isinstance(s, ast.Assign) and unparse(s.targets[0]) == "_DEFAULT_PARTITIONER"]
    st = ctx.cfg(f0).stores(attr="_partitioner")
    ok = "partitioner=_DEFAULT_PARTITIONER" in unparse(f0.node.args) and dflt == ["DefaultPartitioner()"] and len(st) == 1 and unparse(st[0].stmt.value) == "partitioner"
    ctx.ob(R, f0, f0.node, ok, "the default partitioner is not DefaultPartitioner()", text="default-partitioner")


def rule_available(ctx):
    R = "available"
    ctx.rep.rule(R, "the `available` set handed to the partitioner is the set of partitions that have a leader: the filter of "
                    "ClusterMetadata.available_partitions_for_topic is evaluated over leader ids {-1, 0, 1, 1001} and must hold exactly for the "
                    "ids that denote a broker (0 is a valid broker id, -1 means no leader); the comprehension yields the partition id")
    from .. import finite
    fm = ctx.fn("aiokafka.cluster.ClusterMetadata.available_partitions_for_topic")
    comps = [n for n in ast.walk(fm.node) if isinstance(n, (ast.SetComp, ast.ListComp, ast.GeneratorExp))]
    ctx.anchor(len(comps) == 1 and len(comps[0].generators) == 1, "one comprehension in available_partitions_for_topic")
    g = comps[0].generators[0]
    ok_shape = isinstance(g.target, ast.Tuple) and len(g.target.elts) == 2 and unparse(comps[0].elt) == unparse(g.target.elts[0]) and unparse(g.iter).endswith(".items()")
    ctx.ob(R, fm, comps[0], ok_shape, "the comprehension does not yield the partition ids of the topic's partition map", text="yields-partition-ids")
    mv = unparse(g.target.elts[1]) if ok_shape else "metadata"
    verdicts = {}
    for leader in (-1, 0, 1, 1001):
        try:
            v = True
            for cond in g.ifs:
                v = v and bool(finite.ev(cond, {f"{mv}.leader": leader}, set()))
            verdicts[leader] = v
        except AnalysisError as e:
            raise AnalysisError(f"availability filter cannot be evaluated: {e}")
    want = {-1: False, 0: True, 1: True, 1001: True}
    ctx.ob(R, fm, comps[0], verdicts == want and bool(g.ifs), f"availability filter gives {verdicts}; a partition is available exactly when its leader id is not -1 (broker id 0 is a broker)", text="filter")



def rule_partition_count(ctx):
    R = "partition-count"
    ctx.rep.rule(R, "the modulus of a keyed record is the topic's partition count as the cluster states it, whatever the partitions' health: "
                    "ClusterMetadata.update_metadata registers EVERY partition entry of a topic that was returned without a topic error (the "
                    "store into the new partition map lies on every normal path through the partition loop -- leaderless, erroneous or offline "
                    "partitions included, as in the Java client), publishes that map as `_partitions`, and partitions_for_topic returns "
                    "exactly its keys")
    fu = ctx.fn("aiokafka.cluster.ClusterMetadata.update_metadata")
    c = ctx.cfg(fu)
    sts = [n for n in c.nodes if n.kind == "store" and isinstance(n.ast, ast.Subscript) and isinstance(n.ast.value, ast.Subscript)
           and unparse(n.ast.value.value) == "_new_partitions"]
    ctx.anchor(len(sts) == 1, "_new_partitions[topic][partition] = ... in update_metadata")
    st = sts[0]
    loops = c.enclosing(st, types=(ast.For,), role="body")
    ctx.anchor(bool(loops), "partition loop around the registration")
    la = min((l for l, _r in loops), key=lambda l: (l.end_lineno or l.lineno) - l.lineno)     # the innermost loop
    head = c.loop_head(la)
    nxt = [n for n in c.nodes if n.kind == "fornext" and n.ast is la][0]
    body_start = [m for m, l in nxt.succ if l == "T"]
    skipped = head in c.reachable(body_start, avoid=[st], exc=False, include_src=True)
    tv = [unparse(x) for x in la.target.elts] if isinstance(la.target, ast.Tuple) else []
    ok = not skipped and unparse(st.ast.slice) in tv and unparse(la.iter) == "partitions"
    ctx.ob(R, fu, st, ok, "a partition entry of the metadata reply can be left out of the partition map (an iteration of the partition loop reaches the next "
                          "one without registering it): partitions_for_topic shrinks and keyed records are placed modulo the wrong count", text="registers-every-partition")
    pub = [n for n in c.stores(attr="_partitions") if unparse(n.ast) == "self._partitions"]
    ctx.ob(R, fu, fu.node, len(pub) == 1 and unparse(pub[0].stmt.value) == "_new_partitions", "the new partition map is not what update_metadata publishes", text="publishes-map")
    fp = ctx.fn("aiokafka.cluster.ClusterMetadata.partitions_for_topic")
    rets = [r for r in ast.walk(fp.node) if isinstance(r, ast.Return) and r.value is not None and not (isinstance(r.value, ast.Constant) and r.value.value is None)]
    ok = len(rets) == 1
    if ok:
        # the topic's entry may be looked up once into a local (`.get(topic)` tested for None, or a subscript after the membership test)
        tpar = fp.params()[1]
        ldefs = {}
        for n in ast.walk(fp.node):
            if isinstance(n, ast.Assign) and len(n.targets) == 1 and isinstance(n.targets[0], ast.Name):
                ldefs.setdefault(n.targets[0].id, []).append(n.value)

        class _Sub(ast.NodeTransformer):
            def visit_Name(self, node):
                d = ldefs.get(node.id)
                if isinstance(node.ctx, ast.Load) and d and len(d) == 1:
                    return self.visit(ast.parse(unparse(d[0]), mode="eval").body)
                return node

            def visit_Call(self, node):
                self.generic_visit(node)
                if isinstance(node.func, ast.Attribute) and node.func.attr == "get" and len(node.args) == 1 and not node.keywords and unparse(node.func.value) == "self._partitions":
                    return ast.Subscript(value=node.func.value, slice=node.args[0], ctx=ast.Load())
                return node
        val = unparse(_Sub().visit(ast.parse(unparse(rets[0].value), mode="eval").body))
        ok = val in (f"set(self._partitions[{tpar}].keys())", f"set(self._partitions[{tpar}])")
    ctx.ob(R, fp, fp.node, ok, "partitions_for_topic does not return exactly the registered partition ids of the topic", text="returns-keys")


def run(ctx):
    rep = ctx.rep
    rep.explanation = ("C17: murmur2 is evaluated symbolically on 32-bit terms and compared term for term with the Java algorithm (all four tail "
                       "lengths), an interval analysis shows every right-shifted / returned value is in [0,2^32), and the routing rules show keyed "
                       "records depend only on hash and partition count, with all_partitions ordered by id.")
    rule_murmur(ctx)
    rule_width(ctx)
    rule_route(ctx)
    rule_available(ctx)
    rule_partition_count(ctx)
    from .common import rule_metadata_leader_verbatim
    rule_metadata_leader_verbatim(ctx, "available")
    rep.nd("bit-for-bit equality with Java for concrete keys is implied by term equality modulo 2^32 plus the width rule, under the assumption that "
           "Python's `bytes` indexing yields 0..255; no concrete key is hashed by this check")
