"""C06 -- group membership converges and is not disturbed by the member itself."""
from __future__ import annotations

import ast

from ..chains import chain_arms, effects
from ..loader import AnalysisError, call_attr, call_name, dotted, unparse
from . import c01
from ..rulekit import arg_of, const_value, def_value, is_none_test, local_defs

GC = "aiokafka.consumer.group_coordinator.GroupCoordinator"
RB = "aiokafka.consumer.group_coordinator.CoordinatorGroupRebalance"

STATE_CALLS = {"reset_generation", "coordinator_dead", "request_rejoin"}


def _awaits(c, attr):
    return [n for n in c.nodes if n.kind == "await" and isinstance(n.ast, ast.Await) and isinstance(n.ast.value, ast.Call) and call_attr(n.ast.value) == attr]


def rule_join_complete(ctx):
    R = "join-complete"
    ctx.rep.rule(R, "perform_group_join: the JoinGroupRequest is built and sent only after the loop over the configured assignors finished, "
                    "from the list that loop filled (one (name, metadata) per assignor, in order); the only way from a JoinGroup reply back to "
                    "another JoinGroup is the MEMBER_ID_REQUIRED arm, which adopts the member id of the reply")
    fi = ctx.fn(f"{RB}.perform_group_join")
    c = ctx.cfg(fi)
    jr = ctx.floor(c.calls(name="JoinGroupRequest"), 1, "JoinGroupRequest(...) in perform_group_join")
    al = [n for n in c.nodes if n.kind == "foriter" and unparse(n.ast.iter) == "self._assignors"]
    al = ctx.one(al, "loop over self._assignors")
    la = al.ast
    head = c.loop_head(la)
    nxt = [n for n in c.nodes if n.kind == "fornext" and n.ast is la][0]
    body = c.loop_body(head)
    for j in jr:
        in_loop = j in body
        after = [m for m, l in nxt.succ if l == "F"]
        ok = (not in_loop) and all(c.dominates(nxt, j) for _ in [0]) and j in c.reachable(after, include_src=True) and \
            j not in c.reachable([m for m, l in nxt.succ if l == "T"], avoid=[nxt], include_src=True)
        ctx.ob(R, fi, j, ok, "JoinGroup is sent from inside the assignor loop: the first request advertises only the first strategy, and a successful "
                             "reply is followed by another JoinGroup", text="after-assignor-loop")
        # protocols argument
        bf = ctx.fn("aiokafka.protocol.group.JoinGroupRequest.__init__")
        ps = bf.params()[1:]
        args = {}
        for i, a in enumerate(j.ast.args):
            if i < len(ps):
                args[ps[i]] = a
        for k in j.ast.keywords:
            args[k.arg] = k.value
        pk = [p for p in ps if "protocols" in p]
        ctx.anchor(len(pk) == 1, "group_protocols parameter of JoinGroupRequest")
        pv = args.get(pk[0])
        okp = isinstance(pv, ast.Name)
        if okp:
            ds = local_defs(c, pv.id)
            okp = len(ds) == 1 and unparse(def_value(ds[0])) == "[]" and ds[0] not in body
            apps = [n for n in c.calls(attr="append") if dotted(n.ast.func.value) == pv.id]
            okp = okp and len(apps) == 1 and apps[0] in body and head not in c.reachable([m for m, l in nxt.succ if l == "T"], avoid=set(apps), exc=False, include_src=True)
            if okp:
                el = _resolve(c, arg_of(apps[0].ast, 0))
                okp = isinstance(el, ast.Tuple) and len(el.elts) == 2 and unparse(el.elts[0]) == f"{unparse(la.target)}.name"
                if okp and isinstance(el.elts[1], ast.Name):
                    mds = local_defs(c, el.elts[1].id)
                    okp = any(isinstance(def_value(d), ast.Call) and unparse(def_value(d).func) == f"{unparse(la.target)}.metadata" for d in mds)
        ctx.ob(R, fi, j, okp, "advertised protocols are not exactly one (assignor.name, assignor.metadata(topics)) per configured assignor, in order", text="protocols-list")
        want = {"member_id": "self._coordinator.member_id", "group_instance_id": "self._coordinator._group_instance_id", "group": "self.group_id",
                "session_timeout": "self._session_timeout_ms", "rebalance_timeout": "self._rebalance_timeout_ms"}
        for k, v in want.items():
            key = [p for p in ps if p == k or p.startswith(k)]
            got = unparse(args[key[0]]) if key and key[0] in args else None
            ctx.ob(R, fi, j, got == v, f"JoinGroupRequest {k} is {got}, expected {v}", text="field:" + k)
    # topics advertised
    ds = local_defs(c, "topics")
    ctx.ob(R, fi, fi.node, len(ds) == 1 and unparse(def_value(ds[0])) == "self._subscription.topics", "advertised topics are not the subscription's", text="topics")
    # back edge from reply to request only via MemberIdRequired
    sends = _awaits(c, "_send_req")
    ctx.floor(sends, 1, "await _send_req in perform_group_join")
    for s in sends:
        for j in jr:
            # all paths reply -> next JoinGroup must pass the T-branch of `error_type is MemberIdRequired`
            mt = [t for t in c.nodes if t.kind == "test" and isinstance(t.ast, ast.Compare) and unparse(t.ast.left) == "error_type" and unparse(t.ast.comparators[0]).endswith("MemberIdRequired")]
            ok = len(mt) == 1
            if ok:
                l_req = "F" if isinstance(mt[0].ast.ops[0], (ast.IsNot, ast.NotEq)) else "T"     # the arm meaning MEMBER_ID_REQUIRED
                tsucc = [m for m, l in mt[0].succ if l == l_req]
                # remove T edge: j must be unreachable from s ...
                avoid = set(tsucc)
                ok = j not in c.reachable([s], avoid=avoid)
                if not ok:
                    # ... or the retry loop is driven by a flag that only the MEMBER_ID_REQUIRED arm sets
                    wl = [a for a, r in j.within if isinstance(a, ast.While) and r == "body"]
                    if wl and isinstance(wl[-1].test, ast.Name):
                        flag = wl[-1].test.id
                        h = c.loop_head(wl[-1])
                        body = c.loop_body(h)
                        ds = [d for d in local_defs(c, flag) if d in body]
                        ok = bool(ds) and all((const_value(def_value(d)) is False) or (const_value(def_value(d)) is True and c.dominated_by_branch(mt[0], l_req, d)) for d in ds) \
                            and any(const_value(def_value(d)) is False and c.dominates(d, s) for d in ds)
                        # and nothing but the loop leads back to the request
                        ok = ok and j not in c.reachable([s], avoid=[h])
                heads = [n for n in c.nodes if n.kind == "loop"]
                st = [x for x in c.reachable(tsucc, avoid=[j] + heads, include_src=True) if x.kind == "store" and unparse(x.ast) == "self._coordinator.member_id"]
                ok = ok and len(st) == 1 and unparse(st[0].stmt.value) == "response.member_id"
            ctx.ob(R, fi, s, ok, "a JoinGroup reply can lead to another JoinGroup other than through MEMBER_ID_REQUIRED (with the member id the broker assigned)", text="rejoin-only-member-id-required")


def _resolve(c, e):
    if isinstance(e, ast.Name):
        ds = local_defs(c, e.id)
        if len(ds) == 1 and def_value(ds[0]) is not None:
            return def_value(ds[0])
    return e


def rule_join_sync(ctx):
    R = "join-sync"
    ctx.rep.rule(R, "on a successful JoinGroup reply the member adopts member_id and generation from the reply before building its SyncGroup "
                    "from those same attributes; leader iff leader_id == member_id of the reply; SyncGroup success returns the assignment bytes "
                    "of the reply; join -> sync -> (protocol, bytes) -> _on_join_complete")
    fi = ctx.fn(f"{RB}.perform_group_join")
    c = ctx.cfg(fi)
    arms = chain_arms(c, "error_type")
    ctx.anchor("NoError" in arms, "NoError arm of perform_group_join")
    t = arms["NoError"].test
    tb = c.reachable([m for m, l in t.succ if l == "T"], include_src=True)
    st_m = [n for n in tb if n.kind == "store" and unparse(n.ast) == "self._coordinator.member_id"]
    st_g = [n for n in tb if n.kind == "store" and unparse(n.ast) == "self._coordinator.generation"]
    calls = [n for n in tb if n.kind == "call" and call_attr(n.ast) in ("_on_join_leader", "_on_join_follower")]
    ok = len(st_m) == 1 and len(st_g) == 1 and unparse(st_m[0].stmt.value) == "response.member_id" and unparse(st_g[0].stmt.value) == "response.generation_id"
    ctx.ob(R, fi, t, ok, "identity of the reply (member_id, generation_id) is not adopted", text="adopt-identity")
    ctx.ob(R, fi, t, len(calls) == 2 and ok and all(c.dominates(st_m[0], x) and c.dominates(st_g[0], x) for x in calls), "SyncGroup is built before the identity of the reply is adopted", text="adopt-before-sync")
    ctx.ob(R, fi, t, not any(n.kind == "call" and call_name(n.ast) == "JoinGroupRequest" for n in tb), "another JoinGroup is reachable after a successful reply", text="no-join-after-success")
    lt = [x for x in tb if x.kind == "test" and isinstance(x.ast, ast.Compare) and {unparse(x.ast.left), unparse(x.ast.comparators[0])} == {"response.leader_id", "response.member_id"}]
    ok = len(lt) == 1 and isinstance(lt[0].ast.ops[0], ast.Eq)
    if ok:
        ld = [x for x in calls if call_attr(x.ast) == "_on_join_leader"]
        fo = [x for x in calls if call_attr(x.ast) == "_on_join_follower"]
        ok = len(ld) == 1 and len(fo) == 1 and c.dominated_by_branch(lt[0], "T", ld[0]) and c.dominated_by_branch(lt[0], "F", fo[0]) and unparse(arg_of(ld[0].ast, 0)) == "response"
    ctx.ob(R, fi, t, ok, "leader / follower decision is not `leader_id == member_id` of the reply", text="leader-decision")
    rets = [r for r in tb if r.kind == "return" and isinstance(r.ast.value, ast.Tuple)]
    ok = len(rets) == 1 and len(rets[0].ast.value.elts) == 2
    if ok:
        p, b = rets[0].ast.value.elts
        pd = local_defs(c, unparse(p))
        bd = local_defs(c, unparse(b))
        ok = len(pd) == 1 and unparse(def_value(pd[0])) == "response.group_protocol" and len(bd) == 2 and all(isinstance(def_value(d), ast.Await) for d in bd)
    ctx.ob(R, fi, t, ok, "join does not return (agreed protocol, SyncGroup assignment bytes)", text="returns-protocol-and-bytes")
    # SyncGroup requests carry the adopted identity
    for m in ("_on_join_follower", "_on_join_leader"):
        f = ctx.fn(f"{RB}.{m}")
        cc = ctx.cfg(f)
        sr = ctx.one(cc.calls(name="SyncGroupRequest"), f"SyncGroupRequest in {m}")
        a = [unparse(x) for x in sr.ast.args]
        ctx.ob(R, f, sr, a[:4] == ["self.group_id", "self._coordinator.generation", "self._coordinator.member_id", "self._coordinator._group_instance_id"], f"SyncGroupRequest identity fields {a[:4]}", text=f"sync-identity:{m}")
        sd = _awaits(cc, "_send_sync_group_request")
        ctx.ob(R, f, sr, len(sd) == 1 and isinstance(sr.stmt, ast.Assign) and unparse(arg_of(sd[0].ast.value, 0)) == unparse(sr.stmt.targets[0]) and
               any(r.kind == "return" and r.ast.value is sd[0].ast for r in cc.nodes), f"{m} does not send its SyncGroup and return the result", text=f"sync-sent:{m}")
    f = ctx.fn(f"{RB}._on_join_follower")
    sr = ctx.cfg(f).calls(name="SyncGroupRequest")[0]
    ctx.ob(R, f, sr, unparse(sr.ast.args[4]) == "[]", "follower sends a non-empty assignment", text="follower-empty")
    # sync reply
    fs = ctx.fn(f"{RB}._send_sync_group_request")
    cs = ctx.cfg(fs)
    arms = chain_arms(cs, "error_type")
    ctx.anchor("NoError" in arms, "NoError arm of _send_sync_group_request")
    a = arms["NoError"]
    ctx.ob(R, fs, a.test, a.terminals() == ["return:response.member_assignment"], f"SyncGroup success returns {a.terminals()}", text="sync-returns-assignment")
    gs = [d for d in local_defs(cs, "req_generation")] + [d for d in local_defs(cs, "req_member_id")]
    send = ctx.one(_awaits(cs, "_send_req"), "await _send_req in sync")
    ok = len(gs) == 2 and all(cs.dominates(d, send) for d in gs) and {unparse(def_value(d)) for d in gs} == {"self._coordinator.generation", "self._coordinator.member_id"}
    ok = ok and {"self._coordinator.generation", "self._coordinator.member_id"} <= a.stores()
    ctx.ob(R, fs, fs.node, ok, "identity captured before the SyncGroup round-trip is not restored on success", text="identity-restored")
    # _do_rejoin_group: bytes -> _on_join_complete
    fd = ctx.fn(f"{GC}._do_rejoin_group")
    cd = ctx.cfg(fd)
    pj = _awaits(cd, "perform_group_join")
    jc = _awaits(cd, "_on_join_complete")
    ok = len(pj) == 1 and len(jc) == 1 and cd.dominates(pj[0], jc[0])
    if ok:
        an = pj[0].stmt.targets[0].id if isinstance(pj[0].stmt, ast.Assign) and isinstance(pj[0].stmt.targets[0], ast.Name) else None
        un = [s for s in cd.nodes if s.kind == "stmt" and isinstance(s.ast, ast.Assign) and isinstance(s.ast.targets[0], ast.Tuple) and unparse(s.ast.value) == an]
        ok = len(un) == 1 and [unparse(x) for x in un[0].ast.targets[0].elts] == [unparse(x) for x in jc[0].ast.value.args[2:4]] and cd.dominates(un[0], jc[0])
        args = [unparse(x) for x in jc[0].ast.value.args]
        ok = ok and args[:2] == ["self.generation", "self.member_id"]
        nt = [t for t in cd.nodes if t.kind == "test" and is_none_test(t.ast) is not None and unparse(is_none_test(t.ast)) == an]
        ok = ok and bool(nt) and cd.dominated_by_branch(nt[0], "F", jc[0])
        at = [t for t in cd.nodes if t.kind == "test" and unparse(t.ast) == "subscription.active"]
        ok = ok and bool(at) and jc[0] not in cd.reachable([m for m, l in at[0].succ if l == "F"], include_src=True)
    ctx.ob(R, fd, fd.node, ok, "join result is not handed (protocol, bytes) to _on_join_complete for a still-active subscription", text="join-to-complete")
    rets = [r for r in cd.nodes if r.kind == "return"]
    trues = [r for r in rets if const_value(r.ast.value) is True]
    ctx.ob(R, fd, fd.node, len(trues) == 1 and bool(jc) and cd.dominates(jc[0], trues[0]), "rejoin reports success without completing the join", text="success-after-complete")


# error -> effect tables ------------------------------------------------------------------
def _eff(arm):
    every, some, ends = effects(arm, STATE_CALLS)
    return every, some, ends



def _raises_own_error(nodes, cls):
    """The path ends by raising the error class the broker named (error_type(...), directly or through a local bound to it)."""
    rs = [n for n in nodes if n.kind == "raise"]
    if not rs:
        return False
    x = rs[-1].ast.exc
    if x is None:
        return False

    def own(e):
        if isinstance(e, ast.Call):
            e = e.func
        return unparse(e) in ("error_type", "error", f"Errors.{cls}", cls)
    if own(x):
        return True
    if isinstance(x, ast.Name):
        i = nodes.index(rs[-1])
        for n in reversed(nodes[:i]):
            if n.kind == "store" and isinstance(n.ast, ast.Name) and n.ast.id == x.id:
                v = getattr(n.stmt, "value", None)
                return v is not None and own(v)
    return False


def rule_error_tables(ctx):
    R = "error-effects"
    ctx.rep.rule(R, "error -> effect tables of the five group handlers (join, sync, heartbeat, offset-commit, offset-fetch), cross-checked: "
                    "UnknownMemberId / IllegalGeneration -> reset_generation; NotCoordinator / CoordinatorNotAvailable -> coordinator_dead; "
                    "RebalanceInProgress -> request_rejoin; authorization -> raise; every chain ends in an else that raises; success does none of these")
    COORD = ("GroupCoordinatorNotAvailableError", "NotCoordinatorForGroupError")
    spec = {
        f"{RB}.perform_group_join": {
            "NoError": ([], None), "UnknownMemberIdError": (["reset_generation"], "return:None"),
            COORD[0]: (["coordinator_dead"], "return:None"), COORD[1]: (["coordinator_dead"], "return:None"),
            "GroupLoadInProgressError": ([], "return:None"), "GroupAuthorizationFailedError": ([], "raise"),
            "InconsistentGroupProtocolError": ([], "raise"), "InvalidSessionTimeoutError": ([], "raise"), "InvalidGroupIdError": ([], "raise"),
        },
        f"{RB}._send_sync_group_request": {
            "NoError": ([], "return:response.member_assignment"),
            # request_rejoin() is the common prefix of every error arm (checked separately below)
            "RebalanceInProgressError": ([], "return:None"),
            "UnknownMemberIdError": (["reset_generation"], "return:None"), "IllegalGenerationError": (["reset_generation"], "return:None"),
            COORD[0]: (["coordinator_dead"], "return:None"), COORD[1]: (["coordinator_dead"], "return:None"),
            "GroupAuthorizationFailedError": ([], "raise"),
        },
        f"{GC}._do_heartbeat": {
            "NoError": ([], "return:True"), COORD[0]: (["coordinator_dead"], "return:False"), COORD[1]: (["coordinator_dead"], "return:False"),
            "RebalanceInProgressError": (["request_rejoin"], "return:True"),
            "IllegalGenerationError": (["reset_generation"], "return:False"), "UnknownMemberIdError": (["reset_generation"], "return:False"),
            "GroupAuthorizationFailedError": ([], "raise"),
        },
        f"{GC}._do_commit_offsets": {
            "NoError": ([], "next-iteration"), "GroupAuthorizationFailedError": ([], "next-iteration"), "TopicAuthorizationFailedError": ([], "next-iteration"),
            "GroupLoadInProgressError": ([], "next-iteration"),
            COORD[0]: (["coordinator_dead"], "next-iteration"), COORD[1]: (["coordinator_dead"], "next-iteration"), "RequestTimedOutError": (["coordinator_dead"], "next-iteration"),
            "UnknownMemberIdError": (["reset_generation"], "next-iteration"), "IllegalGenerationError": (["reset_generation"], "next-iteration"),
            "RebalanceInProgressError": (["request_rejoin"], "next-iteration"),
        },
        f"{GC}._do_fetch_commit_offsets": {
            "GroupLoadInProgressError": ([], "raise"), "NotCoordinatorForGroupError": (["coordinator_dead"], "raise"),
            "UnknownTopicOrPartitionError": ([], "next-iteration"), "GroupAuthorizationFailedError": ([], "raise"),
        },
    }
    for q, table in spec.items():
        fi = ctx.fn(q)
        c = ctx.cfg(fi)
        arms = chain_arms(c, "error_type")
        ctx.anchor(len(arms) >= 4, f"error chain of {q}")
        for cls, (calls, end) in table.items():
            a = arms.get(cls)
            if a is None:
                ctx.ob(R, fi, fi.node, False, f"{fi.name}: {cls} is not handled (falls into the generic arm)", text=f"{fi.name}:{cls}")
                continue
            every, some, ends = _eff(a)
            ok = every == sorted(calls) and some == sorted(calls)
            if end == "raise":
                ok = ok and all(e.startswith("raise:") for e in ends)
                # ... with the error of ITS arm (the class the broker named), not the catch-all's wrapped KafkaError
                ok = ok and all(_raises_own_error(ns, cls) for _c, t_, ns in a.paths if t_.startswith("raise:"))
            elif end is not None:
                ok = ok and ends == [end]
            ctx.ob(R, fi, a.test, ok, f"{fi.name}: {cls} -> calls on every path {every}, on some path {some}, ends {ends}; expected {sorted(calls)} / {end}", text=f"{fi.name}:{cls}")
            if q.endswith("._do_commit_offsets"):
                # what the caller is told: every failed partition is recorded (and raised after the loop), a committed one is not
                want_st = [] if cls in ("NoError", "TopicAuthorizationFailedError") else ["errored[tp]"]
                ctx.ob(R, fi, a.test, sorted(a.stores()) == want_st, f"{fi.name}: {cls} records {sorted(a.stores())}, expected {want_st} "
                                                                     "(a committed partition reported as failed, or a failed one as committed)", text=f"{fi.name}:{cls}:recorded")
            elif q.endswith("._do_fetch_commit_offsets"):
                ctx.ob(R, fi, a.test, not a.stores(), f"{fi.name}: the error arm {cls} records {sorted(a.stores())}", text=f"{fi.name}:{cls}:recorded")
        for cls, a in arms.items():
            if cls in table or cls == "<else>":
                continue
            every, some, ends = _eff(a)
            ctx.ob(R, fi, a.test, not some or all(e.startswith("raise:") for e in ends) or cls in ("OffsetMetadataTooLargeError", "InvalidCommitOffsetSizeError", "MemberIdRequired"),
                   f"{fi.name}: extra arm {cls} changes membership state {some}", text=f"{fi.name}:extra:{cls}")
        e = arms.get("<else>")
        if q.endswith("_do_commit_offsets"):
            ok = e is not None and any("errored[tp]" in s for s in e.stores())
        else:
            ok = e is not None and all(t.startswith("raise:") for t in e.terminals())
        ctx.ob(R, fi, fi.node, ok, f"{fi.name}: an unknown error code is not raised / recorded", text=f"{fi.name}:else")
    # sync: every non-success reply requests a rejoin before anything else
    fi = ctx.fn(f"{RB}._send_sync_group_request")
    c = ctx.cfg(fi)
    arms = chain_arms(c, "error_type")
    if "NoError" in arms:
        t = arms["NoError"].test
        fs = [m for m, l in t.succ if l == "F"]
        rq = [n for n in c.calls(attr="request_rejoin") if c.dominated_by_branch(t, "F", n)]
        ok = bool(rq) and c.exit not in c.reachable(fs, avoid=set(rq), exc=False, include_src=True) and c.raise_exit not in c.reachable(fs, avoid=set(rq), include_src=True)
        ctx.ob(R, fi, t, ok, "a failed SyncGroup can end without requesting a rejoin (member would sit without assignment)", text="sync-error-rejoins")
    # commit: recorded errors are raised after the loop
    fi = ctx.fn(f"{GC}._do_commit_offsets")
    c = ctx.cfg(fi)
    rs = [n for n in c.nodes if n.kind == "raise" and not c.enclosing(n, types=(ast.For,))]
    tests = [t for t in c.nodes if t.kind == "test" and unparse(t.ast) in ("errored", "unauthorized_topics")]
    ctx.ob(R, fi, fi.node, len(rs) == 2 and len(tests) == 2 and all(any(c.dominated_by_branch(t, "T", r) for t in tests) for r in rs), "recorded commit errors are not raised to the caller", text="commit-raises-recorded")
    # reset_generation / coordinator_dead / request_rejoin definitions
    fr = ctx.fn(f"{GC}.reset_generation")
    cr = ctx.cfg(fr)
    st = {unparse(s.ast): unparse(s.stmt.value) for s in cr.nodes if s.kind == "store"}
    ok = st.get("self.generation", "").endswith("DEFAULT_GENERATION_ID") and st.get("self.member_id", "").endswith("UNKNOWN_MEMBER_ID") and len(cr.calls(attr="request_rejoin")) == 1
    ctx.ob(R, fr, fr.node, ok, "reset_generation does not forget the identity and request a rejoin", text="reset-generation-def")
    fq = ctx.fn(f"{GC}.request_rejoin")
    cq = ctx.cfg(fq)
    sr = [n for n in cq.calls(attr="set_result") if unparse(n.ast.func.value) == "self._rejoin_needed_fut"]
    ctx.ob(R, fq, fq.node, len(sr) == 1, "request_rejoin does not complete the rejoin future", text="request-rejoin-def")
    fn = ctx.fn(f"{GC}.need_rejoin")
    rr = [r for r in ctx.cfg(fn).nodes if r.kind == "return"]
    ctx.ob(R, fn, fn.node, len(rr) == 1 and "self._rejoin_needed_fut.done()" in unparse(rr[0].ast.value) and "assignment is None" in unparse(rr[0].ast.value) and isinstance(rr[0].ast.value, ast.BoolOp) and isinstance(rr[0].ast.value.op, ast.Or),
           "need_rejoin does not consult the rejoin future / missing assignment", text="need-rejoin-def")
    fdd = ctx.fn(f"{GC}.coordinator_dead")
    cdd = ctx.cfg(fdd)
    st = [s for s in cdd.stores(attr="coordinator_id")]
    sr = [n for n in cdd.calls(attr="set_result") if unparse(n.ast.func.value) == "self._coordinator_dead_fut"]
    ctx.ob(R, fdd, fdd.node, len(st) == 1 and const_value(st[0].stmt.value) is None and len(sr) == 1, "coordinator_dead does not forget the coordinator and wake the coordination loop", text="coordinator-dead-def")
    # ... whenever a coordinator is known: the only admissible guard is `coordinator_id is (not) None` -- node id 0 is a coordinator like any other
    from ..rulekit import must_facts as _mf6
    okg = bool(st) and not any(t.kind == "test" and isinstance(t.ast, (ast.Name, ast.Attribute)) and unparse(t.ast).endswith("coordinator_id") for t in cdd.nodes) and \
        all(any(a[0].endswith("coordinator_id") and a[1] == "is not" and a[2] == "None" for a in (_mf6(cdd)[x] or ())) or cdd.dominates(cdd.entry, x) and not any(t.kind == "test" for t in cdd.nodes) for x in st)
    ctx.ob(R, fdd, fdd.node, okg, "coordinator_dead is guarded by something other than `coordinator_id is not None` (a truthiness test skips the coordinator with node id 0: it is never "
                                 "marked dead and never rediscovered)", text="coordinator-dead-guard")
    # _send_req marks the coordinator dead on transport errors
    fs = ctx.fn(f"{GC}._send_req")
    cs = ctx.cfg(fs)
    send = ctx.one(_awaits(cs, "send"), "await client.send in _send_req")
    hs = [m for m, l in send.succ if l == "exc" and m.kind == "handler"]
    ok = any("KafkaError" in unparse(h.ast.type) for h in hs)
    if ok:
        h = [h for h in hs if "KafkaError" in unparse(h.ast.type)][0]
        r = cs.reachable([h], exc=False)
        ok = any(n.kind == "call" and call_attr(n.ast) == "coordinator_dead" for n in r) and any(n.kind == "raise" and n.ast.exc is None for n in r)
    ctx.ob(R, fs, send, ok, "a failed coordinator request does not mark the coordinator dead and re-raise", text="send-req-dead")
    nt = [t for t in cs.nodes if t.kind == "test" and is_none_test(t.ast) is not None]
    ctx.ob(R, fs, fs.node, bool(nt) and any(n.kind == "raise" and "GroupCoordinatorNotAvailableError" in unparse(n.ast.exc) for n in cs.reachable([m for m, l in nt[0].succ if l == "T"], include_src=True)), "no coordinator known is not reported", text="send-req-unknown")


def rule_rejoin_reset(ctx):
    R = "rejoin-reset"
    ctx.rep.rule(R, "_rejoin_needed_fut is re-armed only in _send_sync_group_request, before the SyncGroup is sent (no suspension before it), "
                    "so that a rejoin requested while the SyncGroup is in flight is not lost")
    n = 0
    for wf, wn, how in ctx.attr_writers("_rejoin_needed_fut"):
        n += 1
        ctx.ob(R, wf, wn, wf.qualname in (f"{GC}.__init__", f"{RB}._send_sync_group_request"), f"{wf.qualname} replaces the rejoin future", text="writer")
    if n < 2:
        raise AnalysisError("rejoin-reset: writers of _rejoin_needed_fut not found")
    fi = ctx.fn(f"{RB}._send_sync_group_request")
    c = ctx.cfg(fi)
    st = c.stores(attr="_rejoin_needed_fut")
    send = ctx.one(_awaits(c, "_send_req"), "await _send_req")
    ok = len(st) == 1 and c.dominates(st[0], send) and not any(c.path_exists(s, st[0]) for s in ctx.suspension_nodes(fi))
    ctx.ob(R, fi, fi.node, ok, "the rejoin future is re-armed after the SyncGroup round-trip started: a rejoin requested meanwhile is dropped", text="before-send")
    ctx.ob(R, fi, fi.node, len(st) == 1 and isinstance(st[0].stmt.value, ast.Call) and call_attr(st[0].stmt.value) == "create_future", "not a fresh future", text="fresh")
    # failure paths re-request the rejoin
    hs = [m for m, l in send.succ if l == "exc" and m.kind == "handler"]
    ok = bool(hs) and all(any(n.kind == "call" and call_attr(n.ast) == "request_rejoin" for n in c.reachable([h], exc=False)) for h in hs)
    ctx.ob(R, fi, send, ok, "a lost SyncGroup does not request a rejoin", text="lost-sync-rejoins")


def rule_heartbeat(ctx):
    R = "heartbeat-lifetime"
    ctx.rep.rule(R, "heartbeat task: started only after a successful (re)join and only when none is referenced; stopping always clears the "
                    "reference (also of a task that ended by itself); stopped before every rejoin attempt; loops while the member id is known; "
                    "heartbeats carry group, generation, member id")
    fe = ctx.fn(f"{GC}.ensure_active_group")
    c = ctx.cfg(fe)
    start = c.calls(attr="_start_heartbeat_task")
    stop = _awaits(c, "_stop_heartbeat_task")
    rejoin = _awaits(c, "_do_rejoin_group")
    ok = len(start) == 1 and len(stop) == 1 and len(rejoin) == 1
    ctx.ob(R, fe, fe.node, ok, "ensure_active_group lacks start/stop heartbeat or the rejoin", text="pieces")
    if ok:
        st = [t for t in c.nodes if t.kind == "test" and unparse(t.ast) == "success"]
        ctx.ob(R, fe, start[0], bool(st) and c.dominated_by_branch(st[0], "T", start[0]) and c.dominates(rejoin[0], start[0]), "heartbeat started without a successful join", text="start-after-success")
        ctx.ob(R, fe, stop[0], c.dominates(stop[0], rejoin[0]), "rejoin attempted with the old heartbeat task still running", text="stop-before-rejoin")
        sv = [d for d in local_defs(c, "success")]
        ctx.ob(R, fe, rejoin[0], len(sv) == 1 and sv[0].stmt is rejoin[0].stmt, "`success` is not the result of the rejoin", text="success-def")
    for cf, cn in ctx.callers("_start_heartbeat_task"):
        ctx.ob(R, cf, cn, cf.qualname == f"{GC}.ensure_active_group", f"heartbeat started from {cf.qualname}", text="start-caller")
    fs = ctx.fn(f"{GC}._start_heartbeat_task")
    cs = ctx.cfg(fs)
    st = cs.stores(attr="_heartbeat_task")
    nt = [t for t in cs.nodes if t.kind == "test" and is_none_test(t.ast) is not None and unparse(is_none_test(t.ast)) == "self._heartbeat_task"]
    ok = len(st) == 1 and len(nt) == 1 and cs.dominated_by_branch(nt[0], "T", st[0]) and "_heartbeat_routine()" in unparse(st[0].stmt.value) and \
        cs.exit not in cs.reachable([m for m, l in nt[0].succ if l == "T"], avoid=set(st), exc=False, include_src=True)
    ctx.ob(R, fs, fs.node, ok, "_start_heartbeat_task does not create the task exactly when none is referenced", text="start-def")
    fp = ctx.fn(f"{GC}._stop_heartbeat_task")
    cp = ctx.cfg(fp)
    st = [s for s in cp.stores(attr="_heartbeat_task") if const_value(s.stmt.value) is None and isinstance(s.stmt.value, ast.Constant)]
    nt = [t for t in cp.nodes if t.kind == "test" and (is_none_test(t.ast, negate=True) is not None or is_none_test(t.ast) is not None) and "self._heartbeat_task" in unparse(t.ast)]
    ok = len(st) >= 1 and len(nt) >= 1
    if ok:
        t = nt[0]
        br = "T" if is_none_test(t.ast, negate=True) is not None else "F"
        ok = cp.exit not in cp.reachable([m for m, l in t.succ if l == br], avoid=set(st), exc=False, include_src=True)
    ctx.ob(R, fp, fp.node, ok, "a heartbeat task that already finished stays referenced: no new one is ever started after the next join", text="stop-clears-reference")
    from .c19 import leave_effects
    fl = ctx.fn(f"{GC}._maybe_leave_group")
    okl, why = leave_effects(ctx, fl)
    ctx.ob(R, fl, fl.node, okl, "a member that leaves the group by itself (idle longer than max_poll_interval_ms): " + why, text="leave-requests-rejoin")
    from .c19 import _skip_edges, aliases, paths_avoiding
    cn = [n for n in cp.calls(attr="cancel") if unparse(n.ast.func.value) in aliases(fp, "self._heartbeat_task")]
    # every path cancels, except the ones that found no task / a finished task
    ctx.ob(R, fp, fp.node, bool(cn) and paths_avoiding(cp, cn, _skip_edges(cp, fp, ("self._heartbeat_task",))) is None, "running heartbeat task is not cancelled", text="stop-cancels")
    fh = ctx.fn(f"{GC}._heartbeat_routine")
    ch = ctx.cfg(fh)
    wl = [n for n in ch.nodes if n.kind == "loop" and isinstance(n.ast, ast.While)]
    ok = len(wl) == 1 and unparse(wl[0].ast.test) == "self.member_id != JoinGroupRequest.UNKNOWN_MEMBER_ID"
    ctx.ob(R, fh, fh.node, ok, "heartbeat loop condition is not `member id known`", text="loop-condition")
    hb = _awaits(ch, "_do_heartbeat")
    ctx.ob(R, fh, fh.node, len(hb) == 1 and bool(wl) and hb[0] in ch.loop_body(wl[0]), "no heartbeat in the loop", text="beats")
    fd = ctx.fn(f"{GC}._do_heartbeat")
    rq = ctx.one(ctx.cfg(fd).calls(name="HeartbeatRequest"), "HeartbeatRequest(...)")
    ctx.ob(R, fd, rq, [unparse(a) for a in rq.ast.args] == ["self.group_id", "self.generation", "self.member_id"], "heartbeat identity fields", text="heartbeat-identity")
    # coordination loop watches the heartbeat task
    fc = ctx.fn(f"{GC}._GroupCoordinator__coordination_routine") if ctx.repo.has_func(f"{GC}._GroupCoordinator__coordination_routine") else ctx.fn(f"{GC}.__coordination_routine")
    src = unparse(fc.node)
    ctx.ob(R, fc, fc.node, "futures.append(self._heartbeat_task)" in src and "task.exception()" in src, "coordination loop does not watch the heartbeat task for errors", text="watched")


def rule_coordination_loop(ctx):
    R = "coordination-loop"
    ctx.rep.rule(R, "coordination loop: coordinator known before (re)join; rejoin exactly when need_rejoin; wakes on coordinator death, "
                    "rejoin request and subscription change; ensure_coordinator_known stores the discovered id and re-arms the dead-future")
    fc = ctx.fn(f"{GC}.__coordination_routine")
    c = ctx.cfg(fc)
    ek = _awaits(c, "ensure_coordinator_known")
    ea = _awaits(c, "ensure_active_group")
    ok = len(ek) == 1 and len(ea) == 1 and c.dominates(ek[0], ea[0])
    ctx.ob(R, fc, fc.node, ok, "group join attempted before the coordinator is known", text="coordinator-before-join")
    nr = [t for t in c.nodes if t.kind == "test" and isinstance(t.ast, ast.Call) and call_attr(t.ast) == "need_rejoin"]
    ctx.ob(R, fc, fc.node, len(nr) == 1 and bool(ea) and c.dominated_by_branch(nr[0], "T", ea[0]), "rejoin not governed by need_rejoin", text="rejoin-when-needed")
    src = unparse(fc.node)
    for fut in ("self._coordinator_dead_fut", "subscription.unsubscribe_future", "self._closing"):
        ctx.ob(R, fc, fc.node, fut in src.split("futures = [", 1)[-1].split("]", 1)[0], f"the loop does not wake on {fut}", text="wakes:" + fut)
    ctx.ob(R, fc, fc.node, "futures.append(self._rejoin_needed_fut)" in src, "the loop does not wake on a rejoin request", text="wakes:rejoin")
    fk = ctx.fn(f"{GC}.ensure_coordinator_known")
    ck = ctx.cfg(fk)
    st = ck.stores(attr="coordinator_id")
    df = ck.stores(attr="_coordinator_dead_fut")
    lk = _awaits(ck, "coordinator_lookup")
    ok = len(st) == 1 and len(df) == 1 and len(lk) == 1 and ck.dominates(lk[0], st[0]) and isinstance(lk[0].stmt, ast.Assign) and unparse(st[0].stmt.value) == unparse(lk[0].stmt.targets[0])
    rd = [t for t in ck.nodes if t.kind == "test" and unparse(t.ast) == "ready"]
    ok = ok and len(rd) == 1 and ck.dominated_by_branch(rd[0], "T", st[0])
    ctx.ob(R, fk, fk.node, ok, "discovered coordinator is not stored (after a successful connection) / dead-future not re-armed", text="stores-coordinator")
    la = [unparse(a) for a in lk[0].ast.value.args] if lk else []
    ctx.ob(R, fk, fk.node, la == ["CoordinationType.GROUP", "self.group_id"], f"coordinator lookup for {la}", text="lookup-args")




def rule_rejoin_revalidates(ctx):
    R = "join-sync"
    fi = ctx.fn(f"{GC}._do_rejoin_group")
    c = ctx.cfg(fi)
    pj = [n for n in c.nodes if n.kind == "await" and isinstance(n.ast, ast.Await) and isinstance(n.ast.value, ast.Call) and call_attr(n.ast.value) == "perform_group_join"]
    oj = [n for n in c.nodes if n.kind == "await" and isinstance(n.ast, ast.Await) and isinstance(n.ast.value, ast.Call) and call_attr(n.ast.value) == "_on_join_complete"]
    ctx.anchor(len(pj) == 1 and len(oj) == 1, "await perform_group_join() / await _on_join_complete(...) in _do_rejoin_group")
    sub = fi.params()[1]
    ts = [t for t in c.nodes if t.kind == "test" and unparse(t.ast) == f"{sub}.active" and c.dominates(pj[0], t) and c.dominates(t, oj[0])]
    ok = bool(ts)
    if ok:
        t = ts[-1]
        # the assignment of the finished join is applied only if the subscription it was computed for is still the current one, tested
        # AFTER the join round-trip (the application may have re-subscribed meanwhile) with no suspension before it is applied
        ok = oj[0] not in c.reachable([m for m, l in t.succ if l == "F"], exc=False, include_src=True)
        nos, _w = ctx.no_suspension_between(fi, t, oj[0])
        ok = ok and nos
    ctx.ob(R, fi, oj[0] if oj else fi.node, ok, "the assignment returned by the join is applied (_on_join_complete) without the subscription having been re-validated after the JoinGroup/SyncGroup "
                                                "round-trip: an assignment computed for a superseded subscription is installed (assertion failure or stale ownership, no heartbeat)",
           text="subscription-revalidated-after-join")


def rule_snapshot(ctx):
    R = "snapshot"
    ctx.rep.rule(R, "a stable member does not disturb the group itself: the metadata listener requests a rejoin iff the recorded snapshot "
                    "differs from the snapshot of the topics the group is interested in, so the recorded snapshot must be recomputed whenever "
                    "those topics are replaced -- every store of a (non-None) _group_subscription is followed on every normal path to the "
                    "function's exit by `_metadata_snapshot = _get_metadata_snapshot()` (whatever the kind of subscription); the snapshot is "
                    "computed from _group_subscription; the listener compares and then records the snapshot it computed")
    BASE = "aiokafka.consumer.group_coordinator.BaseCoordinator"
    n = 0
    for q, fi in sorted(ctx.repo.funcs.items()):
        if not q.startswith("aiokafka.consumer.group_coordinator.") or fi.name == "__init__":
            continue
        if "_group_subscription" not in unparse(fi.node):
            continue
        c = ctx.cfg(fi)
        for st in c.stores(attr="_group_subscription"):
            if unparse(st.ast) != "self._group_subscription":
                continue
            v = getattr(st.stmt, "value", None)
            if v is None or (isinstance(v, ast.Constant) and v.value is None):
                continue
            n += 1
            snaps = [x for x in c.stores(attr="_metadata_snapshot") if unparse(x.ast) == "self._metadata_snapshot"
                     and unparse(getattr(x.stmt, "value", None) or ast.Constant(None)) == "self._get_metadata_snapshot()"]
            leak = c.exit in c.reachable([st], avoid=set(snaps), exc=False)
            ctx.ob(R, fi, st, not leak, "the topics the group watches are replaced but a normal path to the exit does not recompute the recorded metadata snapshot: "
                                        "the next metadata update that changes nothing looks like a change and the member re-joins a stable group", text="snapshot-after-group-subscription")
    ctx.anchor(n >= 1, "store of a non-None _group_subscription")
    fs = ctx.fn(f"{BASE}._get_metadata_snapshot")
    loops = [x for x in ast.walk(fs.node) if isinstance(x, (ast.For, ast.comprehension)) and unparse(x.iter) == "self._group_subscription"]
    ctx.ob(R, fs, fs.node, len(loops) == 1 and "partitions_for_topic" in unparse(fs.node), "the snapshot is not computed over the group's topics from the cluster metadata", text="snapshot-source")
    fh = ctx.fn(f"{BASE}._handle_metadata_update")
    ch = ctx.cfg(fh)
    cmp_ = [t for t in ch.nodes if t.kind == "test" and isinstance(t.ast, ast.Compare) and isinstance(t.ast.ops[0], (ast.NotEq, ast.Eq))
            and "self._metadata_snapshot" in {unparse(t.ast.left), unparse(t.ast.comparators[0])}]
    ok = len(cmp_) == 1
    if ok:
        t = cmp_[0]
        diff = "T" if isinstance(t.ast.ops[0], ast.NotEq) else "F"
        arm = ch.reachable([m for m, l in t.succ if l == diff], include_src=True)
        other = ({unparse(t.ast.left), unparse(t.ast.comparators[0])} - {"self._metadata_snapshot"})
        rj = [x for x in arm if x.kind == "call" and call_attr(x.ast) == "_on_metadata_change"]
        rec = [x for x in arm if x.kind == "store" and unparse(x.ast) == "self._metadata_snapshot" and unparse(x.stmt.value) in other]
        same = ch.reachable([m for m, l in t.succ if l != diff and l != "exc"], include_src=True)
        ok = bool(rj) and bool(rec) and not any(x.kind == "call" and call_attr(x.ast) == "_on_metadata_change" for x in same if x not in arm)
        fo = ctx.fn(f"{GC}._on_metadata_change")
        ok = ok and any(isinstance(x, ast.Call) and call_attr(x) == "request_rejoin" for x in ast.walk(fo.node))
    ctx.ob(R, fh, fh.node, ok, "the metadata listener does not `rejoin and record the new snapshot iff it differs from the recorded one`", text="listener")


def run(ctx):
    rep = ctx.rep
    rep.explanation = ("C06 structural clauses: JoinGroup built after the assignor loop from the full protocol list, retry only on MEMBER_ID_REQUIRED; "
                       "join -> sync with the identity the reply assigned; error->effect tables of the five group handlers; rejoin future re-armed "
                       "before SyncGroup; heartbeat task lifetime; coordination loop ordering.")
    rule_join_complete(ctx)
    rule_join_sync(ctx)
    rule_error_tables(ctx)
    c01.rule_errno_unique(ctx, "error-effects")
    rule_rejoin_reset(ctx)
    rule_heartbeat(ctx)
    rule_coordination_loop(ctx)
    rule_snapshot(ctx)
    rule_rejoin_revalidates(ctx)
    from .common import rule_unsubscribe_leaves
    rule_unsubscribe_leaves(ctx, "heartbeat-lifetime")
    from .common import rule_timeouts_verbatim
    rule_timeouts_verbatim(ctx, "heartbeat-lifetime", "aiokafka.consumer.consumer.AIOKafkaConsumer")
    from .common import rule_instance_state
    rule_instance_state(ctx, ("aiokafka.consumer.",))
    rep.nd("convergence / 'no further rebalance once quiet' (liveness over fault sequences)")
    rep.nd("coverage of every partition by the union of assignments (depends on the assignors, C14)")
