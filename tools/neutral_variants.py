#!/venv/bin/python
"""Behaviour-preserving variants of the package, to measure false alarms of the checks.

  rename : every function-local variable (assigned in the function, not a parameter, not global/nonlocal, not captured
           by a nested function or comprehension scope problem-free) gets the suffix `_r`.
Usage: neutral_variants.py rename <dst>      (creates <dst>/aiokafka)
"""
import ast
import os
import shutil
import symtable
import sys

VERIF = os.path.dirname(os.path.dirname(os.path.abspath(__file__)))
sys.path.insert(0, VERIF)
from sa.selftest import _copy_pkg  # noqa: E402


from sa.alpha import Renamer  # noqa: E402


def main():
    mode, dst = sys.argv[1], sys.argv[2]
    if os.path.exists(dst):
        shutil.rmtree(dst)
    os.makedirs(dst)
    _copy_pkg("/repo", dst)
    n = 0
    for dirpath, _d, files in os.walk(os.path.join(dst, "aiokafka")):
        for f in files:
            if f.endswith(".py"):
                p = os.path.join(dirpath, f)
                tree = ast.parse(open(p, encoding="utf-8").read())
                if mode == "rename":
                    tree = Renamer().visit(tree)
                ast.fix_missing_locations(tree)
                src = ast.unparse(tree)
                compile(src, p, "exec")
                open(p, "w", encoding="utf-8").write(src + "\n")
                n += 1
    print("files", n)


if __name__ == "__main__":
    main()
