"""C07 -- transactions are atomic and follow the transactional protocol order."""
from __future__ import annotations

import ast

from ..chains import chain_arms
from ..loader import AnalysisError, call_attr, call_name, dotted, unparse
from . import c01
from ..rulekit import arg_of, const_value, def_value, is_none_test, local_defs, must_facts
from . import c02

SENDER = "aiokafka.producer.sender.Sender"
TXN = "aiokafka.producer.transaction_manager.TransactionManager"
ACC = "aiokafka.producer.message_accumulator.MessageAccumulator"
PRODUCER = "aiokafka.producer.producer.AIOKafkaProducer"
MOD = "aiokafka.producer.sender"


def rule_txn_mute(ctx):
    R = "txn-mute"
    ctx.rep.rule(R, "no produce before the coordinator acknowledged the partition: when transactional, the muted set handed to "
                    "drain_by_nodes includes txn_manager.partitions_to_add() (no suspension between computing it and draining); "
                    "partitions_to_add() is the pending set; a partition leaves it only via partition_added(), called only on NoError "
                    "of AddPartitionsToTxn; _append_batch registers the partition before queuing")
    fi = ctx.fn(f"{SENDER}._sender_routine")
    c = ctx.cfg(fi)
    drain = ctx.one(c.calls(attr="drain_by_nodes"), "drain_by_nodes call")
    mv = arg_of(drain.ast, kw="muted_partitions")
    ctx.anchor(isinstance(mv, ast.Name), "muted_partitions=<local>")
    tid_tests = [t for t in c.nodes if t.kind == "test" and is_none_test(t.ast, negate=True) is not None
                 and unparse(is_none_test(t.ast, negate=True)).endswith(".transactional_id")]
    ctx.floor(tid_tests, 1, "`transactional_id is not None` test in sender loop")
    unions = [d for d in local_defs(c, mv.id) if def_value(d) is not None and "partitions_to_add()" in unparse(def_value(d))
              and ((isinstance(def_value(d), ast.BinOp) and isinstance(def_value(d).op, ast.BitOr)) or
                   (isinstance(def_value(d), ast.AugAssign) and isinstance(def_value(d).op, ast.BitOr)) or "union" in unparse(def_value(d)))]
    ctx.ob(R, fi, drain, bool(unions), "pending transaction partitions are never added to the muted set", text="union-exists")
    for t in tid_tests:
        ts = [m for m, l in t.succ if l == "T"]
        ok = bool(unions) and drain not in c.reachable(ts, avoid=set(unions), exc=False, include_src=True)
        ctx.ob(R, fi, t, ok, "a transactional producer can drain without muting partitions awaiting AddPartitionsToTxn", text="union-on-every-path")
    for u in unions:
        ok, w = ctx.no_suspension_between(fi, u, drain)
        ctx.ob(R, fi, u, ok, f"suspension {w!r} between computing the muted set and draining", text="union-fresh")
        # the union keeps the normal mutes
        v = def_value(u)
        ctx.ob(R, fi, u, mv.id in unparse(v) or "_muted_partitions" in unparse(v), "union drops the in-flight mutes", text="union-keeps-muted")
    fp = ctx.fn(f"{TXN}.partitions_to_add")
    rets = [n for n in ctx.cfg(fp).nodes if n.kind == "return"]
    ctx.ob(R, fp, fp.node, len(rets) == 1 and unparse(rets[0].ast.value) in ("self._pending_txn_partitions", "set(self._pending_txn_partitions)", "frozenset(self._pending_txn_partitions)"),
           "partitions_to_add is not the pending set", text="pending-getter")
    # pending set discipline
    allowed = {(f"{TXN}.__init__", "store"), (f"{TXN}.maybe_add_partition_to_txn", ".add"), (f"{TXN}.partition_added", ".remove"),
               (f"{TXN}.partition_added", ".discard"), (f"{TXN}.fatal_error", ".clear")}
    for wf, wn, how in ctx.attr_writers_of("_pending_txn_partitions", "TransactionManager", fields=("_txn_manager", "txn_manager")):
        if how == ".clear" and (wf.qualname, how) not in allowed:
            # the pending set IS the mute: emptying it un-mutes the queued batches of partitions the coordinator never acknowledged. That is
            # harmless only where those batches die with it (fatal_error: the sender task ends and _fail_all fails every queued batch)
            ctx.ob(R, wf, wn, False, f"{wf.name} clears the set of partitions still waiting for AddPartitionsToTxn while their batches stay queued: the next sender "
                                     "iteration drains and PRODUCES them although the coordinator never acknowledged the partitions (and an abort that finds nothing "
                                     "registered sends no EndTxn)", text="pending-cleared-only-when-batches-die")
            continue
        ctx.ob(R, wf, wn, (wf.qualname, how) in allowed, f"{wf.qualname} mutates the pending-partition set with {how}", text="pending-writer:" + how)
    # fatal_error's clear is covered by the sender's death: _fail_all fails the accumulator's batches (C02 fail-all decides that callback)
    ffa = ctx.fn(f"{SENDER}._fail_all")
    cfa = ctx.cfg(ffa)
    ctx.ob(R, ffa, ffa.node, bool(cfa.calls(attr="fail_all")) and bool(cfa.calls(attr="fatal_error")), "the sender's death no longer fails the queued batches together with the transaction",
           text="fatal-clear-covered")
    fa = ctx.fn(f"{TXN}.partition_added")
    ca = ctx.cfg(fa)
    rem = [n for n in ca.calls(attr="remove") + ca.calls(attr="discard") if unparse(n.ast.func.value) == "self._pending_txn_partitions"]
    add = [n for n in ca.calls(attr="add") if unparse(n.ast.func.value) == "self._txn_partitions"]
    ctx.ob(R, fa, fa.node, len(rem) == 1 and len(add) == 1 and unparse(arg_of(rem[0].ast, 0)) == unparse(arg_of(add[0].ast, 0)) == fa.params()[1],
           "partition_added does not move the partition from pending to registered", text="partition-added-moves")
    for cf, cn in ctx.callers("partition_added"):
        ok = cf.qualname == f"{MOD}.AddPartitionsToTxnHandler.handle_response"
        if ok:
            cc = ctx.cfg(cf)
            node = [n for n in cc.nodes if n.kind == "call" and n.ast is cn.ast][0]
            arms = chain_arms(cc, "error_type")
            ok = "NoError" in arms and cc.dominated_by_branch(arms["NoError"].test, "T", node)
            # the partition acknowledged is the one of this response entry
            a0 = arg_of(cn.ast, 0)
            okp = isinstance(a0, ast.Name) and any(isinstance(def_value(d), ast.Call) and call_attr(def_value(d)) == "TopicPartition"
                                                    for d in local_defs(cc, a0.id))
            ctx.ob(R, cf, cn, okp, "acknowledged partition is not built from the response entry", text="ack-tp")
        ctx.ob(R, cf, cn, ok, "partition_added outside the NoError arm of AddPartitionsToTxn", text="ack-only-on-noerror")
    fm = ctx.fn(f"{TXN}.maybe_add_partition_to_txn")
    cm = ctx.cfg(fm)
    adds = [n for n in cm.calls(attr="add") if unparse(n.ast.func.value) == "self._pending_txn_partitions"]
    tests = [t for t in cm.nodes if t.kind == "test" and isinstance(t.ast, ast.Compare) and isinstance(t.ast.ops[0], (ast.NotIn, ast.In))
             and unparse(t.ast.comparators[0]) == "self._txn_partitions"]
    ok = len(adds) == 1 and len(tests) == 1 and cm.dominated_by_branch(tests[0], "T" if isinstance(tests[0].ast.ops[0], ast.NotIn) else "F", adds[0])
    ctx.ob(R, fm, fm.node, ok, "a partition not yet registered is not put in the pending set", text="pending-add")
    if ok:
        # every path where tp is not registered reaches the add (unless non-transactional)
        br = "T" if isinstance(tests[0].ast.ops[0], ast.NotIn) else "F"
        ts = [m for m, l in tests[0].succ if l == br]
        ctx.ob(R, fm, tests[0], cm.exit not in cm.reachable(ts, avoid=set(adds), exc=False, include_src=True), "unregistered partition may be skipped", text="pending-add-all")
    asr = [n for n in cm.nodes if n.kind == "assert" and "is_in_transaction" in unparse(n.ast.test)]
    ctx.ob(R, fm, fm.node, bool(asr) and all(cm.dominates(asr[0], a) for a in adds), "partition added outside an open transaction", text="in-txn-assert")
    # _append_batch: register before queue
    fb = ctx.fn(f"{ACC}._append_batch")
    cb = ctx.cfg(fb)
    reg = cb.calls(attr="maybe_add_partition_to_txn")
    q = [n for n in cb.calls(attr="append") if "self._batches" in unparse(n.ast.func.value)]
    ok = len(reg) == 1 and len(q) == 1 and cb.path_exists(reg[0], q[0]) and not cb.path_exists(q[0], reg[0])
    tt = [t for t in cb.nodes if t.kind == "test" and is_none_test(t.ast, negate=True) is not None and unparse(is_none_test(t.ast, negate=True)) == "self._txn_manager"]
    ok = ok and any(q[0] not in cb.reachable([m for m, l in t.succ if l == "T"], avoid=set(reg), include_src=True) for t in tt)
    ctx.ob(R, fb, fb.node, ok, "batch queued before / without registering its partition with the transaction", text="register-before-queue")
    if len(reg) == 1:
        ctx.ob(R, fb, reg[0], unparse(arg_of(reg[0].ast, 0)) == fb.params()[2], "registers a different partition", text="register-arg")
    for cf, cn in ctx.callers("_append_batch"):
        ctx.ob(R, cf, cn, cf.qualname in (f"{ACC}.add_message", f"{ACC}.add_batch"), f"_append_batch called from {cf.qualname}", text="append-batch-caller")


def rule_one_at_a_time(ctx):
    R = "one-at-a-time"
    ctx.rep.rule(R, "one transactional request at a time (spawned only when no txn task exists or it is done), chosen in the order "
                    "add-partitions > add-offsets > txn-offset-commit > end-txn; EndTxn only when nothing is pending")
    fi = ctx.fn(f"{SENDER}._sender_routine")
    c = ctx.cfg(fi)
    calls = ctx.one(c.calls(attr="_maybe_do_transactional_request"), "_maybe_do_transactional_request call")
    for cf, cn in ctx.callers("_maybe_do_transactional_request"):
        ctx.ob(R, cf, cn, cf.qualname == fi.qualname, "transactional request spawned outside the sender loop", text="caller")
    st = calls.stmt
    ok_bind = isinstance(st, ast.Assign) and isinstance(st.targets[0], ast.Name)
    ctx.ob(R, fi, calls, ok_bind, "spawned task not remembered", text="task-bound")
    if ok_bind:
        tv = st.targets[0].id
        done_tests = [t for t in c.nodes if t.kind == "test" and isinstance(t.ast, ast.Call) and call_attr(t.ast) == "done" and dotted(t.ast.func.value) == tv]
        none_tests = [t for t in c.nodes if t.kind == "test" and is_none_test(t.ast) is not None and unparse(is_none_test(t.ast)) == tv]
        head = [h for h in (c.loop_head(a) for a, r in calls.within if isinstance(a, ast.While)) if h is not None]
        ok = bool(done_tests) and bool(none_tests) and any(c.dominates(t, calls) for t in none_tests)
        for t in done_tests:
            if calls in c.reachable([m for m, l in t.succ if l == "F"], avoid=set(head), include_src=True):
                ok = False
        ctx.ob(R, fi, calls, ok, "a second transactional request can be started while one is running", text="single-flight")
        # the variable is not reset elsewhere
        others = [d for d in local_defs(c, tv) if d.stmt is not st and not (isinstance(def_value(d), ast.Constant) and def_value(d).value is None and not c.enclosing(d, types=(ast.While,)))]
        ctx.ob(R, fi, calls, not others, "txn task variable rebound elsewhere in the loop", text="task-var")
        # the task is awaited by the loop (added to tasks) so that failures propagate
        adds = [n for n in c.calls(attr="add") if unparse(arg_of(n.ast, 0)) == tv]
        ctx.ob(R, fi, calls, bool(adds), "txn task is not added to the awaited task set", text="task-awaited")
    fm = ctx.fn(f"{SENDER}._maybe_do_transactional_request")
    cm = ctx.cfg(fm)
    order = ["_do_add_partitions_to_txn", "_do_add_offsets_to_txn", "_do_txn_offset_commit", "_do_txn_commit"]
    spawn = {}
    for n in cm.calls(attr="create_task"):
        if n.ast.args and isinstance(n.ast.args[0], ast.Call):
            spawn.setdefault(call_attr(n.ast.args[0]), []).append(n)
    for o in order:
        ctx.ob(R, fm, fm.node, len(spawn.get(o, [])) == 1, f"expected exactly one spawn of {o}", text="spawn:" + o)
    if all(len(spawn.get(o, [])) == 1 for o in order):
        # decided on the facts that hold at each spawn: its own manager query answered `work to do`, every earlier query answered
        # `nothing` -- whatever the spelling (if-chain with returns, guard clauses, nested ifs)
        from ..rulekit import must_facts, atoms_of_test
        mf = must_facts(cm)
        q = {"_do_add_partitions_to_txn": "partitions_to_add", "_do_add_offsets_to_txn": "consumer_group_to_add",
             "_do_txn_offset_commit": "offsets_to_commit", "_do_txn_commit": "needs_transaction_commit"}
        qvar = {}
        for st_ in ast.walk(fm.node):
            if isinstance(st_, ast.Assign) and len(st_.targets) == 1 and isinstance(st_.targets[0], ast.Name) and isinstance(st_.value, ast.Call) \
                    and call_attr(st_.value) in q.values() and unparse(st_.value.func.value) in ("txn_manager", "self._txn_manager"):
                qvar[call_attr(st_.value)] = st_.targets[0].id
        ctx.anchor(len(qvar) == 4, f"the four manager queries bound to locals in _maybe_do_transactional_request: {sorted(qvar)}")

        def has_work(f, v):
            return (v, "truthy", "") in f or (v, "is not", "None") in f

        def no_work(f, v):
            return (v, "falsy", "") in f or (v, "is", "None") in f
        for i, o in enumerate(order):
            n = spawn[o][0]
            f = mf[n]
            v = qvar[q[o]]
            ctx.ob(R, fm, n, has_work(f, v), f"{o} spawned without txn_manager.{q[o]}() having reported work", text="cond:" + o)
            ctx.ob(R, fm, n, isinstance(n.stmt, ast.Return), f"{o} spawn is not returned (several requests could start)", text="returned:" + o)
            for p_ in order[:i]:
                # (the earlier query's variable may be re-bound later, so the fact is read off the test's edges, not at the spawn)
                vp = qvar[q[p_]]
                tp_ = [t for t in cm.nodes if t.kind == "test" and (atoms_of_test(t.ast, True) | atoms_of_test(t.ast, False)) & {(vp, "truthy", ""), (vp, "falsy", ""), (vp, "is", "None"), (vp, "is not", "None")}]
                okp = bool(tp_) and any(cm.dominates(t, n) for t in tp_)
                for t in tp_:
                    for m_, l_ in t.succ:
                        if l_ in ("T", "F") and has_work(atoms_of_test(t.ast, l_ == "T"), vp) and n in cm.reachable([m_], exc=False, include_src=True):
                            okp = False
                ctx.ob(R, fm, n, okp, f"{o} can be chosen while {p_} still has work", text=f"priority:{p_}>{o}")
            # the arguments are what that query returned (the value itself, its components, or *value)
            names = set()
            for x in n.ast.args[0].args:
                names |= {y.id for y in ast.walk(x) if isinstance(y, ast.Name)}
            ok = True
            for nm in names - {"self"}:
                if nm == v:
                    continue
                ds = [d for d in local_defs(cm, nm) if cm.dominates(d, n)]
                ds = [d for d in ds if not any(o_ is not d and cm.dominates(d, o_) for o_ in ds)]       # the definition closest to the spawn
                ok = ok and bool(ds) and all(isinstance(d.stmt, ast.Assign) and unparse(d.stmt.value) == v for d in ds)
            ctx.ob(R, fm, n, ok and bool(names - {"self"}), f"{o} is not driven by txn_manager.{q[o]}()", text="query:" + o)
    # manager queries
    f1 = ctx.fn(f"{TXN}.offsets_to_commit")
    c1 = ctx.cfg(f1)
    t = [x for x in c1.nodes if x.kind == "test" and is_none_test(x.ast) is not None and unparse(is_none_test(x.ast)) == "self._txn_consumer_group"]
    rn = [r for r in c1.nodes if r.kind == "return" and not (r.ast.value is None or const_value(r.ast.value) is None and isinstance(r.ast.value, ast.Constant))]
    ctx.ob(R, f1, f1.node, bool(t) and bool(rn) and all(c1.dominated_by_branch(t[0], "F", r) for r in rn), "offsets can be committed before the group was added to the transaction", text="offsets-after-group")
    f2 = ctx.fn(f"{TXN}.consumer_group_to_add")
    c2 = ctx.cfg(f2)
    t = [x for x in c2.nodes if x.kind == "test" and is_none_test(x.ast, negate=True) is not None and unparse(is_none_test(x.ast, negate=True)) == "self._txn_consumer_group"]
    rn = [r for r in c2.nodes if r.kind == "return" and isinstance(r.ast.value, ast.Name)]
    ctx.ob(R, f2, f2.node, bool(t) and bool(rn) and all(c2.dominated_by_branch(t[0], "F", r) for r in rn), "group re-added although already registered", text="group-once")
    f3 = ctx.fn(f"{TXN}.needs_transaction_commit")
    c3 = ctx.cfg(f3)
    m = {}
    for r in c3.nodes:
        if r.kind == "return" and r.ast.value is not None and "TransactionResult." in unparse(r.ast.value):
            for t in c3.nodes:
                if t.kind == "test" and isinstance(t.ast, ast.Compare) and unparse(t.ast.left) == "self.state" and c3.dominated_by_branch(t, "T", r):
                    m[unparse(t.ast.comparators[0]).split(".")[-1]] = unparse(r.ast.value).split(".")[-1]
    ctx.ob(R, f3, f3.node, m == {"COMMITTING_TRANSACTION": "COMMIT", "ABORTING_TRANSACTION": "ABORT"}, f"state -> EndTxn result mapping is {m}", text="result-map")
    tr = ctx.repo.cls("aiokafka.producer.transaction_manager.TransactionResult")
    vals = {s.targets[0].id: const_value(s.value) for s in tr.node.body if isinstance(s, ast.Assign)}
    ctx.rep.ob(R, f"{tr.module.relpath}:{tr.node.lineno} TransactionResult", "TransactionResult|wire-values", vals == {"ABORT": 0, "COMMIT": 1}, f"EndTxn wire values {vals}")


def rule_flush_before_end(ctx):
    R = "flush-before-end"
    ctx.rep.rule(R, "_do_txn_commit: `await flush_for_commit()` dominates the EndTxn request and the empty-transaction shortcut; "
                    "EndTxnHandler is created nowhere else; its result flag is the one chosen by needs_transaction_commit")
    fi = ctx.fn(f"{SENDER}._do_txn_commit")
    c = ctx.cfg(fi)
    fl = [n for n in c.nodes if n.kind == "await" and isinstance(n.ast, ast.Await) and isinstance(n.ast.value, ast.Call) and call_attr(n.ast.value) == "flush_for_commit"]
    fl = ctx.one(fl, "await flush_for_commit()")
    end = c.calls(name="EndTxnHandler")
    ctx.ob(R, fi, fi.node, len(end) == 1, "no EndTxnHandler in _do_txn_commit", text="endtxn-exists")
    for e in end + c.calls(attr="complete_transaction") + c.calls(attr="is_empty_transaction"):
        ctx.ob(R, fi, e, c.dominates(fl, e), f"{unparse(e.ast)[:40]} can run before the transaction's batches were flushed", text="flush-dominates:" + (call_attr(e.ast) or ""))
    for e in end:
        ctx.ob(R, fi, e, unparse(arg_of(e.ast, 1)) == fi.params()[1], "EndTxn result is not the requested one", text="result-arg")
    # every normal way out of _do_txn_commit has ended the transaction: either the EndTxn handler ran, or (nothing registered) the
    # transaction was completed locally -- otherwise commit/abort_transaction() waits for ever and the state never returns to READY
    enders = set(c.calls(attr="complete_transaction")) | {n for n in c.nodes if n.kind == "await" and isinstance(n.ast, ast.Await) and isinstance(n.ast.value, ast.Call)
                                                          and call_attr(n.ast.value) == "do" and any(c.dominates(e_, n) for e_ in end)}
    ok = bool(enders) and c.exit not in c.reachable([c.entry], avoid=enders, exc=False)
    ctx.ob(R, fi, fi.node, ok, "_do_txn_commit can return without having ended the transaction (neither EndTxn sent nor the empty transaction completed)", text="every-exit-ends")
    em_t = [t for t in c.nodes if t.kind == "test" and "is_empty_transaction()" in unparse(t.ast)]
    ok = len(em_t) == 1 and all(c.dominated_by_branch(em_t[0], "T", n) for n in c.calls(attr="complete_transaction")) and all(not c.dominated_by_branch(em_t[0], "T", e_) for e_ in end)
    ctx.ob(R, fi, fi.node, ok, "the local completion is not taken exactly for an empty transaction (EndTxn skipped for a transaction the coordinator knows, or sent for one it does not)", text="shortcut-iff-empty")
    for fn in ctx.repo.funcs.values():
        if fn.module.name != MOD:
            continue
        for n in ctx.cfg(fn).calls(name="EndTxnHandler"):
            ctx.ob(R, fn, n, fn.qualname == fi.qualname, "EndTxn sent from outside _do_txn_commit", text="endtxn-site")
    # empty-transaction shortcut is sound only if the registry is accurate: see registry-reset
    em = ctx.fn(f"{TXN}.is_empty_transaction")
    rets = [n for n in ctx.cfg(em).nodes if n.kind == "return"]
    t = unparse(rets[0].ast.value) if rets else ""
    ctx.ob(R, em, em.node, len(rets) == 1 and "txn_partitions" in t and "_txn_consumer_group is None" in t and " and " in t, "is_empty_transaction ignores partitions or offsets", text="empty-def")
    # EndTxn request carries pid / epoch / transactional id of the manager
    fr = ctx.fn(f"{MOD}.EndTxnHandler.create_request")
    cr = ctx.cfg(fr)
    rq = ctx.one(cr.calls(name="EndTxnRequest"), "EndTxnRequest(...)")
    kws = {k.arg: unparse(k.value) for k in rq.ast.keywords}
    ctx.ob(R, fr, rq, kws.get("transaction_result") == "self._commit_result" and kws.get("producer_id", "").endswith(".producer_id") and
           kws.get("producer_epoch", "").endswith(".producer_epoch") and kws.get("transactional_id", "").endswith(".transactional_id"), f"EndTxnRequest fields {kws}", text="endtxn-fields")


def rule_send_guard(ctx):
    R = "send-guard"
    ctx.rep.rule(R, "send()/send_batch() raise IllegalOperation unless in a transaction, with no suspension point between that test and "
                    "the call into the accumulator; batches of a transactional producer carry the transactional flag")
    for name, sink in (("send", "add_message"), ("send_batch", "add_batch")):
        fi = ctx.fn(f"{PRODUCER}.{name}")
        c = ctx.cfg(fi)
        sk = ctx.one(c.calls(attr=sink), f"{sink} call in {name}")
        tests = [t for t in c.nodes if t.kind == "test" and isinstance(t.ast, ast.Call) and call_attr(t.ast) == "is_in_transaction"]
        ctx.ob(R, fi, fi.node, len(tests) == 1, "no is_in_transaction test", text="has-test")
        for t in tests:
            fb = c.reachable([m for m, l in t.succ if l == "F"], avoid=[sk], exc=False, include_src=True)
            rs = [n for n in fb if n.kind == "raise"]
            ok = bool(rs) and all("IllegalOperation" in unparse(n.ast.exc) for n in rs) and sk not in c.reachable([m for m, l in t.succ if l == "F"], include_src=True)
            ctx.ob(R, fi, t, ok, "not being in a transaction does not raise IllegalOperation", text="raises")
            nos, w = ctx.no_suspension_between(fi, t, sk)
            ctx.ob(R, fi, sk, nos, f"suspension {w!r} between the in-transaction test and {sink}()", text="atomic")
            # for transactional producers the test is on every path to the sink: walk from the entry, never taking an edge that
            # means "no transaction manager" / "no transactional id", never passing the in-transaction test: the sink must be unreachable
            from ..rulekit import none_tests
            from .c19 import aliases
            subjects = set()
            for x in c.nodes:
                if x.kind == "test":
                    for a_ in (is_none_test(x.ast), is_none_test(x.ast, negate=True)):
                        if a_ is not None:
                            tx = unparse(a_)
                            if tx.endswith("transactional_id") or tx.endswith("_txn_manager") or tx in aliases(fi, "self._txn_manager"):
                                subjects.add(tx)
            skip = set()
            for sb in subjects:
                for tn, lab_none, _lab_some in none_tests(c, sb):
                    skip.add((tn, lab_none))
            seen_, stack_ = set(), [c.entry]
            while stack_:
                n_ = stack_.pop()
                if n_ in seen_ or n_ is t:
                    continue
                seen_.add(n_)
                stack_ += [m_ for m_, l_ in n_.succ if (n_, l_) not in skip]
            ok2 = bool(subjects) and sk not in seen_
            ctx.ob(R, fi, sk, ok2, "a transactional producer can reach the accumulator without the test", text="on-every-path")
    fb = ctx.fn(f"{ACC}.create_builder")
    cb = ctx.cfg(fb)
    bb = ctx.one(cb.calls(name="BatchBuilder"), "BatchBuilder(...) in create_builder")
    kv = arg_of(bb.ast, kw="is_transactional")
    ok = isinstance(kv, ast.Name)
    if ok:
        defs = local_defs(cb, kv.id)
        trues = [d for d in defs if const_value(def_value(d)) is True]
        tt = [t for t in cb.nodes if t.kind == "test" and is_none_test(t.ast, negate=True) is not None and unparse(is_none_test(t.ast, negate=True)).endswith("transactional_id")]
        ok = len(trues) == 1 and bool(tt) and cb.dominated_by_branch(tt[0], "T", trues[0]) and \
            bb not in cb.reachable([m for m, l in tt[0].succ if l == "T"], avoid=set(trues), exc=False, include_src=True)
    ctx.ob(R, fb, bb, ok, "builder's transactional flag does not follow transactional_id", text="flag")
    fbi = ctx.fn("aiokafka.producer.message_accumulator.BatchBuilder.__init__")
    ci = ctx.cfg(fbi)
    d = ctx.one(ci.calls(name="DefaultRecordBatchBuilder"), "DefaultRecordBatchBuilder(...)")
    ctx.ob(R, fbi, d, unparse(arg_of(d.ast, kw="is_transactional") or ast.Constant(0)) == "is_transactional", "flag not forwarded to the record batch", text="flag-forwarded")
    for cf, cn in ctx.callers("create_builder"):
        pass
    # the accumulator-level guard: a batch created late (a send() that slept on a full batch while commit/abort started) is refused
    # because registering its partition asserts the open transaction -- for EVERY partition, registered already or not
    fm = ctx.fn("aiokafka.producer.transaction_manager.TransactionManager.maybe_add_partition_to_txn")
    cm = ctx.cfg(fm)
    asr = [n for n in cm.nodes if n.kind == "assert" and "is_in_transaction()" in unparse(n.ast.test)]
    from ..rulekit import none_tests as _nts
    nts_ = _nts(cm, "self.transactional_id")
    nt = [t for t, _a, _b in nts_]
    l_none = nts_[0][1] if nts_ else "T"
    ok = bool(asr) and len(nt) == 1
    if ok:
        # every normal path to the exit passes the assert, except the one that found no transactional id
        seen, stack, hit = set(), [cm.entry], False
        while stack:
            n = stack.pop()
            if n in seen or n in asr:
                continue
            seen.add(n)
            if n is cm.exit:
                hit = True
                break
            for m, l in n.succ:
                if l == "exc" or (n is nt[0] and l == l_none):
                    continue
                stack.append(m)
        ok = not hit
    ctx.ob(R, fm, fm.node, ok, "maybe_add_partition_to_txn can return for a transactional producer without asserting that a transaction is open: a batch "
                               "created after commit/abort started (by a send() that was waiting for room) is accepted and written outside the transaction",
           text="append-asserts-open-transaction")
    fap = ctx.fn(f"{ACC}._append_batch")
    cap = ctx.cfg(fap)
    reg = cap.calls(attr="maybe_add_partition_to_txn")
    apd = [n for n in cap.calls(attr="append") if "_batches" in unparse(n.ast.func.value)]
    okr = len(reg) == 1 and len(apd) == 1
    if okr:
        tmn = [t for t in cap.nodes if t.kind == "test" and "self._txn_manager" in unparse(t.ast)]
        skip = set()
        for t in tmn:
            lab = "F" if is_none_test(t.ast, negate=True) is not None else ("T" if is_none_test(t.ast) is not None else "F")
            skip.add((t, lab))
        seen, stack = set(), [cap.entry]
        while stack:
            n = stack.pop()
            if n in seen or n is reg[0]:
                continue
            seen.add(n)
            stack += [m for m, l in n.succ if l != "exc" and (n, l) not in skip]
        okr = apd[0] not in seen
    ctx.ob(R, fap, fap.node, okr, "_append_batch queues the batch before / without registering (and so validating) its partition", text="register-before-queue")
    fa = ctx.fn(f"{ACC}.add_message")
    ca = ctx.cfg(fa)
    cbc = ca.calls(attr="create_builder")
    ctx.ob(R, fa, fa.node, len(cbc) == 1 and unparse(cbc[0].ast.func.value) == "self", "add_message builds batches some other way", text="builder-source")


def rule_registry_reset(ctx):
    R = "registry-reset"
    ctx.rep.rule(R, "the record of what the coordinator has registered (_txn_partitions, _txn_consumer_group) -- on which the "
                    "'empty transaction: skip EndTxn' shortcut rests -- is cleared only when the transaction really ended "
                    "(complete_transaction) or the producer is dead (fatal_error)")
    allowed_clear = {f"{TXN}.complete_transaction", f"{TXN}.fatal_error", f"{TXN}.__init__"}
    n = 0
    for wf, wn, how in ctx.attr_writers_of("_txn_partitions", "TransactionManager", fields=("_txn_manager", "txn_manager")):
        n += 1
        if how in (".clear", "store", ".remove", ".discard", ".pop"):
            ctx.ob(R, wf, wn, wf.qualname in allowed_clear, f"{wf.qualname} forgets registered partitions ({how}) although the coordinator still has them", text="partitions-cleared")
        else:
            ctx.ob(R, wf, wn, wf.qualname == f"{TXN}.partition_added", f"{wf.qualname} adds to the registry ({how})", text="partitions-added")
    for wf, wn, how in ctx.attr_writers_of("_txn_consumer_group", "TransactionManager", fields=("_txn_manager", "txn_manager")):
        n += 1
        v = wn.stmt.value if isinstance(wn.stmt, ast.Assign) else None
        if v is not None and isinstance(v, ast.Constant) and v.value is None:
            ctx.ob(R, wf, wn, wf.qualname in allowed_clear, f"{wf.qualname} forgets the registered consumer group", text="group-cleared")
        else:
            ctx.ob(R, wf, wn, wf.qualname == f"{TXN}.consumer_group_added", f"{wf.qualname} sets the registered group", text="group-set")
    if n < 6:
        raise AnalysisError(f"registry-reset: {n} writers found (floor 6)")
    # the registry is also WRITTEN when the coordinator acknowledged a registration, and the emptiness shortcut reads exactly it
    fpa = ctx.fn(f"{TXN}.partition_added")
    adds = [x for x in ctx.cfg(fpa).calls(attr="add") if unparse(x.ast.func.value) == "self._txn_partitions"]
    ctx.ob(R, fpa, fpa.node, len(adds) == 1 and unparse(arg_of(adds[0].ast, 0)) == fpa.params()[1], "partition_added does not record the acknowledged partition", text="partition-recorded")
    fga = ctx.fn(f"{TXN}.consumer_group_added")
    sets = [x for x in ctx.cfg(fga).stores(attr="_txn_consumer_group")]
    ctx.ob(R, fga, fga.node, len(sets) == 1 and isinstance(sets[0].stmt, ast.Assign) and unparse(sets[0].stmt.value) == fga.params()[1] and ctx.cfg(fga).dominates(sets[0], ctx.cfg(fga).exit) is not False
           and ctx.cfg(fga).exit not in ctx.cfg(fga).reachable([ctx.cfg(fga).entry], avoid=set(sets), exc=False),
           "consumer_group_added does not record the acknowledged group on every path: an offsets-only transaction looks empty and its EndTxn is skipped", text="group-recorded")
    from .. import finite
    fe = ctx.fn(f"{TXN}.is_empty_transaction")
    got = {}
    for parts in ((), ("tp",)):
        for grp in (None, "g"):
            env = {"self.txn_partitions": list(parts), "self._txn_partitions": list(parts), "self._txn_consumer_group": grp, "__calls__": {"len": len}}
            try:
                finite.run(fe.node.body, env, set())
                got[(bool(parts), grp is not None)] = None
            except finite._Return as r_:
                got[(bool(parts), grp is not None)] = bool(r_.v)
    ctx.ob(R, fe, fe.node, got == {(False, False): True, (False, True): False, (True, False): False, (True, True): False},
           f"is_empty_transaction gives {got} over (partitions registered, group registered): it must be true exactly when neither is", text="empty-iff-nothing-registered")
    fc = ctx.fn(f"{TXN}.complete_transaction")
    cc = ctx.cfg(fc)
    ctx.ob(R, fc, fc.node, any(unparse(x.ast.func.value) == "self._txn_partitions" for x in cc.calls(attr="clear")) and
           any(isinstance(s.stmt, ast.Assign) and const_value(s.stmt.value) is None for s in cc.stores(attr="_txn_consumer_group")),
           "complete_transaction leaves the registry populated for the next transaction", text="complete-clears")
    for cf, cn in ctx.callers("complete_transaction"):
        ok = cf.qualname in (f"{SENDER}._do_txn_commit", f"{MOD}.EndTxnHandler.handle_response")
        ctx.ob(R, cf, cn, ok, f"complete_transaction called from {cf.qualname}", text="complete-caller")
        if cf.qualname == f"{MOD}.EndTxnHandler.handle_response":
            c2 = ctx.cfg(cf)
            node = [x for x in c2.nodes if x.kind == "call" and x.ast is cn.ast][0]
            arms = chain_arms(c2, "error_type")
            ctx.ob(R, cf, cn, "NoError" in arms and c2.dominated_by_branch(arms["NoError"].test, "T", node), "transaction completed on an error reply", text="complete-on-noerror")
        if cf.qualname == f"{SENDER}._do_txn_commit":
            c2 = ctx.cfg(cf)
            node = [x for x in c2.nodes if x.kind == "call" and x.ast is cn.ast][0]
            tt = [t for t in c2.nodes if t.kind == "test" and isinstance(t.ast, ast.Call) and call_attr(t.ast) == "is_empty_transaction"]
            ctx.ob(R, cf, cn, bool(tt) and c2.dominated_by_branch(tt[0], "T", node), "transaction completed without EndTxn although not empty", text="complete-when-empty")


def rule_pending_offsets(ctx):
    R = "pending-offsets-owned"
    ctx.rep.rule(R, "the queue of consumer offsets waiting for TxnOffsetCommit: every send_offsets_to_transaction call enqueues ONE entry "
                    "(its group, its own offsets mapping, a future created for it) and gets that future back; an entry already queued -- its request "
                    "may be in flight, and the reply is matched against the very mapping -- is never altered except that offset_committed removes the "
                    "partitions a NoError reply acknowledged, resolves the future when none is left and only then pops the entry; only the two "
                    "error paths drop entries (failing their futures)")
    MUT = {"update", "pop", "popitem", "clear", "setdefault", "__setitem__", "__delitem__"}
    n_entries = 0
    for fi in list(ctx.repo.funcs.values()):
        if not fi.qualname.startswith(TXN + "."):
            continue
        comp = _entry_roles(fi)
        if not comp and "_pending_txn_offsets" not in unparse(fi.node):
            continue
        c = ctx.cfg(fi)
        touched = False
        for n in c.nodes:
            recv = how = None
            if n.kind == "call" and isinstance(n.ast.func, ast.Attribute):
                recv, how = n.ast.func.value, n.ast.func.attr
            elif n.kind in ("store", "delete") and isinstance(n.ast, ast.Subscript):
                recv, how = n.ast.value, "__setitem__" if n.kind == "store" else "__delitem__"
            role = _role_of(recv, comp) if recv is not None else None
            if role is None:
                continue
            touched = True
            if role in (1, "entry") and how in MUT:
                ok = fi.qualname == f"{TXN}.offset_committed" and how == "__delitem__"
                ctx.ob(R, fi, n, ok, f"{fi.name} alters the offsets of an entry that is already queued (`{n.text()[:50]}`): the request built from it may be in flight, "
                                     "and its reply then acknowledges (and deletes) an offset that was never sent", text=f"entry-immutable:{how}")
            if role == 2 and how in ("set_result", "set_exception", "cancel"):
                ok = (how == "set_result" and fi.qualname == f"{TXN}.offset_committed") or \
                     (how == "set_exception" and fi.qualname in (f"{TXN}.error_transaction", f"{TXN}.fatal_error"))
                ctx.ob(R, fi, n, ok, f"{fi.name} resolves a queued entry's future with {how}", text=f"entry-future:{how}")
        if comp or touched:
            n_entries += 1
    ctx.anchor(n_entries >= 3, f"functions reading entries of _pending_txn_offsets ({n_entries})")
    # one fresh entry per call, and its future is what the caller gets
    fa = ctx.fn(f"{TXN}.add_offsets_to_txn")
    ca = ctx.cfg(fa)
    apps = [x for x in ca.calls(attr="append") if unparse(x.ast.func.value) == "self._pending_txn_offsets"]
    ctx.anchor(len(apps) == 1, "one append to _pending_txn_offsets in add_offsets_to_txn")
    ap = apps[0]
    e = arg_of(ap.ast, 0)
    ps = fa.params()
    okshape = isinstance(e, ast.Tuple) and len(e.elts) == 3 and unparse(e.elts[0]) == ps[2] and unparse(e.elts[1]) == ps[1] and isinstance(e.elts[2], ast.Name)
    fresh = False
    if okshape:
        ds = local_defs(ca, e.elts[2].id)
        fresh = len(ds) == 1 and isinstance(ds[0].stmt, ast.Assign) and isinstance(ds[0].stmt.value, ast.Call) and call_name(ds[0].stmt.value) == "create_future" and ca.dominates(ds[0], ap)
    ctx.ob(R, fa, ap, okshape and fresh, "the queued entry is not (group_id, offsets, <future created for this call>)", text="entry-shape")
    rets = [r for r in ca.nodes if r.kind == "return"]
    ctx.ob(R, fa, fa.node, bool(rets) and all(okshape and r.ast.value is not None and unparse(r.ast.value) == unparse(e.elts[2]) and ca.dominates(ap, r) for r in rets)
           and ca.exit not in ca.reachable([ca.entry], avoid={ap}, exc=False),
           "add_offsets_to_txn can return without having queued an entry of its own, or returns something other than that entry's future: "
           "the caller's offsets ride on another call's entry", text="own-entry-returned")
    # offset_committed: pops only when the mapping is empty, after resolving
    fo = ctx.fn(f"{TXN}.offset_committed")
    co = ctx.cfg(fo)
    pops = [x for x in co.calls(attr="popleft") if unparse(x.ast.func.value) == "self._pending_txn_offsets"]
    ctx.anchor(len(pops) == 1, "popleft in offset_committed")
    facts = must_facts(co)
    roles = _entry_roles(fo)
    okp = any(a[1] == "falsy" and _role_of(ast.parse(a[0], mode="eval").body, roles) == 1 for a in (facts[pops[0]] or ()) if a[1] == "falsy" and _parses(a[0]))
    ctx.ob(R, fo, pops[0], okp, "the head entry is popped although partitions of it are still unacknowledged", text="pop-when-empty")
    dels = [n for n in co.nodes if n.kind == "delete" and isinstance(n.ast, ast.Subscript) and _role_of(n.ast.value, roles) == 1]
    ctx.ob(R, fo, fo.node, len(dels) == 1 and unparse(dels[0].ast.slice) == fo.params()[1] and co.dominates(dels[0], co.exit),
           "offset_committed does not remove exactly the acknowledged partition from the head entry", text="ack-removes-partition")


def _parses(t):
    try:
        ast.parse(t, mode="eval")
        return True
    except SyntaxError:
        return False


def _is_queue_elem(e):
    return isinstance(e, ast.Subscript) and unparse(e.value) == "self._pending_txn_offsets"


def _role_of(e, roles):
    """'entry' / 0 / 1 / 2 when the expression denotes a queued entry or its group / offsets / future component."""
    if isinstance(e, ast.Name):
        return roles.get(e.id)
    if _is_queue_elem(e):
        return "entry"
    if isinstance(e, ast.Subscript):
        base = _role_of(e.value, roles)
        k = const_value(e.slice)
        if base == "entry" and isinstance(k, int):
            return k
    return None


def _entry_roles(fi):
    """local name -> role, for locals bound (directly, by unpacking, by indexing, as loop targets) to entries of the offsets queue."""
    roles = {}
    changed = True
    while changed:
        changed = False
        for st in ast.walk(fi.node):
            src = tgt = None
            if isinstance(st, ast.Assign) and len(st.targets) == 1:
                src, tgt = st.value, st.targets[0]
                r = _role_of(src, roles)
            elif isinstance(st, (ast.For, ast.AsyncFor)) and unparse(st.iter) == "self._pending_txn_offsets":
                tgt, r = st.target, "entry"
            else:
                continue
            if r is None:
                continue
            if isinstance(tgt, ast.Name):
                if tgt.id not in roles:
                    roles[tgt.id] = r
                    changed = True
            elif isinstance(tgt, (ast.Tuple, ast.List)) and r == "entry":
                for i, e in enumerate(tgt.elts):
                    if isinstance(e, ast.Name) and e.id not in roles:
                        roles[e.id] = i
                        changed = True
    return roles


# ---- error -> effect tables ------------------------------------------------------------------
RETRY = "retry"          # return a back-off (request is re-issued)
DEAD = "coordinator-dead+retry"
FENCED = "raise ProducerFenced"
RAISE = "raise error"
ABORTABLE = "abortable error"
OK = "success"

TABLES = {
    "InitPIDHandler": {"NoError": (OK, "set_pid_and_epoch"), "CoordinatorNotAvailableError": DEAD, "NotCoordinatorError": DEAD,
                       "CoordinatorLoadInProgressError": RETRY, "ConcurrentTransactions": RETRY, "TransactionalIdAuthorizationFailed": RAISE},
    "AddPartitionsToTxnHandler": {"NoError": (OK, "partition_added"), "CoordinatorNotAvailableError": DEAD, "NotCoordinatorError": DEAD,
                                  "ConcurrentTransactions": RETRY, "CoordinatorLoadInProgressError": RETRY, "UnknownTopicOrPartitionError": RETRY,
                                  "InvalidProducerEpoch": FENCED, "InvalidProducerIdMapping": RAISE, "InvalidTxnState": RAISE,
                                  "TransactionalIdAuthorizationFailed": RAISE},
    "AddOffsetsToTxnHandler": {"NoError": (OK, "consumer_group_added"), "CoordinatorNotAvailableError": DEAD, "NotCoordinatorError": DEAD,
                               "CoordinatorLoadInProgressError": RETRY, "ConcurrentTransactions": RETRY, "InvalidProducerEpoch": FENCED,
                               "InvalidTxnState": RAISE, "TransactionalIdAuthorizationFailed": RAISE, "GroupAuthorizationFailedError": ABORTABLE},
    "TxnOffsetCommitHandler": {"NoError": (OK, "offset_committed"), "CoordinatorNotAvailableError": DEAD, "NotCoordinatorError": DEAD,
                               "CoordinatorLoadInProgressError": RETRY, "UnknownTopicOrPartitionError": RETRY, "InvalidProducerEpoch": FENCED,
                               "TransactionalIdAuthorizationFailed": RAISE, "GroupAuthorizationFailedError": ABORTABLE},
    "EndTxnHandler": {"NoError": (OK, "complete_transaction"), "CoordinatorNotAvailableError": DEAD, "NotCoordinatorError": DEAD,
                      "CoordinatorLoadInProgressError": RETRY, "ConcurrentTransactions": RETRY, "InvalidProducerEpoch": FENCED, "InvalidTxnState": RAISE},
}
STATE_CALLS = {"set_pid_and_epoch", "partition_added", "consumer_group_added", "offset_committed", "complete_transaction", "error_transaction", "fatal_error"}


def _classify(arm):
    calls = arm.calls()
    ends = arm.terminals()
    st = calls & STATE_CALLS
    if all(e.startswith("raise:") for e in ends):
        if ends == ["raise:ProducerFenced"]:
            return FENCED
        return RAISE
    if "error_transaction" in st and all(e == "return:None" for e in ends):
        return ABORTABLE
    if all(e.startswith("return:") and e != "return:None" for e in ends):
        if st:
            return f"retry with state change {sorted(st)}"
        if arm.all_paths_call("_coordinator_dead"):
            return DEAD
        if "_coordinator_dead" in calls:
            return "coordinator-dead on some paths"
        return RETRY
    if all(e in ("return:None", "next-iteration") for e in ends):
        succ = st - {"error_transaction", "fatal_error"}
        if len(succ) == 1 and all(list(succ)[0] in c for c, _t, _n in arm.paths):
            return (OK, list(succ)[0])
        if not st:
            return "ignored"
    return f"mixed {arm.describe()}"


def rule_error_tables(ctx):
    R = "error-effects"
    ctx.rep.rule(R, "error -> effect table of the five transactional handlers (success effect only on NoError; coordinator moved -> "
                    "forget coordinator and retry; load/concurrent -> retry without state change; InvalidProducerEpoch -> ProducerFenced; "
                    "authorization/invalid state -> raise or abortable error; unknown -> raise), handle_error forgets the right coordinator, "
                    "BaseHandler.do reports failure so the request is re-issued, _find_coordinator retries only transient errors")
    for h, table in TABLES.items():
        fi = ctx.fn(f"{MOD}.{h}.handle_response")
        c = ctx.cfg(fi)
        arms = chain_arms(c, "error_type")
        ctx.anchor(len(arms) >= 5, f"error chain of {h}")
        for cls, want in table.items():
            a = arms.get(cls)
            got = _classify(a) if a is not None else "<falls into else>"
            ctx.ob(R, fi, a.test if a is not None else fi.node, got == want, f"{h}: {cls} -> {got}, protocol demands {want}", text=f"{h}:{cls}")
        for cls, a in arms.items():
            if cls in table or cls == "<else>":
                continue
            got = _classify(a)
            # extra arms may retry, ignore, raise or be abortable -- never claim success or touch state
            okx = got in (RETRY, DEAD, RAISE, FENCED, ABORTABLE, "ignored") or (cls == "TopicAuthorizationFailedError" and a.calls() <= {"add"})
            ctx.ob(R, fi, a.test, okx, f"{h}: extra arm {cls} -> {got}", text=f"{h}:extra:{cls}")
        e = arms.get("<else>")
        ctx.ob(R, fi, fi.node, e is not None and all(t.startswith("raise:") for t in e.terminals()), f"{h}: unknown errors are not raised", text=f"{h}:else-raises")
        # coordinator kind forgotten
        kind = "GROUP" if h == "TxnOffsetCommitHandler" else "TRANSACTION"
        for n in c.calls(attr="_coordinator_dead"):
            ctx.ob(R, fi, n, unparse(arg_of(n.ast, 0)).endswith(kind), f"{h} forgets the wrong coordinator", text=f"{h}:dead-kind")
        fe = ctx.repo.resolve_method(ctx.repo.cls(f"{MOD}.{h}"), "handle_error")
        ctx.anchor(fe is not None, f"{h}.handle_error (through the class hierarchy)")
        ctx.rep.functions.add(fe.qualname)
        ce = ctx.cfg(fe)
        dn = ce.calls(attr="_coordinator_dead")
        ctx.ob(R, fe, fe.node, len(dn) == 1 and unparse(arg_of(dn[0].ast, 0)).endswith(kind) and
               all(r.ast.value is not None and const_value(r.ast.value) is None and not isinstance(r.ast.value, ast.Constant) for r in ce.nodes if r.kind == "return"),
               f"{h}.handle_error does not forget the {kind} coordinator and back off", text=f"{h}:handle-error")
    # topic authorization -> abortable after the loop
    fi = ctx.fn(f"{MOD}.AddPartitionsToTxnHandler.handle_response")
    c = ctx.cfg(fi)
    et = c.calls(attr="error_transaction")
    ok = len(et) == 1 and "TopicAuthorizationFailedError" in unparse(et[0].ast) and not c.enclosing(et[0], types=(ast.For,))
    ctx.ob(R, fi, fi.node, ok, "unauthorized topics do not put the transaction in the abortable-error state", text="topic-auth-abortable")
    # the set it is raised from accumulates over the WHOLE reply: created once before the loops, added to inside, tested after them
    if ok:
        src = [x for x in ast.walk(et[0].ast) if isinstance(x, ast.Name) and any(isinstance(def_value(d), (ast.Call, ast.Set, ast.List)) for d in local_defs(c, x.id))]
        acc = src[0].id if src else None
        ds = local_defs(c, acc) if acc else []
        adds = [n for n in c.calls(attr="add") + c.calls(attr="append") if acc and unparse(n.ast.func.value) == acc]
        oka = len(ds) == 1 and not c.enclosing(ds[0], types=(ast.For,)) and bool(adds) and all(c.enclosing(a_, types=(ast.For,)) for a_ in adds)
        ctx.ob(R, fi, (ds[0] if ds else fi.node), oka, f"the collection of unauthorized topics (`{acc}`) is not created exactly once before the reply loop: reset per topic it forgets every topic but the "
                                                       "last, an authorization failure reported first is dropped and the request is retried for ever", text="topic-auth-accumulates")
    # BaseHandler.do
    fd = ctx.fn(f"{MOD}.BaseHandler.do")
    cd = ctx.cfg(fd)
    rets = [r for r in cd.nodes if r.kind == "return"]
    hr = ctx.one(cd.calls(attr="handle_response"), "handle_response call in BaseHandler.do")
    tr = [r for r in rets if const_value(r.ast.value) is True]
    ok = len(tr) == 1
    if ok:
        bn = hr.stmt.targets[0].id if isinstance(hr.stmt, ast.Assign) and isinstance(hr.stmt.targets[0], ast.Name) else None
        from ..rulekit import none_tests
        tt = none_tests(cd, bn) if bn else []
        ok = bool(tt) and cd.dominated_by_branch(tt[0][0], tt[0][1], tr[0])
    ctx.ob(R, fd, fd.node, ok, "do() reports success although handle_response asked for a retry", text="do-success")
    hs = [n for n in cd.nodes if n.kind == "handler"]
    ctx.ob(R, fd, fd.node, any("NodeNotReadyError" in unparse(h.ast.type) and "RequestTimedOutError" in unparse(h.ast.type) for h in hs) and
           any(unparse(h.ast.type) == "KafkaError" for h in hs), "send failures are not turned into a retry", text="do-handlers")
    he = cd.calls(attr="handle_error")
    ctx.ob(R, fd, fd.node, len(he) == 1 and any("NodeNotReadyError" in unparse(a.type) for a, r in he[0].within if isinstance(a, ast.ExceptHandler)), "handle_error not invoked on connection loss / timeout", text="do-handle-error")
    for r in rets:
        if any(isinstance(a, ast.ExceptHandler) for a, _ in r.within):
            ctx.ob(R, fd, r, const_value(r.ast.value) is False, "failure arm reports success", text="do-failure-false")
    # handler groups: coordinator requests use the coordination connection
    for h in TABLES:
        ci = ctx.repo.cls(f"{MOD}.{h}")
        g = [s for s in ci.node.body if isinstance(s, ast.Assign) and isinstance(s.targets[0], ast.Name) and s.targets[0].id == "group"]
        if h != "InitPIDHandler":
            ctx.rep.ob(R, f"{ci.module.relpath}:{ci.node.lineno} {h}", f"{h}|conn-group", len(g) == 1 and unparse(g[0].value).endswith("COORDINATION"), f"{h} does not use the coordination connection group")
    # _find_coordinator
    ff = ctx.fn(f"{SENDER}._find_coordinator")
    cf = ctx.cfg(ff)
    lk = [n for n in cf.nodes if n.kind == "await" and isinstance(n.ast, ast.Await) and isinstance(n.ast.value, ast.Call) and call_attr(n.ast.value) == "coordinator_lookup"]
    lk = ctx.one(lk, "await coordinator_lookup")
    hs = {unparse(m.ast.type): m for m, l in lk.succ if l == "exc" and m.kind == "handler" and m.ast.type is not None}
    retry = [k for k in hs if "CoordinatorNotAvailableError" in k]
    ok = len(retry) == 1 and all(x in retry[0] for x in ("NodeNotReadyError", "RequestTimedOutError"))
    ctx.ob(R, ff, lk, ok, "transient lookup errors are not retried", text="lookup-retry-classes")
    if ok:
        h = hs[retry[0]]
        r = cf.reachable([h], exc=False)
        ctx.ob(R, ff, h, any(n.kind == "continue" for n in r) and not any(n.kind == "raise" for n in r) and any(n.kind == "await" and "sleep" in unparse(n.ast) for n in r),
               "retry arm does not back off and retry", text="lookup-retry-arm")
    for k, h in hs.items():
        if k not in retry:
            r = cf.reachable([h], exc=False, avoid=[n for n in cf.nodes if n.kind == "loop"])
            ctx.ob(R, ff, h, any(n.kind == "raise" for n in r) and not any(n.kind == "continue" for n in r), f"lookup error {k} is swallowed", text="lookup-fatal:" + k)
    st = [s for s in cf.nodes if s.kind == "store" and isinstance(s.ast, ast.Subscript) and unparse(s.ast.value) == "self._coordinators"]
    rd = [t for t in cf.nodes if t.kind == "test" and isinstance(t.ast, ast.Name) and "ready" in unparse(t.stmt)[:60]]
    okc = len(st) == 1 and unparse(st[0].ast.slice) == ff.params()[1] and cf.dominates(lk, st[0])
    ctx.ob(R, ff, ff.node, okc, "coordinator cache not keyed by coordinator type / filled before lookup", text="cache")
    fcd = ctx.fn(f"{SENDER}._coordinator_dead")
    ccd = ctx.cfg(fcd)
    drops = [n for n in ccd.calls(attr="pop") if unparse(n.ast.func.value) == "self._coordinators" and unparse(arg_of(n.ast, 0)) == fcd.params()[1]] + \
            [n for n in ccd.nodes if n.kind == "delete" and isinstance(n.ast, ast.Subscript) and unparse(n.ast.value) == "self._coordinators" and unparse(n.ast.slice) == fcd.params()[1]]
    # dropped on every path on which the entry exists (a `del` may be guarded by the membership test, nothing else)
    okd = bool(drops)
    if okd:
        esc = ccd.reachable([ccd.entry], avoid=set(drops), exc=False)
        if ccd.exit in esc:
            from ..rulekit import atoms_of_test, must_facts as _mf
            okd = True
            for m in esc:
                for x, l in m.succ:
                    if x is ccd.exit and l != "exc":
                        fs = set(_mf(ccd)[m] or ()) | (atoms_of_test(m.ast, l == "T") if m.kind == "test" and l in ("T", "F") else set())
                        okd = okd and any(a[1] == "not in" and a[2] == "self._coordinators" for a in fs)
    ctx.ob(R, fcd, fcd.node, okd, "_coordinator_dead does not drop the cached coordinator", text="dead-pops")
    # transactional requests go to the transaction coordinator; txn offset commit to the group coordinator
    for m, kind in (("_do_add_partitions_to_txn", "TRANSACTION"), ("_do_add_offsets_to_txn", "TRANSACTION"), ("_do_txn_commit", "TRANSACTION"), ("_do_txn_offset_commit", "GROUP")):
        f2 = ctx.fn(f"{SENDER}.{m}")
        c2 = ctx.cfg(f2)
        fc = ctx.one(c2.calls(attr="_find_coordinator"), f"_find_coordinator in {m}")
        ctx.ob(R, f2, fc, unparse(arg_of(fc.ast, 0)).endswith(kind), f"{m} talks to the wrong coordinator", text="coord-kind:" + m)
        do = [n for n in c2.nodes if n.kind == "await" and isinstance(n.ast, ast.Await) and isinstance(n.ast.value, ast.Call) and call_attr(n.ast.value) == "do"]
        ctx.ob(R, f2, fc, len(do) == 1 and isinstance(fc.stmt, ast.Assign) and unparse(arg_of(do[0].ast.value, 0)) == unparse(fc.stmt.targets[0]), f"{m} does not send to the coordinator it found", text="coord-used:" + m)


def run(ctx):
    rep = ctx.rep
    rep.explanation = ("C07 structural clauses: pending partitions are muted for produce and acknowledged only on NoError; one transactional "
                       "request at a time in priority order; EndTxn dominated by the flush of the transaction's batches; send() guarded without "
                       "a suspension before enqueue; the coordinator-side registry is forgotten only when the transaction really ended; "
                       "error->effect tables of the five handlers against KIP-98.")
    rule_txn_mute(ctx)
    rule_one_at_a_time(ctx)
    rule_flush_before_end(ctx)
    c02.rule_flush(ctx)
    rule_send_guard(ctx)
    rule_registry_reset(ctx)
    rule_pending_offsets(ctx)
    rule_error_tables(ctx)
    c01.rule_errno_unique(ctx, "error-effects")
    c02.rule_future_ownership(ctx)
    from .common import rule_commit_structure_copy
    rule_commit_structure_copy(ctx, "pending-offsets-owned")
    from .common import rule_instance_state
    rule_instance_state(ctx, ("aiokafka.producer.",))
    rep.nd("atomicity as seen by a read-committed reader under all fault / crash points (needs histories)")
    rep.nd("liveness: every transaction ends the way requested once faults cease")
