"""Static evaluation of module-level / class-level constant definitions (no import of the code under analysis).

Understands literals, arithmetic, names of earlier constants in the same class / module, `struct.calcsize(<literal>)`,
`struct.Struct(<literal>)` (value: StructConst with .format / .size) and `<Struct>.size`.  `struct` itself is the
standard library's, applied to literal format strings only.
"""
from __future__ import annotations

import ast
import struct

from .loader import AnalysisError, unparse


class StructConst:
    def __init__(self, fmt):
        self.format = fmt
        self.size = struct.calcsize(fmt)

    def fields(self):
        """[(offset, width, code)] for each field of the format (byte order prefix honoured, no padding for >,<,!,=)."""
        fmt = self.format
        order = fmt[0] if fmt and fmt[0] in "@=<>!" else "@"
        body = fmt[1:] if fmt and fmt[0] in "@=<>!" else fmt
        out = []
        off = 0
        num = ""
        for ch in body:
            if ch.isdigit():
                num += ch
                continue
            if ch.isspace():
                continue
            n = int(num) if num else 1
            num = ""
            w = struct.calcsize(order + ch)
            if ch in "sp":
                out.append((off, n, ch))
                off += n
            else:
                for _ in range(n):
                    if ch != "x":
                        out.append((off, w, ch))
                    off += w
        return out

    def __repr__(self):
        return f"Struct({self.format!r})"


class Unknown(Exception):
    pass


class ConstEnv:
    def __init__(self, module_tree, class_name=None):
        self.vals = {}
        self.order = []
        body = list(module_tree.body)
        self._load(body, prefix=None)
        if class_name is not None:
            cls = None
            for n in ast.walk(module_tree):
                if isinstance(n, ast.ClassDef) and n.name == class_name:
                    cls = n
                    break
            if cls is None:
                raise AnalysisError(f"anchor class {class_name} not found")
            # base classes in the same module first
            for b in cls.bases:
                if isinstance(b, ast.Name):
                    for n in ast.walk(module_tree):
                        if isinstance(n, ast.ClassDef) and n.name == b.id:
                            self._load(n.body, prefix=None)
            self._load(cls.body, prefix=None)

    def _load(self, body, prefix):
        for s in body:
            if isinstance(s, ast.Assign):
                try:
                    v = self.eval(s.value)
                except Unknown:
                    continue
                for t in s.targets:
                    if isinstance(t, ast.Name):
                        self.vals[t.id] = v
                    elif isinstance(t, (ast.Tuple, ast.List)) and isinstance(v, (tuple, list)) and len(v) == len(t.elts):
                        for te, ve in zip(t.elts, v):
                            if isinstance(te, ast.Name):
                                self.vals[te.id] = ve
            elif isinstance(s, ast.AnnAssign) and s.value is not None and isinstance(s.target, ast.Name):
                try:
                    self.vals[s.target.id] = self.eval(s.value)
                except Unknown:
                    continue

    def get(self, name):
        if name not in self.vals:
            raise AnalysisError(f"constant {name} could not be evaluated statically")
        return self.vals[name]

    def eval(self, e):
        if isinstance(e, ast.Constant):
            return e.value
        if isinstance(e, ast.Name):
            if e.id in self.vals:
                return self.vals[e.id]
            raise Unknown(e.id)
        if isinstance(e, ast.Attribute):
            if isinstance(e.value, ast.Name) and e.value.id in ("self", "cls"):
                if e.attr in self.vals:
                    return self.vals[e.attr]
                raise Unknown(e.attr)
            base = self.eval(e.value)
            if isinstance(base, StructConst) and e.attr in ("size", "format"):
                return getattr(base, e.attr)
            raise Unknown(unparse(e))
        if isinstance(e, ast.UnaryOp):
            v = self.eval(e.operand)
            if isinstance(e.op, ast.USub):
                return -v
            if isinstance(e.op, ast.Invert):
                return ~v
            if isinstance(e.op, ast.UAdd):
                return +v
            raise Unknown("unary")
        if isinstance(e, ast.BinOp):
            a, b = self.eval(e.left), self.eval(e.right)
            try:
                if isinstance(e.op, ast.Add):
                    return a + b
                if isinstance(e.op, ast.Sub):
                    return a - b
                if isinstance(e.op, ast.Mult):
                    return a * b
                if isinstance(e.op, ast.BitOr):
                    return a | b
                if isinstance(e.op, ast.BitAnd):
                    return a & b
                if isinstance(e.op, ast.LShift):
                    return a << b
                if isinstance(e.op, ast.RShift):
                    return a >> b
                if isinstance(e.op, ast.Pow):
                    return a ** b
                if isinstance(e.op, ast.FloorDiv):
                    return a // b
            except TypeError as ex:
                raise Unknown(str(ex))
            raise Unknown("binop")
        if isinstance(e, ast.Call):
            f = unparse(e.func)
            if f in ("struct.calcsize", "calcsize") and len(e.args) == 1:
                return struct.calcsize(self.eval(e.args[0]))
            if f in ("struct.Struct", "Struct") and len(e.args) == 1:
                return StructConst(self.eval(e.args[0]))
            raise Unknown(f)
        if isinstance(e, ast.Tuple):
            return tuple(self.eval(x) for x in e.elts)
        if isinstance(e, ast.Dict):
            return {self.eval(k): self.eval(v) for k, v in zip(e.keys, e.values)}
        raise Unknown(type(e).__name__)
