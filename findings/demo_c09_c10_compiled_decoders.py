"""Demonstrations (real code, no broker) of defects in the record decoders found by ./check C10 / C09.

Compiled (aiokafka/record/_crecords/*.pyx):
 1. memory_records.pyx reads the magic byte at an ABSOLUTE offset (buf[MAGIC_OFFSET]) instead of relative to the cursor:
    in a buffer whose batches differ in format every batch is decoded with the first batch's format.            (C09)
 2. DefaultRecordBatch._read_header reads the 61-byte v2 header without checking the slice is that long: a batch whose
    length field says 14 is "decoded" from bytes beyond its own slice (or beyond the buffer).                     (C10)
 3. LegacyRecordBatch._read_record: key/value length -2 passes `!= -1` and the bounds check -> SystemError.       (C10)
 4. _check_bounds computes pos + size, which overflows for a huge varint length -> MemoryError.                   (C10)
 5. LegacyRecordBatch._read_record reads the value length without a bounds check when a key is present.           (C10)
 6. LegacyRecordBatch._read_last_offset (compressed v1 wrapper) walks inner messages by an unchecked length:
    length -12 never advances -> the decoder hangs.                                                              (C10)
 8. decode_varint64 has no notion of the buffer end: a varint cut by the end of the slice is completed from the bytes
    that follow the slice (up to 9 of them), and decode_varint_cython(buffer, pos) accepts any pos.               (C10)
Pure Python:
 7. _LegacyRecordBatchPy._read_all_headers has the same non-terminating walk.                                    (C10)
"""
import gzip
import struct
import subprocess
import sys
import textwrap

import pytest

from aiokafka.errors import CorruptRecordException
from aiokafka.record._crecords.memory_records import MemoryRecords as CMemoryRecords
from aiokafka.record.default_records import _DefaultRecordBatchBuilderPy
from aiokafka.record.legacy_records import _LegacyRecordBatchBuilderPy, _LegacyRecordBatchPy
from aiokafka.record.memory_records import _MemoryRecordsPy


def _v1(offset, value):
    b = _LegacyRecordBatchBuilderPy(magic=1, compression_type=0, batch_size=1 << 20)
    b.append(offset, timestamp=1000 + offset, key=b"k", value=value)
    return bytes(b.build())


def _v2(offset, value):
    b = _DefaultRecordBatchBuilderPy(magic=2, compression_type=0, is_transactional=0, producer_id=-1, producer_epoch=-1,
                                     base_sequence=-1, batch_size=1 << 20)
    b.append(offset, timestamp=2000 + offset, key=b"k", value=value, headers=[])
    return bytes(b.build())


def _decode(cls, data):
    out = []
    mr = cls(data)
    while mr.has_next():
        batch = mr.next_batch()
        for r in batch:
            out.append((r.offset, r.timestamp, r.key, r.value))
    return out


def test_1_mixed_magic_buffer_decodes_batch_by_batch():
    data = _v1(0, b"legacy") + _v2(1, b"default") + _v1(2, b"legacy-again")
    expected = [(0, 1000, b"k", b"legacy"), (1, 2001, b"k", b"default"), (2, 1002, b"k", b"legacy-again")]
    assert _decode(_MemoryRecordsPy, data) == expected
    assert _decode(CMemoryRecords, data) == expected


def test_2_v2_batch_shorter_than_its_header():
    # offset, length=14, leader epoch, magic=2, then 9 filler bytes = a 26 byte "batch"; followed by 64 bytes that are NOT part of it
    short = struct.pack(">qiib", 0, 14, 0, 2) + b"\x00" * 9
    assert len(short) == 26
    outside = b"\x7f" * 64
    mr = CMemoryRecords(short + outside)
    with pytest.raises(CorruptRecordException):
        batch = mr.next_batch()
        # pre-fix: a batch object whose header fields were read from `outside`
        raise AssertionError(f"decoded a header from outside the slice: next_offset={batch.next_offset}")


def _v0_msg(key_len_field, key=b"", value_len_field=-1, value=b""):
    body = struct.pack(">bb", 0, 0) + struct.pack(">i", key_len_field) + key + struct.pack(">i", value_len_field) + value
    return struct.pack(">qi", 0, 4 + len(body)) + struct.pack(">I", 0) + body


def test_3_legacy_negative_key_length():
    data = _v0_msg(-2)
    with pytest.raises(CorruptRecordException):
        list(CMemoryRecords(data).next_batch())


def _varint(v):
    v = (v << 1) ^ (v >> 63)
    out = bytearray()
    while v & ~0x7F:
        out.append((v & 0x7F) | 0x80)
        v >>= 7
    out.append(v)
    return bytes(out)


def test_4_v2_huge_key_length():
    good = bytearray(_v2(0, b"v"))
    # rebuild the single record with key length 2**63-1
    rec_body = b"\x00" + _varint(0) + _varint(0) + _varint((1 << 63) - 1) + b"k" + _varint(1) + b"v" + _varint(0)
    rec = _varint(len(rec_body)) + rec_body
    data = bytes(good[:61]) + rec
    data = bytearray(data)
    struct.pack_into(">i", data, 8, len(data) - 12)
    batch = CMemoryRecords(bytes(data)).next_batch()
    with pytest.raises(CorruptRecordException):
        list(batch)


def test_5_legacy_value_length_read_outside_slice():
    # message whose declared size ends right after the key: the 4 bytes of the value length lie outside the slice
    body = struct.pack(">bb", 0, 0) + struct.pack(">i", 3) + b"key"
    msg = struct.pack(">qi", 0, 4 + len(body)) + struct.pack(">I", 0) + body
    assert len(msg) == 12 + 4 + 2 + 4 + 3
    padded = msg + b"\x00" * 1  # make it at least the 26 byte minimum: size field counts it
    body2 = struct.pack(">bb", 0, 0) + struct.pack(">i", 4) + b"keyk"
    msg = struct.pack(">qi", 0, 4 + len(body2)) + struct.pack(">I", 0) + body2
    assert len(msg) == 26
    outside = b"\xff\xff\xff\xff" + b"\x00" * 40  # reads as "value is null" if (wrongly) consulted
    with pytest.raises(CorruptRecordException):
        recs = list(CMemoryRecords(msg + outside).next_batch())
        raise AssertionError(f"record decoded using bytes outside its slice: {recs[0].key!r} {recs[0].value!r}")


_HANG = """
import gzip, struct, sys
from aiokafka.record.legacy_records import _LegacyRecordBatchPy
from aiokafka.record._crecords.legacy_records import LegacyRecordBatch
inner = struct.pack(">qi", 5, -12)                       # one inner "message": offset 5, length -12
inner += b"\\x00" * 14                                     # enough bytes for a header read
payload = gzip.compress(inner)
body = struct.pack(">bb", 1, 1) + struct.pack(">q", 1) + struct.pack(">i", -1) + struct.pack(">i", len(payload)) + payload
msg = struct.pack(">qi", 7, 4 + len(body)) + struct.pack(">I", 0) + body
cls = LegacyRecordBatch if sys.argv[1] == "c" else _LegacyRecordBatchPy
try:
    list(cls(msg, 1))
except Exception as e:
    print("raised", type(e).__name__)
    sys.exit(0 if type(e).__name__ in ("CorruptRecordException",) else 3)
print("decoded")
"""


@pytest.mark.parametrize("impl", ["c", "py"])
def test_6_7_compressed_wrapper_with_negative_inner_length_terminates(impl):
    try:
        p = subprocess.run([sys.executable, "-c", textwrap.dedent(_HANG), impl], capture_output=True, text=True, timeout=10)
    except subprocess.TimeoutExpired:
        pytest.fail(f"{impl} decoder does not terminate on an inner message of length -12")
    assert p.returncode == 0, p.stdout + p.stderr


def test_8_varint_truncated_by_the_end_of_the_slice():
    from aiokafka.record._crecords.cutil import decode_varint_cython

    hdr = bytearray(_v2(0, b"v")[:61])
    rec_body = b"\x00" + _varint(0) + _varint(0) + _varint(-1) + _varint(-1) + b"\x80"   # header count cut after its first byte
    rec = _varint(len(rec_body) + 1) + rec_body
    data = bytearray(bytes(hdr) + rec)
    struct.pack_into(">i", data, 8, len(data) - 12)
    outside = b"\x00" + b"\x00" * 30      # completes the varint (value 0) if (wrongly) consulted
    batch = CMemoryRecords(bytes(data) + outside).next_batch()
    with pytest.raises(CorruptRecordException):
        rec = next(iter(batch))
        raise AssertionError(f"record decoded with a byte from outside the batch slice: {rec!r}")
    with pytest.raises(ValueError):
        decode_varint_cython(b"\x80\x80", 0)     # runs off the end of the object
    with pytest.raises(ValueError):
        decode_varint_cython(b"\x01", 1000)       # position outside the object
