"""Rules shared by several properties."""
from __future__ import annotations

from ..rulekit import shared_class_containers


def rule_instance_state(ctx, prefixes, R="instance-state"):
    ctx.rep.rule(R, "the state the property's mechanism keeps is PER INSTANCE: no class of the analysed modules has a class-level mutable container "
                    "(list / dict / set / deque / defaultdict ...) that its methods mutate in place through `self.<attr>` without __init__ binding a fresh "
                    "one -- such an object is shared by every producer / consumer / connection / batch of the process (sequence counters, waiter lists, "
                    "aborted-producer sets of one instance would be read and changed by another)")
    cls = [q for q, ci in ctx.repo.classes.items() if any(q.startswith(p) for p in prefixes)]
    ctx.anchor(len(cls) >= 1, f"classes under {prefixes}")
    bad = {id(ci): (ci, attr, st, hit) for ci, attr, st, hit in shared_class_containers(ctx.repo, cls)}
    n = 0
    for q in cls:
        ci = ctx.repo.classes[q]
        if not ci.methods:
            continue
        n += 1
        b = bad.get(id(ci))
        site = f"{ci.module.relpath}:{(b[2].lineno if b else ci.node.lineno)} {q}"
        ctx.rep.ob(R, site, f"{q}|instance-state" + (f":{b[1]}" if b else ""), b is None,
                   (f"class attribute `{b[1]}` is one mutable object shared by all instances, and {b[3][0]}() (line {b[3][1]}) mutates it in place; __init__ does not "
                    f"create a per-instance one") if b else "")
    ctx.anchor(n >= 1, "classes with methods examined for shared state")
