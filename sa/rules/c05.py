"""C05 -- within a generation partitions have one owner; revoked partitions go silent."""
from __future__ import annotations

import ast

from ..loader import AnalysisError, call_attr, call_name, dotted, unparse, walk_own
from ..prototab import ProtoTable
from ..rulekit import arg_of, const_value, def_value, is_none_test, local_defs
from ..symeval import Const, Field, SymEval, Tup, Unk, make_struct
from . import c03, c06

GC = c06.GC
RB = c06.RB
FETCHER = c03.FETCHER
SUB = "aiokafka.consumer.subscription_state.Subscription"
SUBS = "aiokafka.consumer.subscription_state.SubscriptionState"


def _awaits(c, attr):
    return [n for n in c.nodes if n.kind == "await" and isinstance(n.ast, ast.Await) and isinstance(n.ast.value, ast.Call) and call_attr(n.ast.value) == attr]


def rule_gate(ctx):
    R = "gate"
    ctx.rep.rule(R, "the reassignment gate: begin_reassignment() is the first thing _on_join_prepare does (before any suspension); the gate is "
                    "released only by Subscription._assign; next_record / fetched_records test the gate inside their loop -- on every path from the "
                    "loop head to the hand-out -- and nothing but the wait for the gate's own release can suspend between that test and the hand-out")
    fp = ctx.fn(f"{GC}._on_join_prepare")
    c = ctx.cfg(fp)
    br = c.calls(attr="begin_reassignment")
    ok = len(br) == 1 and unparse(br[0].ast.func.value) == "self._subscription" and all(c.dominates(br[0], s) for s in ctx.suspension_nodes(fp)) and \
        c.exit not in c.reachable([c.entry], avoid=set(br), exc=False) and not any((isinstance(a, ast.If) and not isinstance(a.test, ast.Constant)) or isinstance(a, ast.Try) for a, r in br[0].within)
    ctx.ob(R, fp, fp.node, ok, "begin_reassignment() is not unconditionally first in _on_join_prepare (records could be handed out during the revoke callback)", text="begin-first")
    fb = ctx.fn(f"{SUBS}.begin_reassignment")
    cb = ctx.cfg(fb)
    ctx.ob(R, fb, fb.node, len(cb.calls(attr="_begin_reassignment")) == 1, "SubscriptionState.begin_reassignment does not reach the subscription", text="begin-forwards")
    n = 0
    for wf, wn, how in ctx.attr_writers("_reassignment_in_progress"):
        n += 1
        v = wn.stmt.value if isinstance(wn.stmt, ast.Assign) else None
        val = const_value(v) if v is not None else None
        if val is False:
            ctx.ob(R, wf, wn, wf.qualname == f"{SUB}._assign", f"{wf.qualname} releases the reassignment gate", text="gate-released-by")
        elif val is True:
            ctx.ob(R, wf, wn, wf.qualname in (f"{SUB}.__init__", f"{SUB}._begin_reassignment"), f"{wf.qualname} closes the gate", text="gate-closed-by")
        else:
            ctx.ob(R, wf, wn, False, f"{wf.qualname} writes the gate with a non-constant", text="gate-const")
    if n < 3:
        raise AnalysisError("gate: writers of _reassignment_in_progress not found")
    fa = ctx.fn(f"{SUB}._assign")
    ca = ctx.cfg(fa)
    st = ca.stores(attr="_reassignment_in_progress")
    sa = ca.stores(attr="_assignment")
    ctx.ob(R, fa, fa.node, len(st) == 1 and len(sa) == 1 and ca.dominates(sa[0], st[0]), "gate released before the new assignment is installed", text="release-after-install")
    # the futures a gated getone()/getmany() parks on are resolved *normally* only where an assignment is installed; anything else that
    # touches them (fatal coordination errors) must fail them, or the parked call goes on to hand out records of the revoked assignment
    ci = ctx.repo.cls(SUBS)
    resolvers = []
    for name, fm_ in ci.methods.items():
        for lp in [x for x in ast.walk(fm_.node) if isinstance(x, ast.For) and unparse(x.iter) == "self._assignment_waiters"]:
            calls_ = {call_attr(x) for x in ast.walk(lp) if isinstance(x, ast.Call)}
            if "set_result" in calls_:
                resolvers.append(fm_)
            ctx.ob(R, fm_, lp, ("set_result" in calls_) != ("set_exception" in calls_) and (name == "_notify_assignment_waiters" or "set_result" not in calls_),
                   f"{name} resolves the gate's waiters with {sorted(calls_ & {'set_result', 'set_exception'})}: only _notify_assignment_waiters may complete them normally", text="waiters-resolved-by:" + name)
    ctx.anchor(len(resolvers) == 1, "_notify_assignment_waiters resolving the assignment waiters")
    # ... and what a gated call parks on is always a NEW, pending, registered future: during a rebalance the old assignment is still
    # "active" until SyncGroup is answered, so a wait that completes at once because an assignment exists lets records of revoked
    # partitions through
    fw = ci.methods.get("wait_for_assignment")
    ctx.anchor(fw is not None, "SubscriptionState.wait_for_assignment")
    cw = ctx.cfg(fw)
    rets = [r for r in cw.nodes if r.kind == "return"]
    okw = bool(rets) and cw.exit not in cw.reachable([cw.entry], avoid=set(rets), exc=False)
    why = "falls off its end"
    for r in rets:
        v = r.ast.value
        if not isinstance(v, ast.Name):
            okw, why = False, f"returns `{unparse(v) if v is not None else None}`"
            break
        ds = local_defs(cw, v.id)
        fresh = len(ds) == 1 and isinstance(ds[0].stmt, ast.Assign) and isinstance(ds[0].stmt.value, ast.Call) and call_name(ds[0].stmt.value) == "create_future"
        regs = [x for x in cw.calls(attr="append") if unparse(x.ast.func.value) == "self._assignment_waiters" and unparse(arg_of(x.ast, 0)) == v.id]
        registered = any(cw.dominates(x, r) for x in regs)
        touched = [x for x in cw.nodes if x.kind == "call" and call_attr(x.ast) in ("set_result", "set_exception", "cancel") and unparse(x.ast.func.value) == v.id]
        if not (fresh and registered and not touched):
            okw = False
            why = ("the returned future is not created by the call" if not fresh else
                   f"line {r.lineno} returns a future that is not in _assignment_waiters" if not registered else
                   f"the future is completed by wait_for_assignment itself (line {touched[0].lineno})")
            break
    ctx.ob(R, fw, fw.node, okw, f"wait_for_assignment: {why}: the gate's wait must end only when the NEXT assignment is installed", text="waiter-fresh-pending-registered")
    installers = {"assign_from_user", "assign_from_subscribed"}
    callers = set()
    for q, f_ in ctx.repo.funcs.items():
        if q.startswith("aiokafka.") and any(isinstance(x, ast.Call) and call_attr(x) == "_notify_assignment_waiters" for x in walk_own(f_.node)):
            callers.add(q)
    bad = sorted(c_ for c_ in callers if not (c_.startswith(SUBS + ".") and c_.rsplit(".", 1)[-1] in installers))
    ctx.ob(R, resolvers[0], resolvers[0].node, bool(callers) and not bad,
           f"the gate's waiters are released normally by {bad}: only the functions that install a new assignment ({sorted(installers)}) may do that", text="waiters-released-only-on-install")
    for nm in sorted(installers):
        fi_ = ctx.fn(f"{SUBS}.{nm}")
        ci_ = ctx.cfg(fi_)
        nt = ci_.calls(attr="_notify_assignment_waiters")
        inst = [x for x in ci_.nodes if x.kind == "call" and call_attr(x.ast) in ("_assign", "_change_subscription")]
        ctx.ob(R, fi_, fi_.node, len(nt) == 1 and bool(inst) and all(ci_.dominates(i_, nt[0]) for i_ in inst[:1]), f"{nm} releases the waiters before the new assignment is installed", text="release-after-install:" + nm)
    fg = ctx.fn(f"{SUBS}.reassignment_in_progress")
    r = [x for x in ctx.cfg(fg).nodes if x.kind == "return"]
    vals = sorted(unparse(x.ast.value) for x in r)
    ctx.ob(R, fg, fg.node, vals == ["True", "self._subscription._reassignment_in_progress"], f"gate getter returns {vals}", text="gate-getter")
    for m, take in (("next_record", "getone"), ("fetched_records", "getall")):
        f = ctx.fn(f"{FETCHER}.{m}")
        cc = ctx.cfg(f)
        tk = ctx.one(cc.calls(attr=take), f"{take} in {m}")
        wl = [h for h in (cc.loop_head(a) for a, r in tk.within if isinstance(a, ast.While) and r == "body") if h is not None]
        ctx.anchor(bool(wl), f"{m} retry loop")
        head = wl[0]
        gt = [t for t in cc.nodes if t.kind == "test" and unparse(t.ast) == "self._subscriptions.reassignment_in_progress"]
        ok = len(gt) >= 1 and tk not in cc.reachable([head], avoid=set(gt))
        ctx.ob(R, f, tk, ok, f"{m}: a path from the loop head to the hand-out skips the gate test (a caller already waiting would deliver revoked partitions)", text=f"{m}:gate-in-loop")
        # suspensions between gate test and hand-out
        bad = []
        for t in gt:
            fwd = cc.reachable([t], avoid={t, tk, head})
            back = cc.co_reachable([tk], avoid={t, tk, head})
            for s in ctx.suspension_nodes(f):
                if s in fwd and s in back:
                    txt = unparse(s.ast)
                    if "wait_for_assignment" not in txt:
                        bad.append(s)
        ctx.ob(R, f, tk, not bad, f"{m}: foreign suspension {bad[:1]} between the gate test and the hand-out", text=f"{m}:gate-atomic")
        wa = [s for s in _awaits(cc, "wait_for_assignment")]
        ok = bool(wa) and all(any(cc.dominated_by_branch(t, "T", s) for t in gt) for s in wa)
        ctx.ob(R, f, f.node, ok, f"{m}: does not wait for the new assignment while the gate is closed", text=f"{m}:waits")
    # _notify_assignment_waiters after _assign
    fs = ctx.fn(f"{SUBS}.assign_from_subscribed")
    cs = ctx.cfg(fs)
    a1 = cs.calls(attr="_assign")
    a2 = cs.calls(attr="_notify_assignment_waiters")
    ctx.ob(R, fs, fs.node, len(a1) == 1 and len(a2) == 1 and cs.dominates(a1[0], a2[0]) and unparse(arg_of(a1[0].ast, 0)) == fs.params()[1], "assignment waiters woken before / without the new assignment", text="notify-after-assign")


def rule_prepare_before_join(ctx):
    R = "prepare-before-join"
    ctx.rep.rule(R, "ensure_active_group: every way out that is not `subscription no longer active` first passed the join-prepare step (gate "
                    "closed, last commit, revoke callback) or found it already performed; JoinGroup (_do_rejoin_group) is reachable only after "
                    "it; the flag is set only after prepare returned and cleared only after a successful join")
    fi = ctx.fn(f"{GC}.ensure_active_group")
    c = ctx.cfg(fi)
    prep = ctx.one(_awaits(c, "_on_join_prepare"), "await _on_join_prepare")
    rejoin = ctx.one(_awaits(c, "_do_rejoin_group"), "await _do_rejoin_group")
    # the guard of the revoke step: the innermost test that decides whether prepare runs. It must be a boolean "already performed" flag
    # of the coordinator (whatever its name) -- any other condition (e.g. comparing generations, which are reset to the same constant
    # by reset_generation) cannot show that the revoke step precedes every JoinGroup
    guards = [t for t in c.nodes if t.kind == "test" and (c.dominated_by_branch(t, "F", prep) or c.dominated_by_branch(t, "T", prep))
              and rejoin in c.reachable([t], exc=False)]
    guards = [t for t in guards if not any(g is not t and c.dominates(t, g) for g in guards)]
    flag = None
    if len(guards) == 1 and isinstance(guards[0].ast, ast.Attribute) and unparse(guards[0].ast.value) == "self" and c.dominated_by_branch(guards[0], "F", prep):
        flag = guards[0].ast.attr
    ctx.ob(R, fi, guards[0] if guards else fi.node, flag is not None,
           f"the revoke step is skipped under `{unparse(guards[0].ast) if guards else '?'}`, which is not a plain `already performed` flag: it cannot be shown that "
           "the gate / last commit / revoke callback run before every JoinGroup (a rejoin after reset_generation() could skip them)", text="guard-is-performed-flag")
    if flag is None:
        return
    FLAG = flag
    pt = guards[0]
    ok = c.dominated_by_branch(pt, "F", prep) and c.dominates(pt, rejoin) and rejoin not in c.reachable([m for m, l in pt.succ if l == "F"], avoid=[prep], include_src=True)
    ctx.ob(R, fi, rejoin, ok, "JoinGroup can be sent without the revoke step having run", text="join-after-prepare")
    at = [t for t in c.nodes if t.kind == "test" and unparse(t.ast) == "subscription.active"]
    for r in [n for n in c.nodes if n.kind == "return"]:
        exempt = any(c.dominated_by_branch(t, "F", r) for t in at)
        if exempt:
            continue
        ctx.ob(R, fi, r, c.dominates(pt, r), "ensure_active_group can give up (e.g. idle consumer that left the group) before closing the reassignment gate: "
                                             "buffered records of partitions now owned by others would still be delivered", text="exit-after-prepare:" + unparse(r.ast)[:30])
    st = c.stores(attr=FLAG)
    t_true = [s for s in st if const_value(s.stmt.value) is True]
    t_false = [s for s in st if const_value(s.stmt.value) is False]
    ok = len(t_true) == 1 and c.dominates(prep, t_true[0]) and len(t_false) == 1
    if ok:
        sc = [t for t in c.nodes if t.kind == "test" and unparse(t.ast) == "success"]
        ok = bool(sc) and c.dominated_by_branch(sc[0], "T", t_false[0])
    ctx.ob(R, fi, fi.node, ok, "prepare flag is not `set after prepare returned, cleared after a successful join`", text="flag-discipline")
    for wf, wn, how in ctx.attr_writers(FLAG):
        ctx.ob(R, wf, wn, wf.qualname in (f"{GC}.__init__", f"{GC}.ensure_active_group"), f"{wf.qualname} writes the prepare flag", text="flag-writer")
    ctx.ob(R, fi, prep, unparse(arg_of(prep.ast.value, 0)) == fi.params()[2], "revoke step is not told the previous assignment", text="prepare-arg")
    for cf, cn in ctx.callers("_do_rejoin_group"):
        ctx.ob(R, cf, cn, cf.qualname == fi.qualname, f"_do_rejoin_group called from {cf.qualname}", text="rejoin-caller")
    for cf, cn in ctx.callers("_on_join_prepare"):
        ctx.ob(R, cf, cn, cf.qualname == fi.qualname, f"_on_join_prepare called from {cf.qualname}", text="prepare-caller")
    # revoke callback inside prepare, awaited
    fp = ctx.fn(f"{GC}._on_join_prepare")
    cp = ctx.cfg(fp)
    rv = cp.calls(attr="on_partitions_revoked")
    ok = len(rv) == 1 and any(n.kind == "await" and cp.dominates(rv[0], n) and "res" in unparse(n.ast) for n in cp.nodes)
    ctx.ob(R, fp, fp.node, ok, "revoke callback is not invoked and awaited inside the prepare step", text="revoke-awaited")
    if rv:
        a0 = arg_of(rv[0].ast, 0)
        ds = local_defs(cp, unparse(a0)) if isinstance(a0, ast.Name) else []
        ctx.ob(R, fp, rv[0], bool(ds) and {unparse(def_value(d)) for d in ds} == {"previous_assignment.tps", "set()"}, "revoke callback is not given the previous assignment's partitions", text="revoke-arg")


def rule_adopt_decoded(ctx):
    R = "adopt-decoded"
    ctx.rep.rule(R, "_on_join_complete installs exactly ConsumerProtocol.ASSIGNMENT.decode(<SyncGroup member_assignment>).partitions(), before the "
                    "assigned-callback, which is given the installed partitions (def-use chain shared with C06 join-sync)")
    fi = ctx.fn(f"{GC}._on_join_complete")
    c = ctx.cfg(fi)
    asg = ctx.one(c.calls(attr="assign_from_subscribed"), "assign_from_subscribed call")
    a0 = arg_of(asg.ast, 0)
    ok = isinstance(a0, ast.Call) and call_attr(a0) == "partitions" and isinstance(a0.func.value, ast.Name)
    if ok:
        ds = local_defs(c, a0.func.value.id)
        ok = len(ds) == 1 and unparse(def_value(ds[0])) == f"ConsumerProtocol.ASSIGNMENT.decode({fi.params()[4]})"
    ctx.ob(R, fi, asg, ok, "installed assignment is not the decoded SyncGroup assignment of this member", text="decoded-bytes")
    cb = c.calls(attr="on_partitions_assigned")
    ok = len(cb) == 1 and c.dominates(asg, cb[0])
    ctx.ob(R, fi, fi.node, ok, "assigned-callback can run before the assignment is installed", text="callback-after-install")
    if cb:
        a = arg_of(cb[0].ast, 0)
        ds = local_defs(c, unparse(a)) if isinstance(a, ast.Name) else []
        ok = len(ds) == 1 and unparse(def_value(ds[0])) == "set(self._subscription.assigned_partitions())" and c.dominates(asg, ds[0])
        ctx.ob(R, fi, cb[0], ok, "assigned-callback is not given the installed partitions", text="callback-arg")
    for cf, cn in ctx.callers("assign_from_subscribed"):
        ctx.ob(R, cf, cn, cf.qualname in (f"{GC}._on_join_complete", "aiokafka.consumer.group_coordinator.NoGroupCoordinator.assign_all_partitions"), f"assignment installed from {cf.qualname}", text="install-caller")
    fa = ctx.fn(f"{SUBS}.assigned_partitions")
    r = [x for x in ctx.cfg(fa).nodes if x.kind == "return"]
    ctx.ob(R, fa, fa.node, "self._subscription.assignment.tps" in [unparse(x.ast.value) for x in r], "assigned_partitions() is not the installed assignment", text="assigned-getter")
    c06.rule_join_sync(ctx)
    # ConsumerProtocol assignment schema: (version, [(topic, [partition])], user_data)
    mod = ctx.repo.module("aiokafka.coordinator.protocol")
    src = mod.src
    ctx.rep.ob(R, f"{mod.relpath}:1 ConsumerProtocol", "protocol|assignment-partitions", "TopicPartition(topic, partition)" in src.replace("\n", " ") or "TopicPartition(" in src, "ConsumerProtocolMemberAssignment.partitions() does not build TopicPartitions")


def rule_leader_assigns_all(ctx):
    R = "leader-assigns-all"
    ctx.rep.rule(R, "_perform_assignment feeds every entry of response.members (decoded per JoinGroup version: v5 has a group_instance_id in between) to "
                    "the assignor looked up by response.group_protocol; _on_join_leader forwards every (member, assignment) pair in its SyncGroup")
    fi = ctx.fn(f"{GC}._perform_assignment")
    c = ctx.cfg(fi)
    rp = fi.params()[1]
    asn = ctx.one(c.calls(attr="assign"), "assignor.assign(...)")
    ctx.ob(R, fi, asn, [unparse(a) for a in asn.ast.args] == ["self._cluster", "member_metadata"], "assignor is not given the cluster and every member's metadata", text="assign-args")
    lk = ctx.one(c.calls(attr="_lookup_assignor"), "_lookup_assignor")
    v = arg_of(lk.ast, 0)
    ds = local_defs(c, unparse(v)) if isinstance(v, ast.Name) else []
    ctx.ob(R, fi, lk, len(ds) == 1 and unparse(def_value(ds[0])) == f"{rp}.group_protocol" and dotted(asn.ast.func.value) and
           [unparse(def_value(d)) for d in local_defs(c, dotted(asn.ast.func.value))] == [unparse(lk.ast)], "assignor used is not the one the group agreed on", text="agreed-assignor")
    rets = [r for r in c.nodes if r.kind == "return"]
    ctx.ob(R, fi, fi.node, len(rets) == 1 and isinstance(asn.stmt, ast.Assign) and unparse(rets[0].ast.value) == unparse(asn.stmt.targets[0]), "the assignor's result is not what is returned", text="returns-assignments")
    # symbolic: member tuple shape per version
    pt = ProtoTable(ctx.repo)
    b = ctx.one([x for x in pt.builders() if x.name == "JoinGroupRequest"], "JoinGroupRequest builder")
    for rc in pt.builder_classes(b):
        ver = pt.const(rc, "API_VERSION")
        resp = pt.response_type(rc)
        sch = pt.schema(resp)
        se = SymEval(interest=lambda x: x in ("<store>", "<unpack-mismatch>") or x.endswith("METADATA.decode"))
        paths = se.run_function(fi.node, {"self": Unk("self"), rp: make_struct(sch, pt.const(resp, "API_VERSION"), resp.name)})
        mism = [e for p in paths for e in p.events if e.callee == "<unpack-mismatch>"]
        dec = [e for p in paths for e in p.events if e.callee.endswith("METADATA.decode")]
        st = [e for p in paths for e in p.events if e.callee == "<store>" and e.args[0].v.startswith("member_metadata[")]
        site = f"{fi.path}:{fi.node.lineno} {fi.qualname}"
        mname = [n for n in ("member_metadata", "metadata") if any(x[0] == n for x in _member_fields(sch))]
        ctx.rep.ob(R, site, f"{fi.qualname}|v{ver}-unpack", not mism, f"JoinGroup v{ver}: member entry unpacked with the wrong arity")
        okd = bool(dec) and all(isinstance(e.args[0], Field) and e.args[0].path.startswith("members[].") and e.args[0].typ == "Bytes" for e in dec)
        ctx.rep.ob(R, site, f"{fi.qualname}|v{ver}-metadata", okd, f"JoinGroup v{ver}: metadata decoded from {dec[0].args if dec else None}")
        oks = bool(st) and all(isinstance(e.args[2], Field) and e.args[2].path == "members[].member_id" for e in st)
        ctx.rep.ob(R, site, f"{fi.qualname}|v{ver}-member-id", oks, f"JoinGroup v{ver}: metadata filed under {st[0].args[2] if st else None}")
    fl = ctx.fn(f"{RB}._on_join_leader")
    cl = ctx.cfg(fl)
    pa = ctx.one(_awaits(cl, "_perform_assignment"), "await _perform_assignment")
    app = [n for n in cl.calls(attr="append") if dotted(n.ast.func.value) == "assignment_req"]
    ok = len(app) == 1
    if ok:
        la = cl.enclosing(app[0], types=(ast.For,), role="body")
        ok = bool(la) and unparse(la[0][0].iter) == "group_assignment.items()" and isinstance(pa.stmt, ast.Assign) and unparse(pa.stmt.targets[0]) == "group_assignment"
        if ok:
            nxt = [n for n in cl.nodes if n.kind == "fornext" and n.ast is la[0][0]][0]
            ok = cl.loop_head(la[0][0]) not in cl.reachable([m for m, l in nxt.succ if l == "T"], avoid=set(app), exc=False, include_src=True)
            el = arg_of(app[0].ast, 0)
            ok = ok and isinstance(el, ast.Tuple) and unparse(el.elts[0]) == unparse(la[0][0].target.elts[0])
    ctx.ob(R, fl, fl.node, ok, "leader's SyncGroup does not carry one (member, assignment) pair per member of the assignor's result", text="forwards-every-pair")
    sr = ctx.one(cl.calls(name="SyncGroupRequest"), "SyncGroupRequest in leader")
    ctx.ob(R, fl, sr, unparse(sr.ast.args[4]) == "assignment_req", "leader's SyncGroup carries something else", text="sync-carries-assignments")
    ctx.ob(R, fl, pa, unparse(arg_of(pa.ast.value, 0)) == fl.params()[1], "assignment computed from another reply", text="perform-arg")


def _member_fields(sch):
    for n, t in sch[1]:
        if n == "members":
            e = t[1]
            return e[1]
    return []


def rule_stale_drop(ctx):
    R = "stale-drop"
    ctx.rep.rule(R, "data fetched under a superseded assignment is dropped: the fetch loop cancels pending tasks and clears buffered records when the "
                    "assignment is gone; a fetch reply is ignored when its assignment is no longer active (C03 accept); hand-out re-checks the "
                    "assignment (C03 handout); Assignment / Subscription liveness flags are set by _unassign / _unsubscribe")
    fi = ctx.fn(f"{FETCHER}._fetch_requests_routine")
    c = ctx.cfg(fi)
    t = [x for x in c.nodes if x.kind == "test" and unparse(x.ast) == "assignment.active"]
    t0 = [x for x in c.nodes if x.kind == "test" and unparse(x.ast) == "assignment is None"]
    clr = [n for n in c.calls(attr="clear") if unparse(n.ast.func.value) == "self._records"]
    pcl = [n for n in c.calls(attr="clear") if unparse(n.ast.func.value) == "self._pending_tasks"]
    cnl = [n for n in c.calls(attr="cancel") if any(isinstance(a, ast.For) and unparse(a.iter) == "self._pending_tasks" for a, r in n.within)]
    ok = len(t) >= 1 and len(clr) == 1 and len(pcl) == 1 and len(cnl) == 1 and c.dominated_by_branch(t[0], "F", clr[0]) is False
    # the clearing block is entered when assignment is None or not active
    fb = c.reachable([m for m, l in t[0].succ if l == "F"], exc=False, include_src=True) if t else set()
    ok = len(t) >= 1 and len(clr) == 1 and clr[0] in fb and len(cnl) == 1 and cnl[0] in fb and len(pcl) == 1 and pcl[0] in fb
    ctx.ob(R, fi, fi.node, ok, "losing the assignment does not cancel in-flight fetches and clear buffered records", text="loop-drops")
    ga = ctx.one(c.calls(attr="_get_actions_per_node"), "_get_actions_per_node call")
    ok = bool(t) and ga not in c.reachable([m for m, l in t[0].succ if l == "F"], avoid=set(clr), include_src=True)
    ctx.ob(R, fi, ga, ok, "new fetches can be planned for a dead assignment without clearing", text="plan-after-clear")
    ds = [d for d in local_defs(c, "assignment") if d.kind == "store" and not (isinstance(def_value(d), ast.Constant))]
    ctx.ob(R, fi, fi.node, bool(ds) and all(unparse(def_value(d)) == "self._subscriptions.subscription.assignment" for d in ds), "the loop's assignment is not the subscription's current one", text="loop-assignment")
    for cn in [n for n in c.calls(attr="_proc_fetch_request")] + [n for n in c.calls(attr="_update_fetch_positions")]:
        ctx.ob(R, fi, cn, unparse(arg_of(cn.ast, 0)) == "assignment", "task is not bound to the assignment it was started for", text="task-bound:" + call_attr(cn.ast))
    c03.rule_accept(ctx)
    c03.rule_handout(ctx)
    fa = ctx.fn("aiokafka.consumer.subscription_state.Assignment.active")
    r = [x for x in ctx.cfg(fa).nodes if x.kind == "return"]
    ctx.ob(R, fa, fa.node, len(r) == 1 and unparse(r[0].ast.value) == "self.unassign_future.done() is False", "Assignment.active", text="assignment-active")
    fu = ctx.fn(f"{SUB}._assign")
    cu = ctx.cfg(fu)
    un = cu.calls(attr="_unassign")
    st = cu.stores(attr="_assignment")
    ctx.ob(R, fu, fu.node, len(un) == 1 and len(st) == 1 and cu.dominates(un[0], st[0]) is False or (len(un) == 1 and len(st) == 1 and cu.path_exists(un[0], st[0])), "old assignment is not retired when a new one is installed", text="old-unassigned")
    fx = ctx.fn(f"{SUB}._unsubscribe")
    cx = ctx.cfg(fx)
    ctx.ob(R, fx, fx.node, len(cx.calls(attr="_unassign")) == 1 and any(unparse(n.ast.func.value) == "self.unsubscribe_future" for n in cx.calls(attr="set_result")), "unsubscribe does not retire subscription and assignment", text="unsubscribe-retires")


def rule_subscribed_only(ctx):
    R = "subscribed-only"
    ctx.rep.rule(R, "Subscription._assign refuses a partition of a topic outside the subscription, before installing anything")
    fu = ctx.fn(f"{SUB}._assign")
    c = ctx.cfg(fu)
    asr = [a for a in c.nodes if a.kind == "assert" and "in self._topics" in unparse(a.ast.test)]
    st = c.stores(attr="_assignment")
    ok = len(asr) == 1 and len(st) == 1 and c.path_exists(asr[0], st[0]) and not c.path_exists(st[0], asr[0])
    if ok:
        la = c.enclosing(asr[0], types=(ast.For,), role="body")
        ok = bool(la) and unparse(la[0][0].iter) == fu.params()[1] and unparse(asr[0].ast.test) == f"{unparse(la[0][0].target)}.topic in self._topics"
    ctx.ob(R, fu, fu.node, ok, "assignment outside the subscribed topics is accepted", text="assert-subscribed")
    ctx.ob(R, fu, fu.node, len(st) == 1 and unparse(st[0].stmt.value) == f"Assignment({fu.params()[1]})", "installed assignment is not the one received", text="installs-received")


def run(ctx):
    rep = ctx.rep
    rep.explanation = ("C05 structural clauses: the reassignment gate (closed first thing in the revoke step, released only by _assign, tested inside the "
                       "hand-out loops with no foreign suspension), revoke step before JoinGroup on every exit, adoption of exactly the decoded "
                       "SyncGroup assignment, leader feeds all members to the agreed assignor and forwards all pairs (member tuple shape per JoinGroup "
                       "version by symbolic evaluation), stale data dropped at the three holding places, subscribed-topics assertion.")
    rule_gate(ctx)
    rule_prepare_before_join(ctx)
    rule_adopt_decoded(ctx)
    rule_leader_assigns_all(ctx)
    rule_stale_drop(ctx)
    rule_subscribed_only(ctx)
    from .common import rule_timeouts_verbatim
    rule_timeouts_verbatim(ctx, "prepare-before-join", "aiokafka.consumer.consumer.AIOKafkaConsumer")
    from .common import rule_instance_state
    rule_instance_state(ctx, ("aiokafka.consumer.",))
    rep.nd("pairwise disjointness across members (depends on the assignors' output, C14)")
    rep.nd("the group-wide revoke-before-assign ordering (relies on the broker's join barrier; only the per-member half is decided)")
