"""Demonstrations (against the real classes, no broker) of four C19 defects found by ./check C19:

 1. Fetcher.close() awaits the cancelled per-node fetch tasks unprotected; a task sitting in the retry back-off of its
    `except KafkaError` arm ends with CancelledError, so close() (and consumer.stop()) raises CancelledError.
 2. GroupCoordinator._stop_heartbeat_task() awaits the cancelled heartbeat task unprotected; the routine awaits
    _maybe_leave_group() outside its try block.
 3. GroupCoordinator.commit_offsets() retries forever on a retriable error once close() was called and the coordinator
    is gone (ensure_coordinator_known() gives up when closing), so close()/stop() never returns.
 4. MessageAccumulator.close() leaves the linger wake-up timer scheduled when the sender died.
"""
import asyncio
from unittest import mock

import pytest

from aiokafka import errors as Errors
from aiokafka.consumer.fetcher import Fetcher
from aiokafka.consumer.group_coordinator import GroupCoordinator
from aiokafka.consumer.subscription_state import SubscriptionState
from aiokafka.producer.message_accumulator import MessageAccumulator
from aiokafka.structs import OffsetAndMetadata, TopicPartition
from aiokafka.util import create_task


def test_fetcher_close_with_task_in_retry_backoff():
    async def main():
        client = mock.MagicMock()

        async def send(*a, **kw):
            raise Errors.KafkaConnectionError("down")

        client.send = send
        client.force_metadata_update = lambda: asyncio.get_running_loop().create_future()
        subscriptions = SubscriptionState()
        fetcher = Fetcher(client, subscriptions, retry_backoff_ms=10_000)
        # keep the fetch routine out of the way (without an assignment it would cancel our task itself)
        fetcher._fetch_task.cancel()
        await asyncio.sleep(0)
        request = mock.MagicMock()
        request.topics = []
        task = create_task(fetcher._proc_fetch_request(mock.MagicMock(), 0, request))
        fetcher._pending_tasks.add(task)
        await asyncio.sleep(0.05)  # the task is now sleeping in its KafkaError arm
        assert not task.done()
        await asyncio.wait_for(fetcher.close(), 5)  # must not raise CancelledError

    asyncio.run(main())


def _coordinator(**kw):
    client = mock.MagicMock()
    client.cluster = mock.MagicMock()
    client.ready = mock.AsyncMock(return_value=False)
    client.coordinator_lookup = mock.AsyncMock(side_effect=Errors.CoordinatorNotAvailableError())
    client.force_metadata_update = mock.AsyncMock(return_value=True)
    client.send = mock.AsyncMock(side_effect=Errors.KafkaConnectionError("down"))
    subscription = SubscriptionState()
    return GroupCoordinator(client, subscription, retry_backoff_ms=10, **kw), client, subscription


def test_stop_heartbeat_task_while_leaving_group():
    async def main():
        coord, client, subscription = _coordinator(max_poll_interval_ms=0, heartbeat_interval_ms=10)
        coord._coordination_task.cancel()
        coord.member_id = "m-1"
        coord.generation = 5
        coord.coordinator_id = 1
        entered = asyncio.Event()

        async def slow_send(*a, **kw):
            entered.set()
            await asyncio.sleep(3600)

        coord._send_req = slow_send  # LeaveGroup in flight
        coord._do_heartbeat = mock.AsyncMock(return_value=True)
        coord._start_heartbeat_task()
        await asyncio.wait_for(entered.wait(), 5)
        await asyncio.wait_for(coord._stop_heartbeat_task(), 5)  # must not raise CancelledError
        assert coord._heartbeat_task is None

    asyncio.run(main())


def test_close_with_unreachable_coordinator_and_offsets_to_commit():
    async def main():
        coord, client, subscription = _coordinator(enable_auto_commit=True)
        # stop the real coordination routine; run only the last commit that the closing path performs
        coord._coordination_task.cancel()
        coord._closing.set_result(None)
        coord.coordinator_id = None
        tp = TopicPartition("t", 0)
        assignment = mock.MagicMock()
        assignment.all_consumed_offsets.return_value = {tp: OffsetAndMetadata(10, "")}
        with pytest.raises(Errors.KafkaError):
            await asyncio.wait_for(coord._maybe_do_last_autocommit(assignment), 2)  # hangs -> TimeoutError before the fix

    asyncio.run(main())


def test_accumulator_close_cancels_linger_timer():
    async def main():
        cluster = mock.MagicMock()
        cluster.leader_for_partition.return_value = 0
        tp = TopicPartition("t", 0)
        acc = MessageAccumulator(cluster, 1000, 0, 30, linger_ms=60_000)
        fut = await acc.add_message(tp, None, b"v", 1)
        acc.drain_by_nodes(ignore_nodes=[])  # batch still lingering: schedules the wake-up timer
        handle = acc._wakeup_handle
        assert handle is not None and not handle.cancelled()
        acc.fail_all(Errors.KafkaError("sender died"))  # what Sender._fail_all does
        await asyncio.wait_for(acc.close(), 5)
        with pytest.raises(Errors.KafkaError):
            await fut
        assert handle.cancelled(), "linger wake-up timer still scheduled after close()"

    asyncio.run(main())
