"""Load-time canonicalisation of behaviour-preserving surface variation, so that one rule text serves the common
refactorings of the code it anchors in.  Every pass rewrites the parsed tree only (never the files) and is semantics
preserving for the analyses built on top of it:

  ifexp    `x = a if c else b` / `return a if c else b`  ->  if c: x = a / else: x = b
  inline   a method that does not exist in the reviewed tree (sa/baseline_locals.json, key __functions__), is private,
           is called from exactly one statement of one method of the same class and has at most one `return` (its last
           statement) is expanded at its call site: the typical result of an extract-method refactoring is folded back
  alias    a local that does not exist in the reviewed function, is assigned exactly once from a side-effect free
           expression (names, attributes, constant subscripts, comparisons, arithmetic) and is not re-bound is replaced
           by that expression at its uses (the typical result of introducing an explaining variable / hoisting)

Renames of locals are handled by sa/alpha.py, which runs between `inline` and `alias`.
"""
from __future__ import annotations

import ast

from . import alpha


def _clone(n):
    return alpha._clone(n)


# ---- ifexp --------------------------------------------------------------------------------------------------
class _IfExp(ast.NodeTransformer):
    def _split(self, st, value, mk):
        if isinstance(value, ast.IfExp):
            a = mk(value.body)
            b = mk(value.orelse)
            node = ast.If(test=value.test, body=[a], orelse=[b])
            ast.copy_location(node, st)
            for x in (a, b):
                ast.copy_location(x, st)
            return self.visit(node)
        return st

    def visit_Assign(self, st):
        return self._split(st, st.value, lambda v: ast.Assign(targets=[_clone(t) for t in st.targets], value=v, type_comment=None))

    def visit_AnnAssign(self, st):
        # `x: T = a if c else b` inside a function: the annotation has no run-time effect there
        if st.value is not None and isinstance(st.target, ast.Name) and isinstance(st.value, ast.IfExp) and st.simple:
            return self._split(st, st.value, lambda v: ast.Assign(targets=[ast.Name(id=st.target.id, ctx=ast.Store())], value=v, type_comment=None))
        return st

    def visit_Return(self, st):
        return self._split(st, st.value, lambda v: ast.Return(value=v))

    def visit_AugAssign(self, st):
        return self._split(st, st.value, lambda v: ast.AugAssign(target=_clone(st.target), op=st.op, value=v))


# ---- inline -------------------------------------------------------------------------------------------------------
def _own_nodes(fn):
    for ch in ast.iter_child_nodes(fn):
        if isinstance(ch, (ast.FunctionDef, ast.AsyncFunctionDef, ast.Lambda, ast.ClassDef)):
            continue
        yield ch
        yield from _own_nodes(ch)


def _local_names(fn):
    return {n.id for n in _own_nodes(fn) if isinstance(n, ast.Name) and isinstance(n.ctx, (ast.Store, ast.Del))}


class _Subst(ast.NodeTransformer):
    def __init__(self, mapping):
        self.mapping = mapping

    def visit_Name(self, n):
        if n.id in self.mapping and isinstance(n.ctx, ast.Load):
            return _clone(self.mapping[n.id])
        return n


def _always_returns(stmts):
    if not stmts:
        return False
    last = stmts[-1]
    if isinstance(last, (ast.Return, ast.Raise)):
        return True
    if isinstance(last, ast.If) and last.orelse:
        return _always_returns(last.body) and _always_returns(last.orelse)
    if isinstance(last, ast.Try) and not last.finalbody:
        return all(_always_returns(h.body) for h in last.handlers) and _always_returns(last.orelse if last.orelse else last.body)
    return False


def _ladder(stmts, rv):
    """Statements with early returns rewritten so that the result is assigned to `rv` and control falls off the end.
    Returns None when the shape is not a plain if/else ladder (returns inside loops, try, with)."""
    out = []
    for i, st in enumerate(stmts):
        if isinstance(st, ast.Return):
            val = st.value if st.value is not None else ast.Constant(value=None)
            out.append(ast.copy_location(ast.Assign(targets=[ast.Name(id=rv, ctx=ast.Store())], value=val, type_comment=None), st))
            return out
        if isinstance(st, ast.If):
            has_ret = any(isinstance(x, ast.Return) for x in ast.walk(st))
            if not has_ret:
                out.append(st)
                continue
            body = _ladder(st.body, rv)
            if body is None:
                return None
            rest = stmts[i + 1:]
            if _always_returns(st.body) and not st.orelse:
                orelse = _ladder(rest, rv)
                if orelse is None:
                    return None
                out.append(ast.copy_location(ast.If(test=st.test, body=body, orelse=orelse), st))
                return out
            orelse = _ladder(st.orelse, rv) if st.orelse else []
            if orelse is None:
                return None
            if _always_returns(st.body) and _always_returns(st.orelse):
                out.append(ast.copy_location(ast.If(test=st.test, body=body, orelse=orelse), st))
                return out
            return None   # a return on only some paths followed by more code: not a ladder
        if isinstance(st, ast.Try) and any(isinstance(x, ast.Return) for x in ast.walk(st)):
            # returns inside try / except arms: sound when nothing follows the try in this block (falling out of it ends the helper
            # with None) or every arm returns, and there is no `finally` that returns
            rest = stmts[i + 1:]
            if any(isinstance(x, ast.Return) for f_ in st.finalbody for x in ast.walk(f_)):
                return None
            parts = [st.body] + [h.body for h in st.handlers] + ([st.orelse] if st.orelse else [])
            # (with an else clause the try body itself falls through into it)
            all_ret = all(_always_returns(b) for b in ([h.body for h in st.handlers] + ([st.orelse] if st.orelse else [st.body])))
            if rest and not all_ret:
                return None
            nb = _ladder(st.body, rv)
            nh = [_ladder(h.body, rv) for h in st.handlers]
            no = _ladder(st.orelse, rv) if st.orelse else []
            if nb is None or no is None or any(x is None for x in nh):
                return None
            new_try = ast.copy_location(ast.Try(body=nb, handlers=[ast.copy_location(ast.ExceptHandler(type=h.type, name=h.name, body=b_ or [ast.Pass()]), h)
                                                                  for h, b_ in zip(st.handlers, nh)], orelse=no, finalbody=st.finalbody), st)
            if not all_ret:
                out.append(ast.copy_location(ast.Assign(targets=[ast.Name(id=rv, ctx=ast.Store())], value=ast.Constant(value=None), type_comment=None), st))
            out.append(new_try)
            return out
        if any(isinstance(x, ast.Return) for x in ast.walk(st)):
            return None
        out.append(st)
    return out


def inline_new_helpers(module_name, tree, known_functions):
    """Expand call sites of helper methods that are new relative to the reviewed tree. Returns the list of inlined names."""
    done = []
    done += _inline_module_functions(module_name, tree, known_functions)
    for cls in [n for n in ast.walk(tree) if isinstance(n, ast.ClassDef)]:
        methods = {m.name: m for m in cls.body if isinstance(m, (ast.FunctionDef, ast.AsyncFunctionDef))}
        prefix = _qual_prefix(tree, cls, module_name)
        for name, helper in list(methods.items()):
            q = f"{prefix}.{name}"
            if q in known_functions or not name.startswith("_") or name.startswith("__"):
                continue
            if helper.decorator_list and not all(isinstance(d, ast.Name) and d.id == "staticmethod" for d in helper.decorator_list):
                continue
            is_static = bool(helper.decorator_list)
            is_async = isinstance(helper, ast.AsyncFunctionDef)
            body = [s for s in helper.body if not (isinstance(s, ast.Expr) and isinstance(s.value, ast.Constant))]
            rets = [n for n in _own_nodes(helper) if isinstance(n, ast.Return)]
            if len(rets) > 1 or (rets and rets[0] is not body[-1]):
                if not _always_returns(body):
                    body = body + [ast.copy_location(ast.Return(value=None), body[-1])]     # falling off the end returns None
                lad = _ladder([_clone(x) for x in body], "_r_" + name.strip("_"))
                if lad is None or not _always_returns(body):
                    continue
                body = lad + [ast.Return(value=ast.Name(id="_r_" + name.strip("_"), ctx=ast.Load()))]
                for x in body:
                    ast.fix_missing_locations(ast.copy_location(x, helper))
                rets = [body[-1]]
            if any(isinstance(n, (ast.Yield, ast.YieldFrom)) for n in _own_nodes(helper)):
                continue
            # call sites: self.<name>(...) / cls.<name>(...) in methods of this class
            sites = []
            for m in methods.values():
                if m is helper:
                    continue
                for st in _own_stmts(m):
                    for c in _calls_in_stmt(st):
                        f = c.func
                        if isinstance(f, ast.Attribute) and f.attr == name and isinstance(f.value, ast.Name) and f.value.id in ("self", "cls", cls.name):
                            sites.append((m, st, c))
            expr_helper = len(body) == 1 and isinstance(body[0], ast.Return) and body[0].value is not None and not is_async
            if not sites:
                continue
            if expr_helper and len(sites) > 1:
                ok_all = True
                params0 = [a.arg for a in helper.args.args][(0 if is_static else 1):]
                for caller, st, call in sites:
                    if helper.args.vararg or helper.args.kwarg or helper.args.kwonlyargs or call.keywords or len(call.args) != len(params0) \
                            or not all(isinstance(a, (ast.Name, ast.Attribute, ast.Constant)) for a in call.args):
                        ok_all = False
                if not ok_all:
                    continue
                for caller, st, call in sites:
                    repl = _Subst(dict(zip(params0, call.args))).visit(_clone(body[0].value))
                    _replace_in(caller, call, repl)
                cls.body.remove(helper)
                done.append(q)
                continue
            ok_sites = 0
            for caller, st, call in sites:
                if _inline_at(helper, body, rets, is_static, is_async, caller, st, call):
                    ok_sites += 1
            if ok_sites == len(sites):
                cls.body.remove(helper)
                done.append(q)
            continue
    return done


def _inline_module_functions(module_name, tree, known_functions):
    """Private module-level functions that are new relative to the reviewed tree, expanded at their call sites `name(...)`."""
    done = []
    funcs = {f.name: f for f in tree.body if isinstance(f, (ast.FunctionDef, ast.AsyncFunctionDef))}
    callers = [n for n in ast.walk(tree) if isinstance(n, (ast.FunctionDef, ast.AsyncFunctionDef))]
    for name, helper in list(funcs.items()):
        q = f"{module_name}.{name}"
        if q in known_functions or not name.startswith("_") or name.startswith("__") or helper.decorator_list:
            continue
        is_async = isinstance(helper, ast.AsyncFunctionDef)
        body = [s for s in helper.body if not (isinstance(s, ast.Expr) and isinstance(s.value, ast.Constant))]
        if any(isinstance(n, (ast.Yield, ast.YieldFrom)) for n in _own_nodes(helper)) or not body:
            continue
        rets = [n for n in _own_nodes(helper) if isinstance(n, ast.Return)]
        if len(rets) > 1 or (rets and rets[0] is not body[-1]):
            if all(r.value is None for r in rets) and not _always_returns(body):
                body = body + [ast.copy_location(ast.Return(value=None), body[-1])]
            lad = _ladder([_clone(x) for x in body], "_r_" + name.strip("_"))
            if lad is None or not _always_returns(body):
                continue
            body = lad + [ast.Return(value=ast.Name(id="_r_" + name.strip("_"), ctx=ast.Load()))]
            for x in body:
                ast.fix_missing_locations(ast.copy_location(x, helper))
            rets = [body[-1]]
        sites = []
        for m in callers:
            if m is helper:
                continue
            for st in _own_stmts(m):
                for c in _calls_in_stmt(st):
                    if isinstance(c.func, ast.Name) and c.func.id == name:
                        sites.append((m, st, c))
        if not sites:
            continue
        # any other reference to the function (passed as a value) forbids removing it
        refs = [n for n in ast.walk(tree) if isinstance(n, ast.Name) and n.id == name and isinstance(n.ctx, ast.Load)]
        ok = 0
        for caller, st, call in sites:
            if _inline_at(helper, body, rets, True, is_async, caller, st, call):
                ok += 1
        if ok == len(sites) and len(refs) == len(sites):
            tree.body.remove(helper)
            done.append(q)
    return done


def _inline_at(helper, body, rets, is_static, is_async, caller, st, call):
            if is_async and not isinstance(getattr(call, "_p", None), ast.Await) and not _awaited(st, call):
                return False
            params = [a.arg for a in helper.args.args]
            if not is_static:
                params = params[1:]
            if helper.args.vararg or helper.args.kwarg or helper.args.kwonlyargs or len(call.args) > len(params) or any(k.arg is None for k in call.keywords):
                return False
            mapping = {}
            for p, a in zip(params, call.args):
                mapping[p] = a
            for k in call.keywords:
                if k.arg in params:
                    mapping[k.arg] = k.value
            defaults = dict(zip(params[len(params) - len(helper.args.defaults):], helper.args.defaults))
            for p in params:
                if p not in mapping:
                    if p in defaults:
                        mapping[p] = defaults[p]
                    else:
                        mapping = None
                        break
            if mapping is None:
                return False
            # arguments must be simple (names / attributes / constants) so that substitution does not duplicate effects
            def _simple(a):
                return isinstance(a, (ast.Name, ast.Attribute, ast.Constant)) or (isinstance(a, ast.Tuple) and all(_simple(x) for x in a.elts))
            def _fresh_literal(a):
                return isinstance(a, (ast.List, ast.Dict, ast.Set)) and all(_simple(x) for x in ast.iter_child_nodes(a) if isinstance(x, ast.expr) and not isinstance(x, ast.expr_context))
            uses = {}
            for s_ in body:
                for x in ast.walk(s_):
                    if isinstance(x, ast.Name) and isinstance(x.ctx, ast.Load):
                        uses[x.id] = uses.get(x.id, 0) + 1
            # a fresh container literal ([] / {}) may be substituted when the parameter is read once (no second alias of the new object is needed)
            if not all(_simple(a) or (_fresh_literal(a) and uses.get(p_, 0) <= 1) for p_, a in mapping.items()):
                return False
            hl = _local_names(helper)
            tgt_names = set()
            if isinstance(st, ast.Assign):
                tgt_names = {x.id for t in st.targets for x in ast.walk(t) if isinstance(x, ast.Name)}
            if hl & set(params):
                return False  # helper re-binds a parameter
            clash = (hl & (_local_names(caller) | {a.arg for a in caller.args.args})) - tgt_names
            new_body = [_clone(s) for s in body]
            if clash:
                # keep the helper's variables apart from the caller's
                ren = {c_: c_ + "_h" for c_ in clash}
                for s_ in new_body:
                    for x in ast.walk(s_):
                        if isinstance(x, ast.Name) and x.id in ren:
                            x.id = ren[x.id]
            new_body = [_Subst(mapping).visit(s_) for s_ in new_body]
            ret_expr = None
            if rets:
                ret_expr = new_body[-1].value
                new_body = new_body[:-1]
            for s in new_body + ([ret_expr] if ret_expr is not None else []):
                for x in ast.walk(s):
                    if hasattr(x, "lineno"):
                        x.lineno = getattr(st, "lineno", x.lineno)
            # `if A and B and helper(x): BODY` (no else): the helper runs only when A and B hold -- expand it under that guard
            if isinstance(st, ast.If) and not st.orelse and isinstance(st.test, ast.BoolOp) and isinstance(st.test.op, ast.And) \
                    and st.test.values[-1] is call and ret_expr is not None and not is_async and len(st.test.values) >= 2:
                rest = st.test.values[:-1]
                guard = rest[0] if len(rest) == 1 else ast.copy_location(ast.BoolOp(op=ast.And(), values=rest), st.test)
                inner = ast.copy_location(ast.If(test=ret_expr, body=st.body, orelse=[]), st)
                outer = ast.copy_location(ast.If(test=guard, body=new_body + [inner], orelse=[]), st)
                ast.fix_missing_locations(outer)
                return _splice(caller, st, [outer])
            # replace the call (with its await) by the returned expression
            target_expr = call
            repl = ret_expr if ret_expr is not None else ast.Constant(value=None)
            new_st = _replace_expr(st, target_expr, repl, is_async)
            if new_st is None:
                return False
            if isinstance(new_st, ast.Expr) and isinstance(new_st.value, ast.Constant):
                new_stmts = new_body
            elif isinstance(new_st, ast.Assign) and len(new_st.targets) == 1 and isinstance(new_st.targets[0], ast.Name) \
                    and isinstance(new_st.value, ast.Name) and new_st.value.id == new_st.targets[0].id:
                new_stmts = new_body  # x = x
            else:
                new_stmts = new_body + [new_st]
            return _splice(caller, st, new_stmts)


def _qual_prefix(tree, cls, module_name):
    # only top-level classes are handled (that is all the package has for the code under rules)
    return f"{module_name}.{cls.name}"


def _own_stmts(fn):
    for n in _own_nodes(fn):
        if isinstance(n, ast.stmt):
            yield n


def _calls_in_stmt(st):
    """Calls that belong to this statement itself (not to nested statements)."""
    out = []

    def walk(n):
        for ch in ast.iter_child_nodes(n):
            if isinstance(ch, ast.stmt) or isinstance(ch, (ast.Lambda,)):
                continue
            if isinstance(ch, ast.Await):
                for c2 in ast.iter_child_nodes(ch):
                    if isinstance(c2, ast.Call):
                        c2._p = ch
            if isinstance(ch, ast.Call):
                out.append(ch)
            walk(ch)
    if isinstance(st, (ast.If, ast.While)):
        walk_root = st.test
        if isinstance(walk_root, ast.Call):
            out.append(walk_root)
        walk(walk_root)
    elif isinstance(st, (ast.For, ast.AsyncFor)):
        if isinstance(st.iter, ast.Call):
            out.append(st.iter)
        walk(st.iter)
    elif isinstance(st, (ast.With, ast.AsyncWith, ast.Try, ast.FunctionDef, ast.AsyncFunctionDef, ast.ClassDef)):
        pass
    else:
        walk(st)
    return out


def _awaited(st, call):
    return isinstance(getattr(call, "_p", None), ast.Await)


def _replace_expr(st, call, repl, is_async):
    """Statement `st` with `call` (or `await call`) replaced by `repl`; only for simple statements."""
    target = getattr(call, "_p", None) if is_async else call
    if target is None:
        return None
    if isinstance(st, ast.If):
        # only when the call is the first thing the test evaluates: the expanded body then runs exactly where the call ran
        def first(e):
            if isinstance(e, ast.UnaryOp):
                return first(e.operand)
            if isinstance(e, ast.BoolOp):
                return first(e.values[0])
            if isinstance(e, ast.Compare):
                return first(e.left)
            return e
        if first(st.test) is not target:
            return None

        class RT(ast.NodeTransformer):
            def visit(self, n):
                if n is target:
                    return repl
                return super().visit(n)
        st.test = RT().visit(st.test)
        return st
    if not isinstance(st, (ast.Expr, ast.Assign, ast.AnnAssign, ast.AugAssign, ast.Return)):
        return None

    class R(ast.NodeTransformer):
        def generic_visit(self, n):
            for f, v in ast.iter_fields(n):
                if isinstance(v, list):
                    setattr(n, f, [repl if x is target else (self.visit(x) if isinstance(x, ast.AST) else x) for x in v])
                elif isinstance(v, ast.AST):
                    setattr(n, f, repl if v is target else self.visit(v))
            return n
    return R().visit(st)


def _replace_in(fn, target, repl):
    class R(ast.NodeTransformer):
        def generic_visit(self, n):
            for f, v in ast.iter_fields(n):
                if isinstance(v, list):
                    setattr(n, f, [repl if x is target else (self.visit(x) if isinstance(x, ast.AST) else x) for x in v])
                elif isinstance(v, ast.AST):
                    setattr(n, f, repl if v is target else self.visit(v))
            return n
    R().visit(fn)


def _splice(fn, st, new_stmts):
    for parent in ast.walk(fn):
        for f in ("body", "orelse", "finalbody"):
            lst = getattr(parent, f, None)
            if isinstance(lst, list) and any(x is st for x in lst):
                i = [k for k, x in enumerate(lst) if x is st][0]
                lst[i:i + 1] = new_stmts or ([] if len(lst) > 1 else [ast.copy_location(ast.Pass(), st)])
                return True
        if isinstance(parent, ast.Try):
            for h in parent.handlers:
                if any(x is st for x in h.body):
                    i = [k for k, x in enumerate(h.body) if x is st][0]
                    h.body[i:i + 1] = new_stmts or ([] if len(h.body) > 1 else [ast.copy_location(ast.Pass(), st)])
                    return True
    return False


# ---- alias ----------------------------------------------------------------------------------------------------------
_PURE = (ast.Name, ast.Attribute, ast.Constant, ast.Compare, ast.BoolOp, ast.UnaryOp, ast.BinOp, ast.Subscript, ast.Tuple,
         ast.Load, ast.cmpop, ast.boolop, ast.unaryop, ast.operator, ast.expr_context)


# methods / builtins that neither mutate their receiver nor depend on anything but their operands, on every builtin type
_PURE_METHODS = {"encode", "decode", "strip", "lstrip", "rstrip", "lower", "upper", "split", "rsplit", "join", "startswith", "endswith",
                 "format", "get", "keys", "values", "items", "copy", "hex", "digest", "hexdigest", "count", "index", "find", "replace",
                 "to_bytes", "bit_length", "total_seconds", "isdigit", "partition", "rpartition", "casefold", "title"}
_PURE_BUILTINS = {"len", "int", "str", "bytes", "tuple", "list", "sorted", "set", "frozenset", "min", "max", "abs", "bool", "dict",
                  "isinstance", "repr", "float", "sum", "any", "all", "divmod", "round", "ord", "chr", "type", "id"}


def _is_pure(e):
    for x in ast.walk(e):
        if isinstance(x, ast.Call):
            f = x.func
            if x.keywords and any(k.arg is None for k in x.keywords):
                return False
            if isinstance(f, ast.Attribute) and f.attr in ("decode", "encode"):
                # bytes.decode("utf-8") / str.encode() are pure; Codec.decode(stream) READS from the stream
                if all(isinstance(a, ast.Constant) for a in x.args) and all(isinstance(k.value, ast.Constant) for k in x.keywords):
                    continue
                return False
            if isinstance(f, ast.Attribute) and f.attr in _PURE_METHODS:
                continue
            if isinstance(f, ast.Name) and f.id in _PURE_BUILTINS:
                continue
            return False
        if isinstance(x, ast.keyword):
            continue
        if not isinstance(x, _PURE):
            return False
        if isinstance(x, ast.Subscript) and not isinstance(x.slice, (ast.Constant, ast.Name)) and not _attr_chain(x.slice):
            return False
    return True


def _attr_chain(e):
    """a.b.c : an attribute chain rooted in a name (no calls, no subscripts)."""
    while isinstance(e, ast.Attribute):
        e = e.value
    return isinstance(e, ast.Name)


def inline_new_aliases(fn, reviewed_locals):
    """Replace locals that are new relative to the reviewed function and are single-assignment aliases of pure expressions."""
    if reviewed_locals is None:
        return []
    nodes = list(_own_nodes(fn))
    stores = {}
    for n in nodes:
        if isinstance(n, ast.Name) and isinstance(n.ctx, (ast.Store, ast.Del)):
            stores.setdefault(n.id, []).append(n)
    params = {a.arg for a in fn.args.posonlyargs + fn.args.args + fn.args.kwonlyargs}
    done = []
    for name, ss in stores.items():
        if name in reviewed_locals or name in params or len(ss) != 1:
            continue
        # the defining statement: simple `name = <pure>`
        d = None
        impure = False
        for st in nodes:
            if isinstance(st, ast.Assign) and len(st.targets) == 1 and st.targets[0] is ss[0]:
                if _is_pure(st.value):
                    d = st
                elif not any(isinstance(x, (ast.Await, ast.Yield, ast.YieldFrom, ast.NamedExpr, ast.Lambda)) for x in ast.walk(st.value)):
                    d, impure = st, True
        if d is None:
            continue
        if impure:
            # only `x = f(...)` immediately followed by the single statement that uses x once
            uses0 = [n for n in nodes if isinstance(n, ast.Name) and n.id == name and isinstance(n.ctx, ast.Load)]
            nxt = _next_stmt(fn, d)
            if len(uses0) != 1 or nxt is None or not any(x is uses0[0] for x in ast.walk(nxt)) or isinstance(nxt, (ast.For, ast.While, ast.AsyncFor, ast.Try, ast.With, ast.AsyncWith)):
                continue
            if isinstance(nxt, ast.If) and not any(x is uses0[0] for x in ast.walk(nxt.test)):
                continue
        free = {x.id for x in ast.walk(d.value) if isinstance(x, ast.Name)}
        if name in free:
            continue
        uses = [n for n in nodes if isinstance(n, ast.Name) and n.id == name and isinstance(n.ctx, ast.Load)]
        if not uses:
            continue
        lo, hi = d.lineno, max(getattr(u, "lineno", d.lineno) for u in uses)
        if min(getattr(u, "lineno", d.lineno) for u in uses) < lo:
            continue
        # no re-binding of the expression's free names between the definition and the last use
        clash = False
        for fnm in free:
            for s in stores.get(fnm, []):
                if lo < getattr(s, "lineno", 0) <= hi:
                    clash = True
        if clash:
            continue
        # attributes of the expression written in between (self._x = ...) would change its value
        attrs = {ast.unparse(x) for x in ast.walk(d.value) if isinstance(x, ast.Attribute)}
        subs = {ast.unparse(x) for x in ast.walk(d.value) if isinstance(x, ast.Subscript)}
        for n in nodes:
            if isinstance(n, ast.Attribute) and isinstance(n.ctx, ast.Store) and ast.unparse(n) in attrs and lo < getattr(n, "lineno", 0) <= hi:
                clash = True
            # item re-bound or deleted between the definition and a use: x[k] would no longer be the same object
            if isinstance(n, ast.Subscript) and isinstance(n.ctx, (ast.Store, ast.Del)) and ast.unparse(n) in subs and lo < getattr(n, "lineno", 0) < hi:
                clash = True
        if clash:
            continue
        _Subst({name: d.value}).visit(fn)
        if not _splice(fn, d, []):
            continue
        done.append(name)
    return done


def _next_stmt(fn, st):
    for parent in ast.walk(fn):
        for f in ("body", "orelse", "finalbody"):
            lst = getattr(parent, f, None)
            if isinstance(lst, list):
                for i, x in enumerate(lst):
                    if x is st:
                        return lst[i + 1] if i + 1 < len(lst) else None
    return None


def _negate(e):
    if isinstance(e, ast.UnaryOp) and isinstance(e.op, ast.Not):
        return e.operand
    if isinstance(e, ast.Compare) and len(e.ops) == 1:
        inv = {ast.Eq: ast.NotEq, ast.NotEq: ast.Eq, ast.Lt: ast.GtE, ast.GtE: ast.Lt, ast.Gt: ast.LtE, ast.LtE: ast.Gt,
               ast.Is: ast.IsNot, ast.IsNot: ast.Is, ast.In: ast.NotIn, ast.NotIn: ast.In}.get(type(e.ops[0]))
        if inv is not None:
            return ast.copy_location(ast.Compare(left=e.left, ops=[inv()], comparators=e.comparators), e)
    if isinstance(e, ast.BoolOp):
        op = ast.And() if isinstance(e.op, ast.Or) else ast.Or()
        return ast.copy_location(ast.BoolOp(op=op, values=[_negate(v) for v in e.values]), e)
    return ast.copy_location(ast.UnaryOp(op=ast.Not(), operand=e), e)


class _WhileBreak(ast.NodeTransformer):
    """`while True:` whose first statement is `if C: break`  ->  `while not C:`  (no else clause involved)."""

    def visit_While(self, n):
        self.generic_visit(n)
        if isinstance(n.test, ast.Constant) and n.test.value is True and not n.orelse and n.body:
            first = n.body[0]
            if isinstance(first, ast.If) and not first.orelse and len(first.body) == 1 and isinstance(first.body[0], ast.Break) and len(n.body) > 1:
                n.test = _negate(first.test)
                n.body = n.body[1:]
        return n


def _nnf(e):
    """Negation normal form of a test: `not` pushed through and/or down to the atoms (comparisons are negated by their operator)."""
    if isinstance(e, ast.UnaryOp) and isinstance(e.op, ast.Not):
        x = e.operand
        if isinstance(x, (ast.BoolOp, ast.Compare)) or (isinstance(x, ast.UnaryOp) and isinstance(x.op, ast.Not)):
            if isinstance(x, ast.Compare) and len(x.ops) != 1:
                return e
            return _nnf(_negate(x))
        return e
    if isinstance(e, ast.BoolOp):
        vals = []
        for v in e.values:
            v = _nnf(v)
            # flatten  a and (b and c)
            if isinstance(v, ast.BoolOp) and type(v.op) is type(e.op):
                vals += v.values
            else:
                vals.append(v)
        return ast.copy_location(ast.BoolOp(op=e.op, values=vals), e)
    return e


def _is_negative(t):
    if isinstance(t, ast.UnaryOp) and isinstance(t.op, ast.Not):
        return True
    return isinstance(t, ast.Compare) and len(t.ops) == 1 and isinstance(t.ops[0], (ast.IsNot, ast.NotEq, ast.NotIn))


class _NNF(ast.NodeTransformer):
    def visit_If(self, n):
        self.generic_visit(n)
        n.test = _nnf(n.test)
        # canonical polarity: an if/else on a single negative atom is written on the positive atom with the arms swapped
        if n.orelse and _is_negative(n.test) and not (len(n.orelse) == 1 and isinstance(n.orelse[0], ast.If)) \
                and not (len(n.body) == 1 and isinstance(n.body[0], ast.If) and n.body[0].orelse):
            n.test, n.body, n.orelse = _negate(n.test), n.orelse, n.body
        return n

    def visit_While(self, n):
        self.generic_visit(n)
        n.test = _nnf(n.test)
        return n


class _UnGuard(ast.NodeTransformer):
    """`if c: continue` + REST at the top level of a loop body  ->  `if not c: REST`; `if c: return` + REST at the top level of a
    function body -> `if not c: REST` (the structured form; which of the two spellings the source uses is immaterial)."""

    def _fold(self, body, jump_type, value_none=False):
        out = list(body)
        i = len(out) - 2
        changed = False
        while i >= 0:
            st = out[i]
            if isinstance(st, ast.If) and not st.orelse and len(st.body) == 1 and isinstance(st.body[0], jump_type) \
                    and (not value_none or st.body[0].value is None or (isinstance(st.body[0].value, ast.Constant) and st.body[0].value.value is None)) \
                    and i + 1 < len(out):
                rest = out[i + 1:]
                new = ast.copy_location(ast.If(test=_nnf(_negate(st.test)), body=rest, orelse=[]), st)
                out = out[:i] + [new]
                changed = True
            i -= 1
        return out

    def visit_For(self, n):
        self.generic_visit(n)
        n.body = self._fold(n.body, ast.Continue)
        return n

    visit_AsyncFor = visit_For
    visit_While = visit_For

    def _fn(self, n):
        self.generic_visit(n)
        if not any(isinstance(x, ast.Return) and x.value is not None and not (isinstance(x.value, ast.Constant) and x.value.value is None)
                   for x in ast.walk(n)):
            n.body = self._fold(n.body, ast.Return, value_none=True)
        return n

    visit_FunctionDef = _fn
    visit_AsyncFunctionDef = _fn


class _Match(ast.NodeTransformer):
    """`match` on constants / dotted names / None (with `|`, guards, a capture or wildcard default) lowered to the if/elif chain it
    abbreviates; class, sequence and mapping patterns are left alone (the CFG builder then refuses the function)."""

    def __init__(self):
        self.k = 0

    def _test(self, subj, pat):
        if isinstance(pat, ast.MatchValue):
            return ast.Compare(left=subj, ops=[ast.Eq()], comparators=[pat.value]), None
        if isinstance(pat, ast.MatchSingleton):
            return ast.Compare(left=subj, ops=[ast.Is()], comparators=[ast.Constant(value=pat.value)]), None
        if isinstance(pat, ast.MatchOr):
            parts = [self._test(subj, q) for q in pat.patterns]
            if any(t is None or b is not None for t, b in parts):
                return None, None
            if all(isinstance(q, ast.MatchValue) for q in pat.patterns):
                return ast.Compare(left=subj, ops=[ast.In()], comparators=[ast.Tuple(elts=[q.value for q in pat.patterns], ctx=ast.Load())]), None
            return ast.BoolOp(op=ast.Or(), values=[t for t, _b in parts]), None
        if isinstance(pat, ast.MatchAs) and pat.pattern is None:
            return ast.Constant(value=True), pat.name
        return None, None

    def visit_Match(self, node):
        self.generic_visit(node)
        subj = node.subject
        pre = []
        if not isinstance(subj, (ast.Name, ast.Attribute)):
            self.k += 1
            nm = f"_match{self.k}"
            pre.append(ast.copy_location(ast.Assign(targets=[ast.Name(id=nm, ctx=ast.Store())], value=subj, type_comment=None), node))
            subj = ast.Name(id=nm, ctx=ast.Load())
        arms = []
        for case in node.cases:
            t, bind = self._test(subj, case.pattern)
            if t is None:
                return node
            body = list(case.body)
            if bind:
                body = [ast.copy_location(ast.Assign(targets=[ast.Name(id=bind, ctx=ast.Store())], value=subj, type_comment=None), case.body[0])] + body
                if case.guard is not None:
                    return node       # a guard may use the capture: keep it simple
            if case.guard is not None:
                t = case.guard if (isinstance(t, ast.Constant) and t.value is True) else ast.BoolOp(op=ast.And(), values=[t, case.guard])
            arms.append((t, body))
        chain = []
        for t, body in reversed(arms):
            if isinstance(t, ast.Constant) and t.value is True:
                chain = body
            else:
                chain = [ast.copy_location(ast.If(test=t, body=body, orelse=chain), node)]
        out = pre + chain
        for x in out:
            ast.fix_missing_locations(x)
        return out if out else ast.copy_location(ast.Pass(), node)


class _Walrus(ast.NodeTransformer):
    """`if (x := E) <rest>:`  ->  `x = E` followed by `if x <rest>:` when the assignment expression is the first thing the test
    evaluates (so hoisting it changes neither order nor condition of evaluation); the same for `return`/assignment/expression
    statements whose first-evaluated sub-expression is a walrus.  Other positions are left alone."""

    def _first(self, e):
        while True:
            if isinstance(e, ast.NamedExpr):
                return e
            if isinstance(e, ast.UnaryOp):
                e = e.operand
            elif isinstance(e, ast.BoolOp):
                e = e.values[0]
            elif isinstance(e, ast.Compare):
                e = e.left
            elif isinstance(e, ast.Attribute):
                e = e.value
            elif isinstance(e, ast.Call):
                # looking up a plain (dotted) name has no effect: the first argument is what runs first
                f_ = e.func
                while isinstance(f_, ast.Attribute):
                    f_ = f_.value
                if isinstance(f_, ast.Name) and e.args and not isinstance(e.args[0], ast.Starred):
                    e = e.args[0]
                else:
                    e = e.func
            elif isinstance(e, ast.Subscript):
                e = e.value
            else:
                return None

    def _hoist(self, holder, field):
        pre = []
        while True:
            w = self._first(getattr(holder, field))
            if w is None or not isinstance(w.target, ast.Name):
                break
            pre.append(ast.copy_location(ast.Assign(targets=[ast.Name(id=w.target.id, ctx=ast.Store())], value=w.value, type_comment=None), holder))
            repl = ast.copy_location(ast.Name(id=w.target.id, ctx=ast.Load()), w)

            class R(ast.NodeTransformer):
                def visit(self, n):
                    if n is w:
                        return repl
                    return super().visit(n)
            setattr(holder, field, R().visit(getattr(holder, field)))
        return pre

    def _block(self, stmts):
        out = []
        for st in stmts:
            pre = []
            if isinstance(st, ast.If):
                pre = self._hoist(st, "test")
            elif isinstance(st, (ast.Return, ast.Expr, ast.Assign)) and getattr(st, "value", None) is not None:
                pre = self._hoist(st, "value")
            for x in pre:
                ast.fix_missing_locations(x)
            out += pre + [st]
        return out

    def generic_visit(self, node):
        super().generic_visit(node)
        for f in ("body", "orelse", "finalbody"):
            lst = getattr(node, f, None)
            if isinstance(lst, list) and lst and isinstance(lst[0], ast.stmt):
                if f == "orelse" and isinstance(node, ast.If) and len(lst) == 1 and isinstance(lst[0], ast.If) and self._first(lst[0].test) is not None:
                    # an `elif (x := ...)`: the hoisted assignment belongs inside the else arm
                    setattr(node, f, self._block(lst))
                    continue
                setattr(node, f, self._block(lst))
        if isinstance(node, ast.Try):
            for h in node.handlers:
                h.body = self._block(h.body)
        return node


class _NextGen(ast.NodeTransformer):
    """`x = next((ELT for T in IT if COND), DEFAULT)`  ->  `x = DEFAULT` + `for T in IT: if COND: x = ELT; break` (the search loop it
    abbreviates; one generator, no await)."""

    def _block(self, stmts):
        out = []
        for st in stmts:
            v = st.value if isinstance(st, ast.Assign) and len(st.targets) == 1 and isinstance(st.targets[0], ast.Name) else None
            if isinstance(v, ast.Call) and isinstance(v.func, ast.Name) and v.func.id == "next" and len(v.args) == 2 and not v.keywords \
                    and isinstance(v.args[0], ast.GeneratorExp) and len(v.args[0].generators) == 1 and not v.args[0].generators[0].is_async:
                g = v.args[0].generators[0]
                nm = st.targets[0].id
                init = ast.Assign(targets=[ast.Name(id=nm, ctx=ast.Store())], value=v.args[1], type_comment=None)
                hit = [ast.Assign(targets=[ast.Name(id=nm, ctx=ast.Store())], value=v.args[0].elt, type_comment=None), ast.Break()]
                body = hit
                for cond in reversed(g.ifs):
                    body = [ast.If(test=cond, body=body, orelse=[])]
                loop = ast.For(target=g.target, iter=g.iter, body=body, orelse=[], type_comment=None)
                for x in (init, loop):
                    ast.copy_location(x, st)
                    ast.fix_missing_locations(x)
                out += [init, loop]
            else:
                out.append(st)
        return out

    def generic_visit(self, node):
        super().generic_visit(node)
        for f in ("body", "orelse", "finalbody"):
            lst = getattr(node, f, None)
            if isinstance(lst, list) and lst and isinstance(lst[0], ast.stmt):
                setattr(node, f, self._block(lst))
        if isinstance(node, ast.Try):
            for h in node.handlers:
                h.body = self._block(h.body)
        return node


class _AssertRaise(ast.NodeTransformer):
    """`if c: raise AssertionError(msg)` (no else) is the explicit spelling of `assert not c, msg`: the reviewed code uses asserts."""

    def visit_If(self, n):
        self.generic_visit(n)
        if not n.orelse and len(n.body) == 1 and isinstance(n.body[0], ast.Raise) and n.body[0].cause is None:
            exc = n.body[0].exc
            msg = None
            ok = False
            if isinstance(exc, ast.Name) and exc.id == "AssertionError":
                ok = True
            elif isinstance(exc, ast.Call) and isinstance(exc.func, ast.Name) and exc.func.id == "AssertionError" and not exc.keywords and len(exc.args) <= 1:
                ok = True
                msg = exc.args[0] if exc.args else None
            if ok:
                return ast.copy_location(ast.Assert(test=_negate(n.test), msg=msg), n)
        return n


class _CondVarFold(ast.NodeTransformer):
    """`flag = <pure expression>` directly followed by `if flag:` / `if not flag:` / `while`-free, where every read of `flag` in the
    function is such a test directly after an assignment of it: the flag only names the condition (it may be assigned several times,
    e.g. once before and once after an await) -- the expression is put back into the test."""

    def _fold(self, fn):
        loads = [n for n in _own_nodes(fn) if isinstance(n, ast.Name) and isinstance(n.ctx, ast.Load)]
        params = {a.arg for a in fn.args.posonlyargs + fn.args.args + fn.args.kwonlyargs}
        pairs = {}      # name -> [(list, index)]
        ok_loads = {}

        def scan(lst):
            for i, st in enumerate(lst):
                if (isinstance(st, ast.Assign) and len(st.targets) == 1 and isinstance(st.targets[0], ast.Name) and i + 1 < len(lst) and isinstance(lst[i + 1], ast.If)
                        and _is_pure(st.value) and st.targets[0].id not in params):
                    v = st.targets[0].id
                    t = lst[i + 1].test
                    core = t.operand if isinstance(t, ast.UnaryOp) and isinstance(t.op, ast.Not) else t
                    if isinstance(core, ast.Name) and core.id == v and not any(isinstance(x, ast.Name) and x.id == v for x in ast.walk(st.value)):
                        pairs.setdefault(v, []).append((lst, st, lst[i + 1]))
                        ok_loads.setdefault(v, []).append(core)
            for st in lst:
                for f in ("body", "orelse", "finalbody"):
                    sub = getattr(st, f, None)
                    if isinstance(sub, list) and not isinstance(st, (ast.FunctionDef, ast.AsyncFunctionDef, ast.ClassDef)):
                        scan(sub)
                for h in getattr(st, "handlers", []) or []:
                    scan(h.body)
        scan(fn.body)
        for v, ps in pairs.items():
            stores = [n for n in _own_nodes(fn) if isinstance(n, ast.Name) and n.id == v and isinstance(n.ctx, (ast.Store, ast.Del))]
            if len(stores) != len(ps):
                continue     # assigned somewhere else as well
            if any(x.id == v and not any(x is y for y in ok_loads[v]) for x in loads):
                continue     # read somewhere else
            for lst, st, nxt in ps:
                if isinstance(nxt.test, ast.UnaryOp) and isinstance(nxt.test.op, ast.Not):
                    nxt.test = ast.copy_location(ast.UnaryOp(op=ast.Not(), operand=st.value), nxt.test)
                else:
                    nxt.test = st.value
                for k, x in enumerate(lst):
                    if x is st:
                        del lst[k]
                        break

    def visit_FunctionDef(self, n):
        self.generic_visit(n)
        self._fold(n)
        return n

    visit_AsyncFunctionDef = visit_FunctionDef


def fold_kwargs_dicts(tree):
    """`f(a=1, **{'b': x, 'c': y})` -> `f(a=1, b=x, c=y)`: a dict display with identifier keys unpacked into a call is the keywords themselves
    (the form a helper that gathers shared keyword arguments takes once it has been inlined)."""
    for n in ast.walk(tree):
        if isinstance(n, ast.Call) and any(k.arg is None for k in n.keywords):
            out = []
            seen = {k.arg for k in n.keywords if k.arg is not None}
            for k in n.keywords:
                d = k.value
                if k.arg is None and isinstance(d, ast.Dict) and d.keys and all(isinstance(x, ast.Constant) and isinstance(x.value, str) and x.value.isidentifier() for x in d.keys) \
                        and len({x.value for x in d.keys}) == len(d.keys) and not ({x.value for x in d.keys} & seen):
                    for kk, vv in zip(d.keys, d.values):
                        out.append(ast.copy_location(ast.keyword(arg=kk.value, value=vv), vv))
                else:
                    out.append(k)
            n.keywords = out
    return tree


def lower_ifexp(tree):
    tree = _AssertRaise().visit(tree)
    tree = _CondVarFold().visit(tree)
    tree = _Match().visit(tree)
    tree = _Walrus().visit(tree)
    tree = _NextGen().visit(tree)
    tree = _IfExp().visit(tree)
    tree = _WhileBreak().visit(tree)
    tree = _NNF().visit(tree)
    return _UnGuard().visit(tree)


# ---- comprehension -> loop -----------------------------------------------------------------------------------------
def count_comprehensions(fn):
    return sum(1 for n in _own_nodes(fn) if isinstance(n, (ast.ListComp, ast.SetComp, ast.DictComp)))


class _HoistWalrus(ast.NodeTransformer):
    def __init__(self):
        self.pre = []

    def visit_NamedExpr(self, n):
        self.generic_visit(n)
        self.pre.append(ast.Assign(targets=[ast.Name(id=n.target.id, ctx=ast.Store())], value=n.value, type_comment=None))
        return ast.Name(id=n.target.id, ctx=ast.Load())


def lower_comprehensions(fn):
    """`return <comprehension>` / `x = <comprehension>` (one generator) rewritten as the accumulate-in-a-loop form."""
    changed = 0
    for st in list(_own_stmts(fn)):
        comp = st.value if isinstance(st, (ast.Return, ast.Assign)) else None
        if not isinstance(comp, (ast.ListComp, ast.SetComp, ast.DictComp)) or any(g_.is_async for g_ in comp.generators):
            continue
        if isinstance(st, ast.Assign) and not (len(st.targets) == 1 and isinstance(st.targets[0], ast.Name)):
            continue
        acc = st.targets[0].id if isinstance(st, ast.Assign) else "_acc"
        g = comp.generators[0]
        init = {ast.ListComp: ast.List(elts=[], ctx=ast.Load()), ast.SetComp: ast.Call(func=ast.Name(id="set", ctx=ast.Load()), args=[], keywords=[]),
                ast.DictComp: ast.Dict(keys=[], values=[])}[type(comp)]
        if isinstance(comp, ast.DictComp):
            add = ast.Assign(targets=[ast.Subscript(value=ast.Name(id=acc, ctx=ast.Load()), slice=comp.key, ctx=ast.Store())], value=comp.value, type_comment=None)
        else:
            meth = "append" if isinstance(comp, ast.ListComp) else "add"
            add = ast.Expr(value=ast.Call(func=ast.Attribute(value=ast.Name(id=acc, ctx=ast.Load()), attr=meth, ctx=ast.Load()), args=[comp.elt], keywords=[]))
        body = [add]
        loop = None
        for g in reversed(comp.generators):      # innermost generator first: `for a in A for b in B` nests B inside A
            for cond in reversed(g.ifs):
                h = _HoistWalrus()
                cond2 = h.visit(cond)
                body = h.pre + [ast.If(test=cond2, body=body, orelse=[])]
            loop = ast.For(target=g.target, iter=g.iter, body=body, orelse=[], type_comment=None)
            body = [loop]
        new = [ast.Assign(targets=[ast.Name(id=acc, ctx=ast.Store())], value=init, type_comment=None), loop]
        if isinstance(st, ast.Return):
            new.append(ast.Return(value=ast.Name(id=acc, ctx=ast.Load())))
        for x in new:
            ast.copy_location(x, st)
            for y in ast.walk(x):
                if not hasattr(y, "lineno"):
                    ast.copy_location(y, st)
        if _splice(fn, st, new):
            changed += 1
    return changed


# ---- accumulate-in-a-loop -> comprehension (only for accumulators that are new relative to the reviewed function) -----
def raise_new_accumulators(fn, reviewed_locals):
    """`acc = []` immediately followed by `for T in IT: acc.append(E)` (acc a local the reviewed function does not have, the loop
    without break/else) becomes `acc = [E for T in IT]`; likewise `acc = {}` + `acc[K] = V` and `acc = set()` + `acc.add(E)`."""
    if reviewed_locals is None:
        return []
    done = []
    for parent in list(ast.walk(fn)):
        for f in ("body", "orelse", "finalbody"):
            lst = getattr(parent, f, None)
            if not isinstance(lst, list):
                continue
            i = 0
            while i + 1 < len(lst):
                a, loop = lst[i], lst[i + 1]
                i += 1
                tgt = None
                if isinstance(a, ast.Assign) and len(a.targets) == 1 and isinstance(a.targets[0], ast.Name):
                    tgt, init = a.targets[0].id, a.value
                elif isinstance(a, ast.AnnAssign) and isinstance(a.target, ast.Name) and a.value is not None:
                    tgt, init = a.target.id, a.value
                if tgt is None or tgt in reviewed_locals or not isinstance(loop, ast.For) or loop.orelse or len(loop.body) != 1:
                    continue
                kind = None
                if isinstance(init, ast.List) and not init.elts:
                    kind = "list"
                elif isinstance(init, ast.Dict) and not init.keys:
                    kind = "dict"
                elif isinstance(init, ast.Call) and isinstance(init.func, ast.Name) and init.func.id == "set" and not init.args:
                    kind = "set"
                if kind is None:
                    continue
                st = loop.body[0]
                ifs = []
                while isinstance(st, ast.If) and not st.orelse and len(st.body) == 1:
                    ifs.append(st.test)
                    st = st.body[0]
                comp = None
                gen = lambda: [ast.comprehension(target=loop.target, iter=loop.iter, ifs=ifs, is_async=0)]
                if kind in ("list", "set") and isinstance(st, ast.Expr) and isinstance(st.value, ast.Call) and isinstance(st.value.func, ast.Attribute) \
                        and isinstance(st.value.func.value, ast.Name) and st.value.func.value.id == tgt \
                        and st.value.func.attr == ("append" if kind == "list" else "add") and len(st.value.args) == 1 and not st.value.keywords:
                    comp = (ast.ListComp if kind == "list" else ast.SetComp)(elt=st.value.args[0], generators=gen())
                elif kind == "dict" and isinstance(st, ast.Assign) and len(st.targets) == 1 and isinstance(st.targets[0], ast.Subscript) \
                        and isinstance(st.targets[0].value, ast.Name) and st.targets[0].value.id == tgt:
                    comp = ast.DictComp(key=st.targets[0].slice, value=st.value, generators=gen())
                if comp is None:
                    continue
                # the accumulator must not be read inside the loop (other than the append itself)
                reads = [n for n in ast.walk(loop) if isinstance(n, ast.Name) and n.id == tgt]
                if len(reads) != 1:
                    continue
                if any(isinstance(n, (ast.Await, ast.Yield, ast.YieldFrom, ast.Break, ast.Continue, ast.Return)) for n in ast.walk(loop)):
                    continue
                new = ast.Assign(targets=[ast.Name(id=tgt, ctx=ast.Store())], value=comp, type_comment=None)
                ast.copy_location(new, a)
                for y in ast.walk(new):
                    if hasattr(y, "lineno") or "lineno" in getattr(y, "_attributes", ()):
                        y.lineno, y.col_offset, y.end_lineno, y.end_col_offset = a.lineno, a.col_offset, a.lineno, a.col_offset
                lst[i - 1:i + 1] = [new]
                done.append(tgt)
    return done


# ---- local single-expression closures / lambdas that are new relative to the reviewed function ----------------------------
def inline_new_closures(fn, reviewed_locals):
    """`def f(a, b): return E` / `f = lambda a, b: E` nested in `fn`, f not a local of the reviewed function and used only as the
    callee of plain positional calls: every call f(x, y) becomes E[a:=x, b:=y] and the definition is dropped.  Exact when each
    argument is a name/constant or its parameter occurs once in E (no duplicated or reordered evaluation), E does not assign."""
    if reviewed_locals is None:
        return []
    done = []
    for parent in list(ast.walk(fn)):
        body = getattr(parent, "body", None)
        if not isinstance(body, list):
            continue
        for st in list(body):
            name = params = expr = None
            if isinstance(st, ast.FunctionDef) and st is not fn and not st.decorator_list:
                stmts = [x for x in st.body if not (isinstance(x, ast.Expr) and isinstance(x.value, ast.Constant))]
                if len(stmts) == 1 and isinstance(stmts[0], ast.Return) and stmts[0].value is not None:
                    name, a, expr = st.name, st.args, stmts[0].value
            elif isinstance(st, ast.Assign) and len(st.targets) == 1 and isinstance(st.targets[0], ast.Name) and isinstance(st.value, ast.Lambda):
                name, a, expr = st.targets[0].id, st.value.args, st.value.body
            if name is None or name in reviewed_locals:
                continue
            if a.vararg or a.kwarg or a.kwonlyargs or a.defaults or a.posonlyargs:
                continue
            params = [x.arg for x in a.args]
            if any(isinstance(x, (ast.NamedExpr, ast.Await, ast.Yield, ast.YieldFrom, ast.Lambda)) for x in ast.walk(expr)):
                continue
            occ = {q: sum(1 for x in ast.walk(expr) if isinstance(x, ast.Name) and x.id == q) for q in params}
            # every use of the name is the callee of a positional call, after the definition, in this function
            uses = [x for x in ast.walk(fn) if isinstance(x, ast.Name) and x.id == name and not (isinstance(st, ast.Assign) and x is st.targets[0])]
            calls = [x for x in ast.walk(fn) if isinstance(x, ast.Call) and isinstance(x.func, ast.Name) and x.func.id == name]
            if not calls or len(calls) != len(uses):
                continue
            inside = {id(x) for x in ast.walk(st)}
            if any(id(c) in inside for c in calls):
                continue
            ok = True
            for c in calls:
                if c.keywords or len(c.args) != len(params) or any(isinstance(x, ast.Starred) for x in c.args):
                    ok = False
                for q, arg in zip(params, c.args):
                    if occ[q] != 1 and not isinstance(arg, (ast.Name, ast.Constant)):
                        ok = False
                if getattr(c, "lineno", 0) < getattr(st, "lineno", 0):
                    ok = False
            # names the body captures must not be parameters shadowing something the arguments mention
            if not ok:
                continue
            for c in calls:
                repl = _Subst(dict(zip(params, c.args))).visit(_clone_tree(expr))
                for y in ast.walk(repl):
                    if "lineno" in getattr(y, "_attributes", ()):
                        y.lineno, y.col_offset = c.lineno, c.col_offset
                        y.end_lineno, y.end_col_offset = getattr(c, "end_lineno", c.lineno), getattr(c, "end_col_offset", c.col_offset)
                _replace_node(fn, c, repl)
            body.remove(st)
            if not body:
                body.append(ast.Pass())
            done.append(name)
    return done


def _clone_tree(n):
    import copy
    for x in ast.walk(n):
        if hasattr(x, "_parent"):
            try:
                del x._parent
            except AttributeError:
                pass
    return copy.deepcopy(n)


def _replace_node(root, old, new):
    for parent in ast.walk(root):
        for f, v in ast.iter_fields(parent):
            if v is old:
                setattr(parent, f, new)
                return True
            if isinstance(v, list):
                for i, x in enumerate(v):
                    if x is old:
                        v[i] = new
                        return True
    return False


# ---- call forms: positional vs keyword arguments -------------------------------------------------------------------------------------
_STDLIB_SIGS = {"wait_for": ["fut", "timeout"], "pbkdf2_hmac": ["hash_name", "password", "salt", "iterations", "dklen"], "sleep": ["delay", "result"],
                "call_later": ["delay", "callback"]}


def canonical_call_forms(repo):
    """`f(a, b)` and `f(a, y=b)` are the same call.  The rules read arguments the way the reviewed tree wrote them, so every call to a
    callee the reviewed tree called with ONE positional arity is put back into that form: leading keywords that name the next positional
    parameters become positional, surplus positional arguments become keywords.  Needs an unambiguous signature (all functions /
    classes of the package with that simple name agree on the parameter names involved, or a known stdlib signature)."""
    from . import alpha
    callpos = alpha.baseline().get("__callpos__") or {}
    if not callpos:
        return 0
    sigs = {}
    for q, fi in repo.funcs.items():
        a = fi.node.args
        ps = [x.arg for x in a.posonlyargs + a.args]
        is_method = fi.owner_cls is not None and fi.parent is None and not any(isinstance(d, ast.Name) and d.id == "staticmethod" for d in fi.node.decorator_list)
        if is_method:
            ps = ps[1:]
        name = fi.owner_cls.name if (fi.name == "__init__" and fi.owner_cls is not None) else fi.name
        sigs.setdefault(name, []).append((ps, bool(a.vararg)))
    # dataclass-like classes without __init__: field order of annotated class attributes
    for cname, cis in repo.classes_by_name.items():
        if cname in sigs:
            continue
        for ci in cis:
            fields = [st.target.id for st in ci.node.body if isinstance(st, ast.AnnAssign) and isinstance(st.target, ast.Name)]
            if fields and any("dataclass" in ast.unparse(d) for d in ci.node.decorator_list):
                sigs.setdefault(cname, []).append((fields, False))
    for k, v in _STDLIB_SIGS.items():
        sigs.setdefault(k, []).append((v, False))
    changed = 0
    for q, fi in repo.funcs.items():
        for n in ast.walk(fi.node):
            if not isinstance(n, ast.Call) or any(isinstance(a, ast.Starred) for a in n.args) or any(k.arg is None for k in n.keywords):
                continue
            nm = n.func.id if isinstance(n.func, ast.Name) else (n.func.attr if isinstance(n.func, ast.Attribute) else None)
            want = callpos.get(nm)
            if not want or len(want) != 1 or nm not in sigs:
                continue
            P = want[0]
            cands = sigs[nm]
            if len(n.args) < P:
                kws = {k.arg: k for k in n.keywords}
                moved = False
                while len(n.args) < P:
                    i = len(n.args)
                    names = {c[0][i] if i < len(c[0]) else None for c in cands}
                    if len(names) != 1 or None in names or any(c[1] for c in cands):
                        break
                    pname = next(iter(names))
                    if pname not in kws:
                        break
                    k = kws.pop(pname)
                    n.keywords.remove(k)
                    n.args.append(k.value)
                    moved = True
                changed += moved
            elif len(n.args) > P:
                names_ok = True
                new_kw = []
                for i in range(P, len(n.args)):
                    names = {c[0][i] if i < len(c[0]) else None for c in cands}
                    if len(names) != 1 or None in names or any(c[1] for c in cands):
                        names_ok = False
                        break
                    new_kw.append(ast.keyword(arg=next(iter(names)), value=n.args[i]))
                if names_ok and not ({k.arg for k in new_kw} & {k.arg for k in n.keywords}):
                    del n.args[P:]
                    n.keywords[0:0] = new_kw
                    for k in new_kw:
                        ast.copy_location(k, k.value)
                    changed += 1
    if changed:
        for m in repo.modules.values():
            ast.fix_missing_locations(m.tree)
    return changed
