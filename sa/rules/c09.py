"""C09 -- record batches round-trip and both codec implementations agree (table / sibling agreement clauses)."""
from __future__ import annotations

import ast
import os
import re

from ..cfg import enum_paths
from ..constfold import ConstEnv
from ..loader import AnalysisError, call_attr, unparse
from ..rulekit import arg_of, def_value, flatten_const_ifs, local_defs, only_return_value
from ..pyxlower import strip_casts
from .c10 import DEF, LEG, MEM, CUT, Pyx, ob
from ..bounds import FnBounds

PYD = "aiokafka.record.default_records"
PYL = "aiokafka.record.legacy_records"
PYM = "aiokafka.record.memory_records"

# reference table, written from the Kafka message format definition (DESIGN.md appendix A.2): name, offset, width, struct code
V2_HEADER = [
    ("base_offset", 0, 8, "q"), ("length", 8, 4, "i"), ("partition_leader_epoch", 12, 4, "i"), ("magic", 16, 1, "b"),
    ("crc", 17, 4, "I"), ("attributes", 21, 2, "h"), ("last_offset_delta", 23, 4, "i"), ("first_timestamp", 27, 8, "q"),
    ("max_timestamp", 35, 8, "q"), ("producer_id", 43, 8, "q"), ("producer_epoch", 51, 2, "h"), ("base_sequence", 53, 4, "i"),
    ("record_count", 57, 4, "i"),
]
V2_HEADER_SIZE = 61
# which builder state each header field must be written from (by attribute name mentioned in the written expression)
V2_SOURCES = {"magic": "_magic", "last_offset_delta": "_last_offset", "first_timestamp": "_first_timestamp", "max_timestamp": "_max_timestamp",
              "producer_id": "producer_id", "producer_epoch": "producer_epoch", "base_sequence": "base_sequence", "record_count": "_num_records",
              "attributes": "_get_attributes"}
LEGACY_V0 = [("offset", 0, 8, "q"), ("length", 8, 4, "i"), ("crc", 12, 4, "I"), ("magic", 16, 1, "b"), ("attributes", 17, 1, "b")]
LEGACY_V1 = LEGACY_V0 + [("timestamp", 18, 8, "q")]
MASKS = {"CODEC_MASK": 0x07, "CODEC_NONE": 0, "CODEC_GZIP": 1, "CODEC_SNAPPY": 2, "CODEC_LZ4": 3, "CODEC_ZSTD": 4,
         "TIMESTAMP_TYPE_MASK": 0x08, "TRANSACTIONAL_MASK": 0x10, "CONTROL_MASK": 0x20}
WIDTH = {"unpack_int64": 8, "unpack_int32": 4, "unpack_int16": 2, "pack_int64": 8, "pack_int32": 4, "pack_int16": 2}


def _pxi_defs(root, rel):
    """DEF NAME = <int expr> lines of a .pxi / .pyx file, evaluated in order."""
    vals = {}
    p = os.path.join(root, rel)
    if not os.path.exists(p):
        raise AnalysisError(f"anchor file {rel} not found")
    for line in open(p, encoding="utf-8"):
        m = re.match(r"\s*DEF\s+(\w+)\s*=\s*(.+?)\s*(#.*)?$", line)
        if m:
            try:
                vals[m.group(1)] = eval(compile(ast.parse(m.group(2), mode="eval"), "<def>", "eval"), {"__builtins__": {}}, dict(vals))
            except Exception:
                continue
    return vals


def rule_header_table(ctx, px):
    R = "header-table"
    ctx.rep.rule(R, "the v2 batch header layout is stated by the Python HEADER_STRUCT, the DEF offset chain of the Cython module, the compiled "
                    "reader's field reads and the compiled/Python writers' field writes: all agree field by field (offset, width, signedness) with "
                    "the reference table of the Kafka format (61 bytes, CRC at 17 over [21:], length counted from byte 12), every header field is "
                    "written from the builder state it denotes, and the v0/v1 message headers agree likewise")
    mod = ctx.repo.module(PYD)
    env = ConstEnv(mod.tree, "DefaultRecordBase")
    hs = env.get("HEADER_STRUCT")
    f = hs.fields()
    fi0 = ctx.fn(f"{PYD}._DefaultRecordBatchPy.__init__")
    ctx.ob(R, fi0, fi0.node, hs.size == V2_HEADER_SIZE and len(f) == len(V2_HEADER), f"HEADER_STRUCT is {hs.size} bytes / {len(f)} fields, the v2 header has 61 / 13", text="py-struct-size")
    for (name, off, w, code), got in zip(V2_HEADER, f):
        ctx.ob(R, fi0, fi0.node, got == (off, w, code), f"HEADER_STRUCT field {name}: {got} != reference {(off, w, code)}", text=f"py-struct:{name}")
    for cname, want in (("ATTRIBUTES_OFFSET", 21), ("CRC_OFFSET", 17), ("AFTER_LEN_OFFSET", 12)):
        ctx.ob(R, fi0, fi0.node, env.get(cname) == want, f"{cname} = {env.get(cname)} != {want}", text=f"py-const:{cname}")
    # python properties index the unpacked tuple
    idx = {n: i for i, (n, *_r) in enumerate(V2_HEADER)}
    for prop, field in (("base_offset", "base_offset"), ("magic", "magic"), ("crc", "crc"), ("attributes", "attributes"), ("last_offset_delta", "last_offset_delta"),
                        ("first_timestamp", "first_timestamp"), ("max_timestamp", "max_timestamp"), ("producer_id", "producer_id"),
                        ("producer_epoch", "producer_epoch"), ("base_sequence", "base_sequence")):
        pf = ctx.fn(f"{PYD}._DefaultRecordBatchPy.{prop}")
        ctx.ob(R, pf, pf.node, only_return_value(pf.node) is not None and unparse(only_return_value(pf.node)) == f"self._header_data[{idx[field]}]", f"property {prop} does not return header field {idx[field]}", text=f"py-prop:{prop}")
    ctx.ob(R, fi0, fi0.node, "self._num_records = self._header_data[12]" in unparse(fi0.node) and "self._pos = self.HEADER_STRUCT.size" in unparse(fi0.node), "record count / first record position not taken from the header struct", text="py-count-pos")
    # Cython DEF chain
    defs = _pxi_defs(ctx.repo.root, "aiokafka/record/_crecords/default_records.pyx")
    rd = px.fn(f"{DEF}.DefaultRecordBatch._read_header")
    names = {"base_offset": "BASE_OFFSET_OFFSET", "length": "LENGTH_OFFSET", "partition_leader_epoch": "PARTITION_LEADER_EPOCH_OFFSET", "magic": "MAGIC_OFFSET",
             "crc": "CRC_OFFSET", "attributes": "ATTRIBUTES_OFFSET", "last_offset_delta": "LAST_OFFSET_DELTA_OFFSET", "first_timestamp": "FIRST_TIMESTAMP_OFFSET",
             "max_timestamp": "MAX_TIMESTAMP_OFFSET", "producer_id": "PRODUCER_ID_OFFSET", "producer_epoch": "PRODUCER_EPOCH_OFFSET",
             "base_sequence": "BASE_SEQUENCE_OFFSET", "record_count": "RECORD_COUNT_OFFSET"}
    for name, off, w, code in V2_HEADER:
        ob(ctx, R, rd, rd.node.lineno, f"def:{names[name]}", defs.get(names[name]) == off, f"DEF {names[name]} = {defs.get(names[name])} != {off}")
    ob(ctx, R, rd, rd.node.lineno, "def:FIRST_RECORD_OFFSET", defs.get("FIRST_RECORD_OFFSET") == V2_HEADER_SIZE, f"DEF FIRST_RECORD_OFFSET = {defs.get('FIRST_RECORD_OFFSET')} != 61")
    # compiled reader: self.<field> = unpack_intN(&buf[K]) / buf[K]
    got = {}
    for n in ast.walk(rd.node):
        if isinstance(n, ast.Assign) and isinstance(n.targets[0], ast.Attribute) and unparse(n.targets[0].value) == "self":
            v = strip_casts(n.value)
            if isinstance(v, ast.Name):
                # a typed local decoded once and stored (and reused) later
                ds = [x for x in ast.walk(rd.node) if isinstance(x, ast.Assign) and len(x.targets) == 1 and isinstance(x.targets[0], ast.Name) and x.targets[0].id == v.id]
                if len(ds) == 1:
                    v = strip_casts(ds[0].value)
            if isinstance(v, ast.Call) and call_attr(v) in WIDTH and v.args:
                a = strip_casts(v.args[0])
                if isinstance(a, ast.Call) and a.args and isinstance(a.args[0], ast.Subscript) and isinstance(a.args[0].slice, ast.Constant):
                    got[n.targets[0].attr] = (a.args[0].slice.value, WIDTH[call_attr(v)])
            elif isinstance(v, ast.Subscript) and isinstance(v.slice, ast.Constant):
                got[n.targets[0].attr] = (v.slice.value, 1)
    rmap = {"base_offset": "base_offset", "length": "length", "magic": "magic", "crc": "crc", "attributes": "attributes", "last_offset_delta": "last_offset_delta",
            "first_timestamp": "first_timestamp", "max_timestamp": "max_timestamp", "producer_id": "producer_id", "producer_epoch": "producer_epoch",
            "base_sequence": "base_sequence", "record_count": "num_records"}
    for name, off, w, code in V2_HEADER:
        if name == "partition_leader_epoch":
            continue
        ob(ctx, R, rd, rd.node.lineno, f"reader:{name}", got.get(rmap[name]) == (off, w), f"compiled reader takes {rmap[name]} from {got.get(rmap[name])}, reference (offset, width) = {(off, w)}")
    # compiled writer: pack_intN(&buf[K], expr) / buf[K] = expr
    wr = px.fn(f"{DEF}.DefaultRecordBatchBuilder._write_header")
    wgot = {}
    for n in ast.walk(wr.node):
        if isinstance(n, ast.Call) and call_attr(n) in WIDTH and len(n.args) == 2:
            a = strip_casts(n.args[0])
            if isinstance(a, ast.Call) and a.args and isinstance(a.args[0], ast.Subscript) and isinstance(a.args[0].slice, ast.Constant):
                wgot[a.args[0].slice.value] = (WIDTH[call_attr(n)], unparse(strip_casts(n.args[1])))
        if isinstance(n, ast.Assign) and isinstance(n.targets[0], ast.Subscript) and isinstance(n.targets[0].slice, ast.Constant) and unparse(n.targets[0].value) == "buf":
            wgot[n.targets[0].slice.value] = (1, unparse(strip_casts(n.value)))
    for name, off, w, code in V2_HEADER:
        g = wgot.get(off)
        ob(ctx, R, wr, wr.node.lineno, f"writer:{name}", g is not None and g[0] == w, f"compiled writer writes {g} at offset {off}; reference width {w}")
        if g is not None and name in V2_SOURCES:
            ob(ctx, R, wr, wr.node.lineno, f"writer-source:{name}", V2_SOURCES[name] in g[1], f"compiled writer fills {name} from `{g[1]}`, expected the builder's {V2_SOURCES[name]}")
    g = wgot.get(8)
    ob(ctx, R, wr, wr.node.lineno, "writer-length", g is not None and g[1].replace(" ", "") == "self._pos-12", f"compiled writer's length field is `{g[1] if g else None}`, expected bytes after the length field (self._pos - 12)")
    # python writer: HEADER_STRUCT.pack_into(buffer, 0, v0..v12)
    pw = ctx.fn(f"{PYD}._DefaultRecordBatchBuilderPy._write_header")
    calls = [n for n in ast.walk(pw.node) if isinstance(n, ast.Call) and call_attr(n) == "pack_into" and unparse(n.func.value) == "self.HEADER_STRUCT"]
    ctx.anchor(len(calls) == 1, "HEADER_STRUCT.pack_into in the Python writer")
    vals = calls[0].args[2:]
    ctx.ob(R, pw, calls[0], len(vals) == 13 and unparse(calls[0].args[1]) == "0", f"python writer packs {len(vals)} values at offset {unparse(calls[0].args[1])}", text="py-writer-arity")
    if len(vals) == 13:
        for (name, off, w, code), v in zip(V2_HEADER, vals):
            if name in V2_SOURCES:
                ctx.ob(R, pw, v, V2_SOURCES[name].lstrip("_") in unparse(v).replace("self._", "").replace("self.", "") or V2_SOURCES[name] in unparse(v),
                       f"python writer fills {name} from `{unparse(v)}`, expected the builder's {V2_SOURCES[name]}", text=f"py-writer-source:{name}")
        # the length field counts the bytes after it: len(buffer) - AFTER_LEN_OFFSET, with or without explaining locals
        class _Res(ast.NodeTransformer):
            def visit_Name(self, n):
                if isinstance(n.ctx, ast.Load):
                    return ast.parse(_resolve_local(pw.node, n), mode="eval").body
                return n
        lv = unparse(_Res().visit(ast.parse(unparse(vals[1]), mode="eval").body)).replace(" ", "")
        ctx.ob(R, pw, vals[1], lv == "len(self._buffer)-self.AFTER_LEN_OFFSET", f"python writer's length field is `{lv}`, expected len(self._buffer) - self.AFTER_LEN_OFFSET", text="py-writer-length")
    # legacy headers: python structs and the compiled reader's offsets
    envl = ConstEnv(ctx.repo.module(PYL).tree, "LegacyRecordBase")
    fl = ctx.fn(f"{PYL}._LegacyRecordBatchPy._read_header")
    for sname, ref in (("HEADER_STRUCT_V0", LEGACY_V0), ("HEADER_STRUCT_V1", LEGACY_V1)):
        fs = envl.get(sname).fields()
        ctx.ob(R, fl, fl.node, [(o, w, c) for _n, o, w, c in ref] == fs, f"{sname} fields {fs} != reference", text=f"py-legacy:{sname}")
    for cname, want in (("LOG_OVERHEAD", 12), ("MAGIC_OFFSET", 16), ("RECORD_OVERHEAD_V0", 14), ("RECORD_OVERHEAD_V1", 22), ("KEY_OFFSET_V0", 18), ("KEY_OFFSET_V1", 26), ("KEY_LENGTH", 4), ("VALUE_LENGTH", 4)):
        ctx.ob(R, fl, fl.node, envl.get(cname) == want, f"legacy {cname} = {envl.get(cname)} != {want}", text=f"py-legacy-const:{cname}")
    ldefs = _pxi_defs(ctx.repo.root, "aiokafka/record/_crecords/legacy_records.pyx")
    lr = px.fn(f"{LEG}.LegacyRecordBatch._read_record")
    for cname, want in (("LOG_OVERHEAD", 12), ("MAGIC_OFFSET", 16), ("RECORD_OVERHEAD_V0_DEF", 14), ("RECORD_OVERHEAD_V1_DEF", 22), ("KEY_OFFSET_V0", 18), ("KEY_OFFSET_V1", 26),
                        ("CRC_OFFSET", 12), ("ATTRIBUTES_OFFSET", 17), ("TIMESTAMP_OFFSET", 18), ("LENGTH_OFFSET", 8), ("KEY_LENGTH", 4), ("VALUE_LENGTH", 4)):
        ob(ctx, R, lr, lr.node.lineno, f"legacy-def:{cname}", ldefs.get(cname) == want, f"DEF {cname} = {ldefs.get(cname)} != {want}")
    mdefs = _pxi_defs(ctx.repo.root, "aiokafka/record/_crecords/memory_records.pyx")
    gm = px.fn(f"{MEM}.MemoryRecords._get_next")
    for cname, want in (("LOG_OVERHEAD", 12), ("LENGTH_OFFSET", 8), ("MAGIC_OFFSET", 16), ("RECORD_OVERHEAD_V0", 14)):
        ob(ctx, R, gm, gm.node.lineno, f"memory-def:{cname}", mdefs.get(cname) == want, f"DEF {cname} = {mdefs.get(cname)} != {want}")


def rule_consts(ctx, px):
    R = "consts"
    ctx.rep.rule(R, "attribute masks and codec ids are the format's values in the Python v2 and legacy classes and in consts.pxi")
    env = ConstEnv(ctx.repo.module(PYD).tree, "DefaultRecordBase")
    fi0 = ctx.fn(f"{PYD}._DefaultRecordBatchPy.__init__")
    for k, v in MASKS.items():
        ctx.ob(R, fi0, fi0.node, env.get(k) == v, f"python v2 {k} = {env.get(k)} != {v}", text=f"py:{k}")
    envl = ConstEnv(ctx.repo.module(PYL).tree, "LegacyRecordBase")
    fl = ctx.fn(f"{PYL}._LegacyRecordBatchPy._read_header")
    for k in ("CODEC_MASK", "CODEC_GZIP", "CODEC_SNAPPY", "CODEC_LZ4", "TIMESTAMP_TYPE_MASK"):
        ctx.ob(R, fl, fl.node, envl.get(k) == MASKS[k], f"python legacy {k} = {envl.get(k)} != {MASKS[k]}", text=f"py-legacy:{k}")
    defs = _pxi_defs(ctx.repo.root, "aiokafka/record/_crecords/consts.pxi")
    rd = px.fn(f"{DEF}.DefaultRecordBatch._read_header")
    for k, v in MASKS.items():
        dk = "_ATTR_" + k if k.startswith("CODEC") else "_" + k
        ob(ctx, R, rd, rd.node.lineno, f"pxi:{dk}", defs.get(dk) == v, f"consts.pxi {dk} = {defs.get(dk)} != {v}")


# ---- record grammar -------------------------------------------------------------------------------------
def _reader_ops_py(fn):
    """Wire operations of a reader in source order: ('varint', target) / ('raw', length var)."""
    ops = []

    def visit(stmts, inloop):
        for s in flatten_const_ifs(stmts):
            if isinstance(s, ast.Assign) and isinstance(s.value, ast.Call) and unparse(s.value.func).endswith("decode_varint"):
                t = s.targets[0]
                nm = unparse(t.elts[0]) if isinstance(t, ast.Tuple) else unparse(t)
                ops.append(("varint", nm, inloop))
            elif isinstance(s, ast.If):
                # `if x_len >= 0: x = buffer[pos:pos+x_len]; pos += x_len else: None` -- whichever arm is written first
                visit(s.body, inloop)
                visit(s.orelse, inloop)
            elif isinstance(s, ast.While) or isinstance(s, ast.For):
                ops.append(("loop", unparse(s.test if isinstance(s, ast.While) else s.iter)[:30], inloop))
                visit(s.body, True)
                ops.append(("endloop", "", inloop))
            elif isinstance(s, ast.AugAssign) and unparse(s.target) == "pos" and isinstance(s.op, ast.Add):
                ops.append(("raw", unparse(s.value), inloop))
            elif isinstance(s, ast.Assign) and isinstance(s.value, ast.Subscript) and unparse(s.value.value) == "buffer":
                pass
    visit(fn.body, False)
    return ops


def _reader_ops_pyx(fn):
    ops = []

    def visit(stmts, inloop):
        for s in flatten_const_ifs(stmts):
            if isinstance(s, ast.Expr) and isinstance(s.value, ast.Call) and call_attr(s.value) == "decode_varint64":
                a = strip_casts(s.value.args[-1])
                ops.append(("varint", unparse(a.args[0]) if isinstance(a, ast.Call) else unparse(a), inloop))
            elif isinstance(s, ast.If):
                visit(s.body, inloop)
                visit(s.orelse, inloop)
            elif isinstance(s, (ast.While, ast.For)):
                ops.append(("loop", unparse(s.test if isinstance(s, ast.While) else s.iter)[:30], inloop))
                visit(s.body, True)
                ops.append(("endloop", "", inloop))
            elif isinstance(s, ast.AugAssign) and unparse(s.target) == "pos" and isinstance(s.op, ast.Add):
                ops.append(("raw", unparse(strip_casts(s.value)), inloop))
    visit(fn.body, False)
    return ops


def _shape(ops):
    """Abstract shape: sequence of V (varint) / R (raw bytes whose length is the preceding varint) / loop markers."""
    out = []
    last_var = None
    for kind, nm, _l in ops:
        if kind == "varint":
            out.append("V")
            last_var = nm
        elif kind == "raw":
            out.append("R" if nm == last_var else f"R?({nm}!={last_var})")
        elif kind == "loop":
            out.append("[")
        elif kind == "endloop":
            out.append("]")
    return "".join(out)


def _null_guard(s, body, orelse):
    """For a nullable field `if T: <N> else: <VR>` (either way round): '' when T is exactly `X is None` / `X is not None` with the
    null marker in the None arm and X the object whose bytes the other arm writes; otherwise a marker that breaks the shape.
    (A truthiness test writes the EMPTY byte string as null: b"" and None are different values on the wire.)"""
    if {body, orelse} != {"N", "VR"}:
        return ""
    t = s.test
    if not (isinstance(t, ast.Compare) and len(t.ops) == 1 and isinstance(t.ops[0], (ast.Is, ast.IsNot)) and isinstance(t.left, ast.Name)
            and isinstance(t.comparators[0], ast.Constant) and t.comparators[0].value is None):
        return f"?guard({unparse(t)[:30]})"
    none_arm = s.body if isinstance(t.ops[0], ast.Is) else s.orelse
    data_arm = s.orelse if isinstance(t.ops[0], ast.Is) else s.body
    if (body if none_arm is s.body else orelse) != "N":
        return f"?null-marker-in-wrong-arm({unparse(t)[:30]})"
    if not any(isinstance(n, ast.Name) and n.id == t.left.id for st in data_arm for n in ast.walk(st)):
        return f"?guard-on-other-object({unparse(t)[:30]})"
    return ""


def _writer_shape_py(fn):
    """encode_varint(...)/write(x)/write_byte(c) sequence of the Python v2 writer's record body."""
    out = []

    def visit(stmts):
        for s in flatten_const_ifs(stmts):
            if isinstance(s, ast.Expr) and isinstance(s.value, ast.Call):
                f = unparse(s.value.func)
                if f == "encode_varint":
                    out.append("V")
                elif f == "write":
                    out.append("R")
                elif f == "write_byte":
                    out.append("N")   # the one byte null marker (varint -1)
                elif f.endswith(".extend") and len(s.value.args) == 1:
                    out.append("X")   # the finished record copied into the batch buffer
            elif isinstance(s, ast.If):
                a, b = len(out), None
                visit(s.body)
                body = out[a:]
                del out[a:]
                visit(s.orelse)
                orelse = out[a:]
                del out[a:]
                out.append("(" + "|".join(sorted(["".join(body), "".join(orelse)])) + ")" + _null_guard(s, "".join(body), "".join(orelse)))   # arms in canonical order: which arm is the `if` is immaterial
            elif isinstance(s, ast.For):
                out.append("[")
                visit(s.body)
                out.append("]")
            elif isinstance(s, ast.Assign) and isinstance(s.value, ast.Call) and unparse(s.value.func) == "bytearray_type":
                out.append("A")   # attributes byte b"\x00"
    visit(fn.body)
    return "".join(out)


def _writer_shape_pyx(fn):
    out = []

    def visit(stmts):
        for s in flatten_const_ifs(stmts):
            if isinstance(s, ast.Expr) and isinstance(s.value, ast.Call):
                f = call_attr(s.value)
                if f in ("encode_varint", "encode_varint64"):
                    a = strip_casts(s.value.args[-1])
                    out.append("N" if unparse(a) == "-1" else "V")
                elif f == "memcpy":
                    out.append("R")
            elif isinstance(s, ast.Assign) and isinstance(s.targets[0], ast.Subscript) and unparse(s.targets[0].value) == "buf":
                out.append("A")
            elif isinstance(s, ast.If):
                a = len(out)
                visit(s.body)
                body = out[a:]
                del out[a:]
                visit(s.orelse)
                orelse = out[a:]
                del out[a:]
                if body or orelse:
                    out.append("(" + "|".join(sorted(["".join(body), "".join(orelse)])) + ")" + _null_guard(s, "".join(body), "".join(orelse)))   # arms in canonical order: which arm is the `if` is immaterial
            elif isinstance(s, ast.For):
                out.append("[")
                visit(s.body)
                out.append("]")
    visit(fn.body)
    return "".join(out)


def rule_record_grammar(ctx, px):
    R = "record-grammar"
    ctx.rep.rule(R, "the v2 record is read and written as the same sequence of wire elements by all four implementations: varint length, "
                    "attributes, varint timestamp delta, varint offset delta, varint-length key, varint-length value, varint header count, "
                    "per header varint-length key and varint-length value; every raw run is sized by the varint immediately before it; "
                    "null is the one-byte varint -1")
    want_reader = "VVVVVRVRV[VRVR]"
    pr = ctx.fn(f"{PYD}._DefaultRecordBatchPy._read_msg")
    sh = _shape(_reader_ops_py(pr.node))
    ctx.ob(R, pr, pr.node, sh == want_reader, f"python reader's element sequence is {sh}, expected {want_reader}", text="py-reader")
    cr = px.fn(f"{DEF}.DefaultRecordBatch._read_msg")
    sh = _shape(_reader_ops_pyx(cr.node))
    ob(ctx, R, cr, cr.node.lineno, "pyx-reader", sh == want_reader, f"compiled reader's element sequence is {sh}, expected {want_reader}")
    # writers: body (after the length varint): A V V (VR|N) (VR|N) V [ V R (VR|N) ]
    want_py = "AVV(N|VR)(N|VR)V[VR(N|VR)]"
    pw = ctx.fn(f"{PYD}._DefaultRecordBatchBuilderPy.append")
    sh = _writer_shape_py(pw.node)
    # the python writer emits type checks first (ifs without wire ops) and the length varint + body copy at the end
    core = sh
    while "(|)" in core:
        core = core.replace("(|)", "")
    ctx.ob(R, pw, pw.node, core.startswith(want_py) and core[len(want_py):] in ("VX", "(|)VX", "V()X"), f"python writer's element sequence is {core}, expected {want_py} then the length varint and the copy of the record into the batch buffer", text="py-writer")
    # the copy appends exactly the buffer the record was encoded into, to the batch buffer the length varint went to
    exts = [x for x in ast.walk(pw.node) if isinstance(x, ast.Call) and isinstance(x.func, ast.Attribute) and x.func.attr == "extend" and len(x.args) == 1 and isinstance(x.args[0], ast.Name)]
    wdef = [x for x in ast.walk(pw.node) if isinstance(x, ast.Assign) and len(x.targets) == 1 and unparse(x.targets[0]) == "write" and isinstance(x.value, ast.Attribute) and x.value.attr == "extend"]
    lenv = [x for x in ast.walk(pw.node) if isinstance(x, ast.Call) and unparse(x.func) == "encode_varint" and len(x.args) == 2 and isinstance(x.args[1], ast.Attribute) and x.args[1].attr == "append"
            and not (isinstance(x.args[1].value, ast.Name) and wdef and unparse(x.args[1].value) == unparse(wdef[0].value.value))]
    okx = len(exts) == 1 and len(wdef) == 1 and exts[0].args[0].id == unparse(wdef[0].value.value) and len(lenv) == 1 and unparse(lenv[0].args[1].value) == unparse(exts[0].func.value) \
        and _resolve_local(pw.node, exts[0].func.value) == "self._buffer"
    ctx.ob(R, pw, pw.node, okx, "python writer: the encoded record is not appended (length varint, then the record's own buffer) to the batch buffer", text="py-writer-copies-record")
    cw = px.fn(f"{DEF}.DefaultRecordBatchBuilder._encode_msg")
    sh = _writer_shape_pyx(cw.node)
    while "(|)" in sh:
        sh = sh.replace("(|)", "")
    want_pyx = "VAVV(N|VR)(N|VR)V[VR(N|VR)]"
    ob(ctx, R, cw, cw.node.lineno, "pyx-writer", sh == want_pyx, f"compiled writer's element sequence is {sh}, expected {want_pyx}")
    # null marker of the python writer is varint(-1) == 0x01
    src = unparse(pw.node)
    ctx.ob(R, pw, pw.node, "zero_len_varint: int=1" in src or "zero_len_varint=1" in src.replace(" ", "").replace(":int", ""), "python writer's null marker is not the byte 0x01 (varint -1)", text="py-null-marker")
    # record length check in both readers
    for fi, is_px in ((pr, False), (cr, True)):
        s = unparse(fi.node)
        okl = "pos - start_pos != length" in s.replace("__cast__('Py_ssize_t', length)", "length")
        if is_px:
            ob(ctx, R, fi, fi.node.lineno, "length-verified", okl, "the reader does not verify the record's declared length against the bytes it consumed")
        else:
            ctx.ob(R, fi, fi.node, okl, "the reader does not verify the record's declared length against the bytes it consumed", text="length-verified")


def rule_legacy_crc(ctx, px):
    R = "crc-order"
    # v0/v1 writers: CRC-32 over [magic byte .. end of the message], computed after every other field of the message was written, stored
    # as uint32 at the CRC offset; the v0 layout has no timestamp field, the v1 layout has one
    pw = ctx.fn(f"{PYL}._LegacyRecordBatchBuilderPy._encode_msg")
    c = ctx.cfg(pw)
    crc = c.calls(name="crc32")
    pk = [n for n in c.nodes if n.kind == "call" and call_attr(n.ast) == "pack_into"]
    ctx.anchor(len(crc) == 1 and len(pk) >= 2, "crc32 / pack_into calls in the legacy Python writer")
    reg = crc[0].ast.args[0]
    inner = reg.value if isinstance(reg, ast.Subscript) else None
    if isinstance(inner, ast.Call) and unparse(inner.func) == "memoryview" and inner.args:
        inner = inner.args[0]
    bufp = pw.params()[1] if len(pw.params()) > 1 else "buf"
    reg_ok = isinstance(reg, ast.Subscript) and isinstance(reg.slice, ast.Slice) and reg.slice.upper is None and reg.slice.step is None and reg.slice.lower is not None \
        and unparse(reg.slice.lower) == "self.MAGIC_OFFSET" and inner is not None and unparse(inner) == "buf"
    store = [n for n in pk if c.path_exists(crc[0], n, exc=False)]
    body_packs = [n for n in pk if n not in store]
    ok = reg_ok and len(store) == 1 and len(body_packs) == 2 and all(c.path_exists(b, crc[0], exc=False) and not c.path_exists(crc[0], b, exc=False) for b in body_packs) \
        and unparse(store[0].ast.args[0]) == "'>I'" and unparse(store[0].ast.args[1]) == "buf" and unparse(store[0].ast.args[2]) == "self.CRC_OFFSET" \
        and isinstance(crc[0].stmt, ast.Assign) and unparse(store[0].ast.args[3]) == unparse(crc[0].stmt.targets[0]) and c.exit not in c.reachable([c.entry], avoid=set(store), exc=False)
    ctx.ob(R, pw, crc[0], ok, "legacy python writer: CRC not computed over [MAGIC_OFFSET:] after the message was written / not stored as uint32 at CRC_OFFSET on every path", text="py-legacy-crc")
    # layout by magic
    from ..rulekit import must_facts
    arms = {}
    for b in body_packs:
        f_ = must_facts(c)[b]
        v0 = any(a[1] == "==" and {a[0], a[2]} >= {"0"} and ("magic" in a[0] or "magic" in a[2]) for a in f_)
        v1 = any((a[1] == "!=" and {a[0], a[2]} >= {"0"} or a[1] == "==" and {a[0], a[2]} >= {"1"}) and ("magic" in a[0] or "magic" in a[2]) for a in f_)
        arms["v0" if v0 else "v1" if v1 else "?"] = b
    okl = set(arms) == {"v0", "v1"}
    if okl:
        n0, n1 = len(arms["v0"].ast.args), len(arms["v1"].ast.args)
        t0 = any(isinstance(x, ast.Name) and x.id == "timestamp" for x in ast.walk(arms["v0"].ast))
        t1 = any(isinstance(x, ast.Name) and x.id == "timestamp" for x in arms["v1"].ast.args)
        okl = n1 == n0 + 1 and t1 and not t0
    ctx.ob(R, pw, pw.node, okl, "legacy python writer: the v0 layout (no timestamp) is not written exactly for magic 0 and the v1 layout (with timestamp) otherwise", text="py-legacy-layout")
    cw = px.fn(f"{LEG}._encode_msg")
    fb = FnBounds(cw)
    cc = fb.cfg
    crc = [n for n in cc.nodes if n.kind == "call" and call_attr(n.ast) == "calc_crc32"]
    packs = [n for n in cc.nodes if n.kind == "call" and call_attr(n.ast) in ("pack_int64", "pack_int32", "pack_int16")]
    ctx.anchor(len(crc) == 1 and len(packs) >= 5, "calc_crc32 / pack calls in the compiled legacy writer")
    after = [p_ for p_ in packs if cc.path_exists(crc[0], p_, exc=False)]
    a = [unparse(strip_casts(x)).replace(" ", "") for x in crc[0].ast.args]
    # DEF constants are folded by the parser: compare with the folded offsets (CRC at +12, magic at +16)
    tgt = unparse(strip_casts(after[0].ast.args[0])).replace(" ", "") if after else ""
    okc = len(after) == 1 and tgt in ("__addr__(buf[start_pos+12])", "__addr__(buf[12+start_pos])") and "crc" in unparse(after[0].ast.args[1]) \
        and a[1] in ("__addr__(buf[start_pos+16])", "__addr__(buf[16+start_pos])") and a[2] in ("pos-(start_pos+16)", "(pos-(start_pos+16))", "pos-start_pos-16")
    ob(ctx, R, cw, crc[0].lineno, "pyx-legacy-crc", okc, f"compiled legacy writer checksums {a[1]} .. {a[2]} and stores at {tgt}; expected [start+16 : pos] stored at start+12 after every other field")
    ts = [p_ for p_ in packs if "start_pos+18" in unparse(strip_casts(p_.ast.args[0])).replace(" ", "")]
    f1 = must_facts(cc)[ts[0]] if ts else frozenset()
    ob(ctx, R, cw, cw.node.lineno, "pyx-legacy-layout", len(ts) == 1 and any(a_[1] == "==" and {a_[0], a_[2]} == {"magic", "1"} or a_[1] == "!=" and {a_[0], a_[2]} == {"magic", "0"} for a_ in f1),
       "compiled legacy writer: the timestamp field is not written exactly for magic 1")


def rule_batch_timestamps(ctx, px):
    R = "record-grammar"
    # the batch header's first / max timestamp and every record's timestamp delta: the first accepted record sets BOTH (delta 0), later
    # records are encoded relative to the first and only raise the maximum
    from ..cfg import CFG
    from ..rulekit import must_facts
    for fi, is_px in ((ctx.fn(f"{PYD}._DefaultRecordBatchBuilderPy.append"), False), (px.fn(f"{DEF}.DefaultRecordBatchBuilder._encode_msg"), True)):
        c = CFG(fi.node, fi.qualname) if is_px else ctx.cfg(fi)
        facts = must_facts(c)

        def first_fact(fs):
            return any("_first_timestamp" in a[0] + a[2] and ((a[1] == "is" and "None" in (a[0], a[2])) or (a[1] == "==" and "-1" in (a[0], a[2]))) for a in (fs or ()))

        def later_fact(fs):
            return any("_first_timestamp" in a[0] + a[2] and ((a[1] == "is not" and "None" in (a[0], a[2])) or (a[1] == "!=" and "-1" in (a[0], a[2]))) for a in (fs or ()))
        from ..rulekit import atoms_of_test
        tests = [t for t in c.nodes if t.kind == "test" and "_first_timestamp" in unparse(t.ast)]
        arm = None
        if len(tests) == 1:
            arm = "T" if first_fact(atoms_of_test(tests[0].ast, True)) else ("F" if first_fact(atoms_of_test(tests[0].ast, False)) else None)
        other = {"T": "F", "F": "T"}.get(arm)

        def in_first(n):
            return arm is not None and c.dominated_by_branch(tests[0], arm, n)

        def in_later(n):
            return other is not None and c.dominated_by_branch(tests[0], other, n)
        st = {k: [n for n in c.nodes if n.kind == "store" and isinstance(n.ast, ast.Attribute) and n.ast.attr == k and unparse(n.ast.value) == "self" and isinstance(n.stmt, ast.Assign)]
              for k in ("_first_timestamp", "_max_timestamp")}
        f1 = [n for n in st["_first_timestamp"] if in_first(n) and unparse(n.stmt.value) == "timestamp"]
        m1 = [n for n in st["_max_timestamp"] if in_first(n) and unparse(n.stmt.value) == "timestamp"]
        okf = len(st["_first_timestamp"]) == 1 and len(f1) == 1 and len(m1) == 1
        dl = [n for n in c.nodes if n.kind == "store" and isinstance(n.ast, ast.Name) and n.ast.id == "timestamp_delta" and isinstance(n.stmt, ast.Assign)]
        d0 = [n for n in dl if unparse(n.stmt.value) == "0" and in_first(n)]
        dn = [n for n in dl if unparse(n.stmt.value).replace(" ", "") == "timestamp-self._first_timestamp" and in_later(n)]
        okd = len(dl) == 2 and len(d0) == 1 and len(dn) == 1
        msg1 = "the first accepted record does not set both the batch's first and max timestamp to its own timestamp (exactly when none was recorded yet)"
        msg2 = "record timestamps are not encoded as 0 for the first record and timestamp - first_timestamp for the others"
        if is_px:
            ob(ctx, R, fi, fi.node.lineno, "first-record-timestamps", okf, msg1)
            ob(ctx, R, fi, fi.node.lineno, "timestamp-delta", okd, msg2)
        else:
            ctx.ob(R, fi, fi.node, okf, msg1, text="first-record-timestamps")
            ctx.ob(R, fi, fi.node, okd, msg2, text="timestamp-delta")


def rule_legacy_iter(ctx, px):
    R = "legacy-iter"
    ctx.rep.rule(R, "both v0/v1 readers turn a compressed wrapper into records the same way: inner offsets are relative (made absolute with "
                    "wrapper offset - last inner offset) exactly for magic > 0 and only when that base is >= 0; the wrapper's timestamp replaces "
                    "the inner one exactly for LOG_APPEND_TIME; the payload is decompressed once (flag tested before, set after); decided on the "
                    "guard facts that hold at each of these statements, in the Python and in the compiled reader")
    from ..cfg import CFG
    from ..rulekit import must_facts

    def has(facts, pred):
        return any(pred(a) for a in (facts or ()))

    def magic_pos(a):
        t = {a[0], a[2]}
        return ("magic" in a[0] or "magic" in a[2]) and ((a[1] in ("<",) and a[0] == "0") or (a[1] == "<=" and a[0] == "1") or (a[1] == "==" and "1" in t) or (a[1] == "!=" and "0" in t))

    def magic_zero(a):
        t = {a[0], a[2]}
        return ("magic" in a[0] or "magic" in a[2]) and ((a[1] == "<=" and a[2] == "0") or (a[1] == "<" and a[2] == "1") or (a[1] == "==" and "0" in t) or (a[1] == "!=" and "1" in t))

    def base_nonneg(a):
        return ("absolute_base_offset" in (a[0], a[2])) and ((a[1] == "<=" and a[0] == "0") or (a[1] == "<" and a[0] == "-1") or (a[1] == "!=" and "-1" in (a[0], a[2])))

    def log_append(a):
        return "timestamp_type" in a[0] + a[2] and ((a[1] == "==" and ("LOG_APPEND_TIME" in a[0] + a[2] or "1" in (a[0], a[2]))) or (a[1] == "!=" and "0" in (a[0], a[2])) or a[1] == "truthy")

    for fi, is_px in ((ctx.fn(f"{PYL}._LegacyRecordBatchPy.__iter__"), False), (px.fn(f"{LEG}.LegacyRecordBatch.__iter__"), True)):
        c = CFG(fi.node, fi.qualname) if is_px else ctx.cfg(fi)
        facts = must_facts(c)

        def report(node, key, ok, msg):
            if is_px:
                ob(ctx, R, fi, getattr(node, "lineno", fi.node.lineno), key, ok, msg)
            else:
                ctx.ob(R, fi, node, ok, msg, text=key)
        base_defs = [n for n in c.nodes if n.kind == "store" and isinstance(n.ast, ast.Name) and n.ast.id == "absolute_base_offset" and isinstance(n.stmt, ast.Assign)]
        rel = [n for n in base_defs if isinstance(strip_casts(n.stmt.value), ast.BinOp) and isinstance(strip_casts(n.stmt.value).op, ast.Sub)]
        neg = [n for n in base_defs if unparse(strip_casts(n.stmt.value)) == "-1"]
        ctx.anchor(len(rel) == 1 and len(neg) == 1, f"absolute_base_offset definitions in {fi.qualname}")
        report(rel[0], "relative-iff-magic1", has(facts[rel[0]], magic_pos) and has(facts[neg[0]], magic_zero),
               "inner offsets are not treated as relative exactly for magic > 0 (v0 wrappers carry absolute inner offsets)")
        txt = unparse(strip_casts(rel[0].stmt.value))
        report(rel[0], "base-is-wrapper-minus-last", ("self._offset - " in txt) or ("self._main_record.offset - " in txt),
               f"the base of the relative offsets is `{txt[:60]}`, not the wrapper's offset minus the last inner offset")
        adds = [n for n in c.nodes if n.kind in ("store", "augstore") and isinstance(n.stmt, ast.AugAssign) and isinstance(n.stmt.op, ast.Add)
                and unparse(n.stmt.value) == "absolute_base_offset" and unparse(n.stmt.target).endswith("offset")]
        ctx.anchor(len(adds) >= 1, f"`offset += absolute_base_offset` in {fi.qualname}")
        report(adds[0], "absolute-iff-base-nonneg", all(has(facts[a_], base_nonneg) for a_ in adds), "the base is added to inner offsets without the `>= 0` guard (a v0 wrapper's -1 would shift every offset)")
        ts = [n for n in c.nodes if n.kind == "store" and isinstance(n.stmt, ast.Assign) and unparse(n.stmt.targets[0]).split(".")[-1] == "timestamp"
              and unparse(strip_casts(n.stmt.value)) in ("self._timestamp", "self._main_record.timestamp")]
        ctx.anchor(len(ts) == 1, f"wrapper timestamp override in {fi.qualname}")
        report(ts[0], "timestamp-iff-log-append", has(facts[ts[0]], log_append), "the wrapper's timestamp replaces the inner one under something other than LOG_APPEND_TIME")
        dec = [n for n in c.nodes if n.kind == "call" and call_attr(n.ast) == "_decompress"]
        flag = [n for n in c.nodes if n.kind == "store" and isinstance(n.ast, ast.Attribute) and n.ast.attr == "_decompressed"]
        okd = len(dec) == 1 and len(flag) == 1 and c.path_exists(dec[0], flag[0], exc=False) and \
            has(facts[dec[0]], lambda a: "_decompressed" in a[0] and (a[1] == "falsy" or (a[1] == "==" and a[2] in ("0", "False")))) and \
            has(facts[dec[0]], lambda a: ("compression" in a[0]) and a[1] == "truthy")
        report(dec[0] if dec else fi.node, "decompress-once", okd, "the payload is not decompressed exactly once, under `compressed and not yet decompressed`, with the flag set afterwards")


def _names(e):
    return {x.id for x in ast.walk(e) if isinstance(x, ast.Name)}


def rule_reader_result(ctx, px):
    R = "record-grammar"
    # what the two v2 readers DO with the elements they decode (the element sequence itself is checked above): the n-th varint feeds
    # the n-th field, the record handed out is built from exactly those locals, headers are collected once per iteration, and the
    # cursor is written back so that the next record starts where this one ended
    for fi, is_px in ((ctx.fn(f"{PYD}._DefaultRecordBatchPy._read_msg"), False), (px.fn(f"{DEF}.DefaultRecordBatch._read_msg"), True)):
        def report(node, key, ok, msg):
            if is_px:
                ob(ctx, R, fi, getattr(node, "lineno", fi.node.lineno), key, ok, msg)
            else:
                ctx.ob(R, fi, node, ok, msg, text=key)
        ops = (_reader_ops_pyx if is_px else _reader_ops_py)(fi.node)
        var = [nm for k, nm, _l in ops if k == "varint"]
        ctx.anchor(len(var) == 9, f"nine varints in {fi.qualname}")
        body = list(flatten_const_ifs(fi.node.body))
        rets = [x for x in ast.walk(fi.node) if isinstance(x, ast.Return) and isinstance(x.value, ast.Call)]
        ctx.anchor(len(rets) == 1, f"one record constructor return in {fi.qualname}")
        call = rets[0].value
        args = [unparse(strip_casts(a)) for a in call.args]
        ok_args = len(args) == 6 and all(isinstance(strip_casts(a), ast.Name) for i, a in enumerate(call.args) if i != 2)
        report(rets[0], "record-args", ok_args, f"the record is built from {args}, expected six positional fields (offset, timestamp, timestamp type, key, value, headers)")
        if not ok_args:
            continue
        n_off, n_ts, _tt, n_key, n_val, n_hdr = args

        def defs_of(nm):
            out = [x for x in ast.walk(fi.node) if isinstance(x, ast.Assign) and len(x.targets) == 1 and isinstance(x.targets[0], ast.Name) and x.targets[0].id == nm]
            out += [x for x in ast.walk(fi.node) if isinstance(x, ast.AnnAssign) and x.value is not None and isinstance(x.target, ast.Name) and x.target.id == nm]
            return out
        # offset = base_offset + 4th varint ; timestamp: max_timestamp | first_timestamp + 3rd varint
        d = defs_of(n_off)
        report(rets[0], "offset-from-delta", len(d) == 1 and var[3] in _names(d[0].value) and "self.base_offset" in unparse(d[0].value) and isinstance(d[0].value, ast.BinOp) and isinstance(d[0].value.op, ast.Add),
               f"the record's offset is not base_offset + the offset-delta varint (`{unparse(d[0].value) if d else '?'}`)")
        d = defs_of(n_ts)
        txt = sorted(unparse(x.value) for x in d)
        report(rets[0], "timestamp-from-delta", len(d) == 2 and any(t == "self.max_timestamp" for t in txt) and
               any(isinstance(x.value, ast.BinOp) and isinstance(x.value.op, ast.Add) and "self.first_timestamp" in unparse(x.value) and var[2] in _names(x.value) for x in d),
               f"the record's timestamp is not max_timestamp (log-append time) / first_timestamp + the timestamp-delta varint ({txt})")
        # ... and which arm is which: max_timestamp is the record's timestamp exactly for LOG_APPEND_TIME batches
        from ..cfg import CFG as _CFG
        from ..rulekit import must_facts as _mf
        cc_ = _CFG(fi.node, fi.qualname) if is_px else ctx.cfg(fi)
        mx = [n_ for n_ in cc_.nodes if n_.kind == "store" and isinstance(n_.ast, ast.Name) and n_.ast.id == n_ts and isinstance(n_.stmt, ast.Assign) and unparse(n_.stmt.value) == "self.max_timestamp"]
        okp = len(mx) == 1 and any(("LOG_APPEND_TIME" in a[0] + a[2] and a[1] == "==") or (a[1] == "truthy" and "attributes &" in a[0]) or
                                   ("timestamp_type" in a[0] + a[2] and ((a[1] == "==" and "1" in (a[0], a[2])) or (a[1] == "!=" and "0" in (a[0], a[2])))) for a in (_mf(cc_)[mx[0]] or ()))
        report(rets[0], "timestamp-polarity", okp, "max_timestamp is not used exactly for LOG_APPEND_TIME batches (CreateTime records would all get the batch's max timestamp, or the reverse)")
        # key / value: data arm reads the length given by the 5th / 6th varint
        for nm, lv, what in ((n_key, var[4], "key"), (n_val, var[5], "value")):
            d = [x for x in defs_of(nm) if not (isinstance(x.value, ast.Constant) and x.value.value is None)]
            report(rets[0], f"{what}-from-length", len(d) == 1 and lv in _names(d[0].value), f"the record's {what} is not the bytes sized by its own length varint `{lv}`")
        # headers
        loops = [x for x in ast.walk(fi.node) if isinstance(x, (ast.While, ast.For))]
        apps = [x for lp in loops for x in ast.walk(lp) if isinstance(x, ast.Call) and call_attr(x) == "append" and unparse(x.func.value) == n_hdr]
        ok_h = len(apps) == 1 and len(apps[0].args) == 1 and isinstance(apps[0].args[0], ast.Tuple) and len(apps[0].args[0].elts) == 2
        if ok_h:
            hk, hv = apps[0].args[0].elts
            dk = [x for x in defs_of(next(iter(_names(hk)), "")) ]
            dv = [x for x in defs_of(unparse(hv)) if not (isinstance(x.value, ast.Constant) and x.value.value is None)]
            ok_h = len(dk) == 1 and var[7] in _names(dk[0].value) and len(dv) == 1 and var[8] in _names(dv[0].value)
            # once per iteration: the append is a top-level statement of the loop body
            lp = [l for l in loops if any(x is apps[0] for x in ast.walk(l))][-1]
            ok_h = ok_h and any(isinstance(st, ast.Expr) and st.value is apps[0] for st in lp.body)
        report(rets[0], "headers-collected", ok_h, "the header loop does not append exactly one (key, value) pair per iteration built from that iteration's two length varints")
        hd = defs_of(n_hdr)
        report(rets[0], "headers-fresh", len(hd) == 1 and isinstance(hd[0].value, (ast.List, ast.Call)) and not any(x is hd[0] for lp in loops for x in ast.walk(lp)),
               "the headers list is not a fresh list created once before the header loop")
        # cursor written back before the return
        st = [x for x in body if isinstance(x, ast.Assign) and unparse(x.targets[0]) == "self._pos"]
        cur = "pos"
        report(rets[0], "cursor-written-back", len(st) == 1 and unparse(st[0].value) == cur and body.index(st[0]) < body.index(rets[0]) if rets[0] in body else False,
               "the cursor after the record is not stored to self._pos before the record is returned: the next record would be decoded from the same bytes")


def rule_crc_order(ctx, px):
    R = "crc-order"
    ctx.rep.rule(R, "both v2 writers compute the CRC after every other header field has been written and over [21:end of the batch], and "
                    "store it at byte 17; build() compresses before the header is written and returns exactly the bytes the header describes")
    wr = px.fn(f"{DEF}.DefaultRecordBatchBuilder._write_header")
    fb = FnBounds(wr)
    c = fb.cfg
    crc = [n for n in c.nodes if n.kind == "call" and call_attr(n.ast) == "calc_crc32c"]
    packs = [n for n in c.nodes if n.kind == "call" and call_attr(n.ast) in ("pack_int64", "pack_int32", "pack_int16")]
    ctx.anchor(len(crc) == 1 and len(packs) >= 11, "calc_crc32c / pack calls in the compiled writer")
    after = [p for p in packs if c.path_exists(crc[0], p, exc=False)]
    okc = len(after) == 1 and "buf[17]" in unparse(strip_casts(after[0].ast.args[0])) and "crc" in unparse(after[0].ast.args[1])
    ob(ctx, R, wr, crc[0].lineno, "pyx-crc-last", okc, f"header fields written after the CRC was computed: {[unparse(p.ast)[:50] for p in after]}")
    a = [unparse(strip_casts(x)) for x in crc[0].ast.args]
    ob(ctx, R, wr, crc[0].lineno, "pyx-crc-region", a[1] == "__addr__(buf[21])" and a[2].replace(" ", "") in ("self._pos-21", "(self._pos-21)"), f"compiled writer checksums {a[1]} .. {a[2]}, expected [21 : self._pos]")
    pw = ctx.fn(f"{PYD}._DefaultRecordBatchBuilderPy._write_header")
    c = ctx.cfg(pw)
    crc = c.calls(name="calc_crc32c")
    pk = [n for n in c.nodes if n.kind == "call" and call_attr(n.ast) == "pack_into"]
    ctx.anchor(len(crc) == 1 and len(pk) == 2, "calc_crc32c / pack_into in the Python writer")
    def _rs(e):
        return _resolve_local(pw.node, e) if isinstance(e, ast.Name) else unparse(e)
    reg = crc[0].ast.args[0]
    reg_ok = isinstance(reg, ast.Subscript) and isinstance(reg.slice, ast.Slice) and reg.slice.upper is None and reg.slice.step is None and reg.slice.lower is not None \
        and unparse(reg.slice.lower) == "self.ATTRIBUTES_OFFSET" and _rs(reg.value) == "self._buffer"
    ok = c.dominates(pk[0], crc[0]) and c.dominates(crc[0], pk[1]) and reg_ok and _rs(pk[1].ast.args[1]) == "self._buffer" and _rs(pk[0].ast.args[0]) == "self._buffer" \
        and unparse(pk[1].ast.args[2]) == "self.CRC_OFFSET" and unparse(pk[1].ast.args[0]) == "'>I'"
    ctx.ob(R, pw, crc[0], ok, "python writer: CRC not computed over [ATTRIBUTES_OFFSET:] after the header fields / not stored as uint32 at CRC_OFFSET", text="py-crc")
    for q, is_px in ((f"{PYD}._DefaultRecordBatchBuilderPy.build", False), (f"{DEF}.DefaultRecordBatchBuilder.build", True)):
        fi = px.fn(q) if is_px else ctx.fn(q)
        c = FnBounds(fi).cfg if is_px else ctx.cfg(fi)
        mc = [n for n in c.nodes if n.kind == "call" and call_attr(n.ast) == "_maybe_compress"]
        wh = [n for n in c.nodes if n.kind == "call" and call_attr(n.ast) == "_write_header"]
        ok = len(mc) == 1 and len(wh) == 1 and c.dominates(mc[0], wh[0])
        if is_px:
            rs = [n for n in c.nodes if n.kind == "call" and call_attr(n.ast) == "PyByteArray_Resize"]
            ok = ok and len(rs) == 1 and unparse(rs[0].ast.args[1]) == "self._pos" and c.dominates(wh[0], rs[0])
            ob(ctx, R, fi, fi.node.lineno, "build-order", ok, "build(): header not written after compression / buffer not trimmed to the batch end")
        else:
            ctx.ob(R, fi, fi.node, ok, "build(): header not written after compression", text="build-order")
            # the header's codec bits describe what _maybe_compress DID (it leaves the records raw when compression does not shrink them)
            okf = False
            if ok:
                a0 = arg_of(wh[0].ast, 0, kw="use_compression_type") if True else None
                src = a0
                if isinstance(a0, ast.Name):
                    ds = [d for d in local_defs(c, a0.id)]
                    src = def_value(ds[0]) if len(ds) == 1 else None
                okf = isinstance(src, ast.Call) and call_attr(src) == "_maybe_compress"
            ctx.ob(R, fi, fi.node, okf, "build(): _write_header is not told whether the records were actually compressed (its default writes the configured codec into the "
                                        "attributes even when _maybe_compress left them raw: readers then decompress raw bytes)", text="header-codec-from-compress-result")


def _single_def(fn, name):
    ds = [n for n in ast.walk(fn) if isinstance(n, ast.Assign) and len(n.targets) == 1 and isinstance(n.targets[0], ast.Name) and n.targets[0].id == name]
    ds += [n for n in ast.walk(fn) if isinstance(n, ast.AnnAssign) and isinstance(n.target, ast.Name) and n.target.id == name and n.value is not None]
    return ds[0].value if len(ds) == 1 else None


def _lin_full(fn, e, consts, depth=0):
    """Linear form of `e` with single-definition locals expanded and parameter defaults / module constants folded."""
    from ..bounds import Lin, lin_of
    e = strip_casts(e)
    x = lin_of(e)
    if x is None:
        return None
    out = Lin(x.const)
    for k, v in x.terms.items():
        rep = None
        if k in consts:
            rep = Lin(consts[k])
        elif k.isidentifier() and depth < 4:
            d = _single_def(fn, k)
            if d is not None:
                r = _lin_full(fn, d, consts, depth + 1)
                if r is not None and (r.terms or True) and not (len(r.terms) == 1 and k in r.terms):
                    # keep opaque definitions (calls) as the variable itself
                    if lin_of(strip_casts(d)) is not None and not isinstance(strip_casts(d), (ast.Subscript,)):
                        rep = r
        out = out + (rep.scale(v) if rep is not None else Lin(0, {k: v}))
    return out


def rule_splitter(ctx, px):
    R = "splitter"
    ctx.rep.rule(R, "both MemoryRecords implementations read the length and the magic of each batch relative to the cursor, hand out the slice "
                    "cursor .. cursor + 12 + length, advance the cursor to its end, yield nothing for a trailing partial batch and pick the "
                    "batch class from that slice's own magic byte (v0/v1 below 2, v2 otherwise)")
    from ..bounds import Lin
    # ---- compiled
    fi = px.fn(f"{MEM}.MemoryRecords._get_next")
    fb = FnBounds(fi)
    c = fb.cfg
    reads = fb.reads()
    lens = [r for r in reads if r.kind == "fixed" and r.size == 4]
    mags = [r for r in reads if r.kind == "byte"]
    ctx.anchor(len(lens) == 1 and len(mags) == 1, "length read and magic read in the compiled splitter")
    consts = {}
    li = _lin_full(fi.node, lens[0].index, consts)
    mi = _lin_full(fi.node, mags[0].index, consts)
    cur = [k for k in (li.terms if li else {}) ]
    ob(ctx, R, fi, lens[0].lineno, "length-relative", li is not None and li.const == 8 and len(li.terms) == 1 and list(li.terms.values()) == [1], f"length is read at {li}, expected cursor + 8")
    ob(ctx, R, fi, mags[0].lineno, "magic-relative", mi is not None and li is not None and mi.const == 16 and mi.terms == li.terms, f"magic is read at {mi}, expected cursor + 16 (same cursor as the length read)")
    # the length variable: target of the statement containing the length read
    lstmt = lens[0].node.stmt
    lvar = unparse(lstmt.targets[0]) if isinstance(lstmt, ast.Assign) else None
    # constructor calls: (buffer, start, end, magic)
    news = [n for n in c.nodes if n.kind == "call" and isinstance(n.ast.func, ast.Attribute) and n.ast.func.attr == "new" and len(n.ast.args) >= 3]
    ctx.anchor(len(news) == 2, "two batch constructors in the compiled splitter")
    for n in news:
        a = _lin_full(fi.node, n.ast.args[1], consts)
        b = _lin_full(fi.node, n.ast.args[2], consts)
        d = (b - a) if a is not None and b is not None else None
        ok = d is not None and li is not None and a.terms == li.terms and a.const == 0 and d.const == 12 and d.terms == {lvar: 1}
        ob(ctx, R, fi, n.lineno, "slice:" + unparse(n.ast.func.value), ok, f"batch is built over [{a} : {b}], expected [cursor : cursor + 12 + length]")
    st = [n for n in c.nodes if n.kind == "store" and unparse(n.ast) == "self._pos"]
    okc = len(st) == 1
    if okc:
        v = _lin_full(fi.node, st[0].stmt.value, consts)
        okc = v is not None and li is not None and v.const == 12 and v.terms == {**li.terms, lvar: 1} and all(c.dominates(st[0], n) for n in news)
        s_in = fb.IN.get(st[0])
        fb._cur = s_in
        okp = s_in is not None and fb._covered(fb._lin(st[0].stmt.value, st[0]), s_in)
        ob(ctx, R, fi, st[0].lineno, "partial-ignored", okp, "the cursor can be advanced past the end of the buffer: a trailing partial batch is not ignored")
    ob(ctx, R, fi, fi.node.lineno, "cursor-advance", okc, "the cursor is not advanced to cursor + 12 + length before the batch is handed out")
    nones = [n for n in c.nodes if n.kind == "return" and isinstance(n.ast.value, ast.Constant) and n.ast.value.value is None]
    ob(ctx, R, fi, fi.node.lineno, "partial-returns-none", len(nones) >= 2, "fewer than two `return None` exits (incomplete header / incomplete batch)")
    # class by magic
    mstmt = mags[0].node.stmt
    mvar = unparse(mstmt.targets[0]) if isinstance(mstmt, ast.Assign) else None
    mt = [t for t in c.nodes if t.kind == "test" and isinstance(t.ast, ast.Compare) and unparse(t.ast.left) == mvar and isinstance(t.ast.comparators[0], ast.Constant)]
    okm = len(mt) == 1 and mvar is not None
    if okm:
        op, k = type(t := mt[0].ast.ops[0]), mt[0].ast.comparators[0].value
        legacy_label = {(ast.Lt, 2): "T", (ast.LtE, 1): "T", (ast.GtE, 2): "F", (ast.Gt, 1): "F"}.get((op, k))
        okm = legacy_label is not None
        if okm:
            lb_ = c.reachable([m for m, l in mt[0].succ if l == legacy_label], exc=False, include_src=True)
            ob_ = c.reachable([m for m, l in mt[0].succ if l != legacy_label and l in ("T", "F")], exc=False, include_src=True)
            okm = any(n in lb_ and unparse(n.ast.func.value) == "LegacyRecordBatch" for n in news) and any(n in ob_ and unparse(n.ast.func.value) == "DefaultRecordBatch" for n in news) \
                and not any(n in ob_ and unparse(n.ast.func.value) == "LegacyRecordBatch" for n in news)
    ob(ctx, R, fi, fi.node.lineno, "class-by-magic", okm, "batch class is not chosen by the slice's magic byte (legacy below 2, default otherwise)")
    # ---- python
    mod = ctx.repo.module(PYM)
    envm = ConstEnv(mod.tree, "_MemoryRecordsPy")
    pf = ctx.fn(f"{PYM}._MemoryRecordsPy._cache_next")
    consts = {}
    a = pf.node.args
    for arg, dflt in zip(a.args[len(a.args) - len(a.defaults):], a.defaults):
        try:
            consts[arg.arg] = envm.eval(dflt)
        except Exception:
            pass
    ctx.ob(R, pf, pf.node, envm.get("LENGTH_OFFSET") == 8 and envm.get("LOG_OVERHEAD") == 12 and envm.get("MAGIC_OFFSET") == 16, "python splitter constants", text="py-consts")
    up = [n for n in ast.walk(pf.node) if isinstance(n, ast.Call) and call_attr(n) == "unpack_from" and len(n.args) == 3]
    sl = [n for n in ast.walk(pf.node) if isinstance(n, ast.Assign) and unparse(n.targets[0]) == "self._next_slice" and isinstance(n.value, ast.Subscript) and isinstance(n.value.slice, ast.Slice)]
    ps = [n for n in ast.walk(pf.node) if isinstance(n, ast.Assign) and unparse(n.targets[0]) == "self._pos"]
    ctx.anchor(len(up) == 1 and len(sl) == 1 and len(ps) == 1, "length read, slice and cursor store in the Python splitter")
    li = _lin_full(pf.node, up[0].args[2], consts)
    lo = _lin_full(pf.node, sl[0].value.slice.lower, consts)
    hi = _lin_full(pf.node, sl[0].value.slice.upper, consts)
    pv = _lin_full(pf.node, ps[0].value, consts)
    # the length variable
    lvar = None
    for n in ast.walk(pf.node):
        if isinstance(n, (ast.Assign, ast.AnnAssign)) and n.value is not None and any(x is up[0] for x in ast.walk(n.value)):
            tg = n.targets[0] if isinstance(n, ast.Assign) else n.target
            if isinstance(tg, (ast.Tuple, ast.List)) and len(tg.elts) == 1:      # (length,) = struct.unpack_from(...)
                tg = tg.elts[0]
            lvar = unparse(tg)
    ok = li is not None and lo is not None and hi is not None and pv is not None and unparse(up[0].args[0]) in ("'>i'",) \
        and (li - lo).terms == {} and (li - lo).const == 8 and (hi - lo).const == 12 and (hi - lo).terms == {lvar: 1} and (pv - hi).terms == {} and (pv - hi).const == 0 \
        and lo.terms == {"self._pos": 1} and lo.const == 0
    ctx.ob(R, pf, pf.node, ok, f"python splitter: length at {li}, slice [{lo}:{hi}], cursor <- {pv}; expected cursor+8, [cursor:cursor+12+length], cursor+12+length", text="py-slice")
    c = ctx.cfg(pf)
    stn = [n for n in c.nodes if n.kind == "store" and unparse(n.ast) == "self._next_slice" and n.stmt is sl[0]]
    tests = [t for t in c.nodes if t.kind == "test" and isinstance(t.ast, ast.Compare)]
    fbp = FnBounds(pf, len_texts=("buffer_len", "len(buffer)"), cursors=("pos", "self._pos"), pointer_names={}, consts=consts)
    psn = [n for n in fbp.cfg.nodes if n.kind == "store" and unparse(n.ast) == "self._pos"][0]
    s_in = fbp.IN.get(psn)
    fbp._cur = s_in
    okp = s_in is not None and fbp._covered(fbp._lin(ps[0].value, psn), s_in)
    ctx.ob(R, pf, ps[0], okp, "python splitter: the cursor can be advanced past the end of the buffer (trailing partial batch not ignored)", text="py-partial-ignored")
    pn = ctx.fn(f"{PYM}._MemoryRecordsPy.next_batch")
    consts2 = {}
    a = pn.node.args
    for arg, dflt in zip(a.args[len(a.args) - len(a.defaults):], a.defaults):
        try:
            consts2[arg.arg] = envm.eval(dflt)
        except Exception:
            pass
    mg = [n for n in ast.walk(pn.node) if isinstance(n, ast.Assign) and isinstance(n.value, ast.Subscript) and not isinstance(n.value.slice, ast.Slice)]
    okm = False
    if len(mg) == 1:
        idx = _lin_full(pn.node, mg[0].value.slice, consts2)
        src = unparse(mg[0].value.value)
        mvar = unparse(mg[0].targets[0])
        if idx is not None and idx.const == 16 and not idx.terms:
            # every hand-out of a v2 batch is guarded by magic >= 2, every hand-out of a legacy batch by magic < 2 (facts on all paths)
            from ..rulekit import must_facts
            cn = ctx.cfg(pn)
            mf = must_facts(cn)
            rets = [r for r in cn.nodes if r.kind == "return" and isinstance(r.ast.value, ast.Call)]
            d_ok = [r for r in rets if unparse(r.ast.value) == f"DefaultRecordBatch({src})"]
            l_ok = [r for r in rets if unparse(r.ast.value) == f"LegacyRecordBatch({src}, {mvar})"]
            okm = len(d_ok) >= 1 and len(l_ok) >= 1 and len(d_ok) + len(l_ok) == len(rets) \
                and all(("2", "<=", mvar) in mf[r] or ("1", "<", mvar) in mf[r] for r in d_ok) \
                and all((mvar, "<", "2") in mf[r] or (mvar, "<=", "1") in mf[r] for r in l_ok)
    ctx.ob(R, pn, pn.node, okm, "python splitter: class not chosen from the handed-out slice's own magic byte (index 16)", text="py-class-by-magic")


def rule_crc_table(ctx):
    R = "crc-table"
    ctx.rep.rule(R, "the 256 literals of the pure-Python CRC-32C table are the table of the reflected Castagnoli polynomial 0x82F63B78, and the "
                    "update step is table[(crc ^ byte) & 0xFF] ^ (crc >> 8) with initial value and final xor 0xFFFFFFFF")
    mod = ctx.repo.module("aiokafka.record._crc32c")
    table = None
    for n in ast.walk(mod.tree):
        if isinstance(n, (ast.Assign, ast.AnnAssign)):
            v = n.value
            if isinstance(v, (ast.Tuple, ast.List)) and len(v.elts) == 256 and all(isinstance(e, ast.Constant) for e in v.elts):
                table = [e.value for e in v.elts]
    fi = ctx.fn("aiokafka.record._crc32c.crc_update")
    ctx.anchor(table is not None, "256-entry CRC table literal")
    ref = []
    for i in range(256):
        c = i
        for _ in range(8):
            c = (c >> 1) ^ 0x82F63B78 if c & 1 else c >> 1
        ref.append(c)
    bad = [i for i in range(256) if table[i] != ref[i]]
    ctx.ob(R, fi, fi.node, not bad, f"CRC-32C table entries {bad[:5]} differ from the Castagnoli table", text="table")
    s = unparse(fi.node)
    ctx.ob(R, fi, fi.node, "CRC_TABLE[(crc ^ b) & 255] ^ crc >> 8 & 4294967295" in s.replace("0xFF", "255") or ("(crc ^ b) & 255" in s and "crc >> 8" in s), "update step is not table[(crc ^ byte) & 0xFF] ^ (crc >> 8)", text="step")


# ---- refuse-is-pure -------------------------------------------------------------------------------------------
def _feasible_paths_to(c, targets, limit=4000):
    """Paths entry -> target with a tiny constant propagation over locals assigned constants (prunes `if not first_message`)."""
    out = []
    for t in targets:
        for p in enum_paths(c, c.entry, [t], exc=False, limit=limit):
            env = {}
            ok = True
            for a, b in zip(p, p[1:]):
                if a.kind == "store" and isinstance(a.ast, ast.Name):
                    st = a.stmt
                    if isinstance(st, ast.Assign) and len(st.targets) == 1 and st.targets[0] is a.ast and isinstance(st.value, ast.Constant):
                        env[a.ast.id] = st.value.value
                    else:
                        env.pop(a.ast.id, None)
                if a.kind == "test" and isinstance(a.ast, ast.Name) and a.ast.id in env:
                    lab = [l for m, l in a.succ if m is b and l in ("T", "F")]
                    if lab and (lab[0] == "T") != bool(env[a.ast.id]):
                        ok = False
                        break
            if ok:
                out.append(p)
    return out


def rule_refuse_pure(ctx, px):
    R = "refuse-is-pure"
    ctx.rep.rule(R, "a record that append() refuses because the batch is full leaves the builder untouched: on every feasible path to "
                    "`return None` no builder field is written and no byte is emitted; on every accepting path the record count, last offset "
                    "and maximum timestamp are updated after the size check")
    targets = (
        (f"{PYD}._DefaultRecordBatchBuilderPy.append", False, ("_max_timestamp", "_num_records", "_last_offset")),
        (f"{DEF}.DefaultRecordBatchBuilder.append", True, ()),
        (f"{PYL}._LegacyRecordBatchBuilderPy.append", False, ("_pos",)),
        (f"{LEG}.LegacyRecordBatchBuilder.append", True, ()),
    )
    n_ret = 0
    for q, is_px, must_update in targets:
        fi = px.fn(q) if is_px else ctx.fn(q)
        c = FnBounds(fi).cfg if is_px else ctx.cfg(fi)
        rets = [n for n in c.nodes if n.kind == "return" and isinstance(n.ast.value, ast.Constant) and n.ast.value.value is None]
        ctx.anchor(len(rets) >= 1, f"`return None` (batch full) in {q}")
        n_ret += len(rets)
        paths = _feasible_paths_to(c, rets)
        bad = []
        for p in paths:
            for n in p:
                if n.kind == "store" and isinstance(n.ast, ast.Attribute) and unparse(n.ast.value) == "self":
                    bad.append(n)
                if n.kind == "call" and (call_attr(n.ast) in ("_encode_msg", "extend", "PyByteArray_Resize") or
                                         (call_attr(n.ast) == "append" and "buffer" in unparse(n.ast.func.value))):
                    bad.append(n)
        bad = sorted({(b.lineno, unparse(b.ast)[:50]) for b in bad})
        txt = f"{len(paths)} feasible refusing paths"
        if is_px:
            ob(ctx, R, fi, rets[0].lineno, "pure", not bad, f"builder state written before the record is refused: {bad}")
        else:
            ctx.ob(R, fi, rets[0], not bad, f"builder state written before the record is refused: {bad}", text="pure")
        # accepting paths: required updates dominated by the size test's accepting branch
        for attr in must_update:
            st = [n for n in c.nodes if n.kind == "store" and isinstance(n.ast, ast.Attribute) and n.ast.attr == attr and unparse(n.ast.value) == "self"]
            st = [n for n in st if all(c.path_exists(n, e, exc=False) is not None for e in [c.exit])]
            okk = bool(st) and any(not any(c.path_exists(s, r, exc=False) for r in rets) for s in st)
            if is_px:
                ob(ctx, R, fi, fi.node.lineno, f"accept-updates:{attr}", okk, f"{attr} is not updated after the size check on the accepting path")
            else:
                ctx.ob(R, fi, fi.node, okk, f"{attr} is not updated after the size check on the accepting path", text=f"accept-updates:{attr}")
    # the compiled v2 builder updates its counters inside _encode_msg, which append calls only after the size check
    fi = px.fn(f"{DEF}.DefaultRecordBatchBuilder.append")
    c = FnBounds(fi).cfg
    rets = [n for n in c.nodes if n.kind == "return" and isinstance(n.ast.value, ast.Constant) and n.ast.value.value is None]
    enc = [n for n in c.nodes if n.kind == "call" and call_attr(n.ast) == "_encode_msg"]
    ok = len(enc) == 1 and not any(c.path_exists(enc[0], r, exc=False) for r in rets)
    ob(ctx, R, fi, fi.node.lineno, "encode-after-check", ok, "_encode_msg (which updates max timestamp / count / last offset) can run before the record is refused")
    em = px.fn(f"{DEF}.DefaultRecordBatchBuilder._encode_msg")
    stores = {n.targets[0].attr for n in ast.walk(em.node) if isinstance(n, (ast.Assign,)) and isinstance(n.targets[0], ast.Attribute) and unparse(n.targets[0].value) == "self"} | \
             {n.target.attr for n in ast.walk(em.node) if isinstance(n, ast.AugAssign) and isinstance(n.target, ast.Attribute)}
    # ... or in append itself, after the size check (a store from which no refusing return is reachable)
    for n in c.nodes:
        if n.kind == "store" and isinstance(n.ast, ast.Attribute) and unparse(n.ast.value) == "self" and not any(c.path_exists(n, r, exc=False) for r in rets):
            stores.add(n.ast.attr)
    ob(ctx, R, em, em.node.lineno, "accept-updates", {"_max_timestamp", "_num_records", "_last_offset"} <= stores, f"an accepted record updates only {sorted(stores)} (max timestamp, record count and last offset are all needed by the header)")
    # who else writes the timestamp / count fields of the v2 builders
    for q, is_px in ((f"{DEF}.DefaultRecordBatchBuilder", True), (f"{PYD}._DefaultRecordBatchBuilderPy", False)):
        funcs = [f for k, f in (px.funcs.items() if is_px else ctx.repo.funcs.items()) if k.startswith(q + ".")]
        for attr in ("_max_timestamp", "_first_timestamp", "_num_records", "_last_offset"):
            writers = set()
            for f in funcs:
                for n in ast.walk(f.node):
                    tg = n.targets if isinstance(n, ast.Assign) else ([n.target] if isinstance(n, (ast.AugAssign, ast.AnnAssign)) else [])
                    for t in tg:
                        if isinstance(t, ast.Attribute) and t.attr == attr and unparse(t.value) == "self":
                            writers.add(f.name)
            allowed = {"__init__", "__cinit__", "_encode_msg", "append"}
            f0 = funcs[0]
            if is_px:
                ob(ctx, R, f0, f0.node.lineno, f"writers:{attr}", writers <= allowed and writers, f"{attr} written by {sorted(writers)}")
            else:
                ctx.ob(R, f0, f0.node, writers <= allowed and bool(writers), f"{attr} written by {sorted(writers)}", text=f"writers:{attr}")
    ctx.anchor(n_ret >= 4, "refusing returns in the four builders")


def rule_next_offset(ctx, px):
    R = "next-offset"
    ctx.rep.rule(R, "next_offset of a v2 batch is base_offset + last_offset_delta + 1 in both implementations; of a legacy batch the wrapper's offset + 1")
    pf = ctx.fn(f"{PYD}._DefaultRecordBatchPy.next_offset")
    def _ret(f):
        v = only_return_value(f.node)
        return unparse(v) if v is not None else None
    ctx.ob(R, pf, pf.node, _ret(pf) == "self.base_offset + self.last_offset_delta + 1", "python v2 next_offset", text="py-v2")
    cf = px.fn(f"{DEF}.DefaultRecordBatch.next_offset")
    ob(ctx, R, cf, cf.node.lineno, "pyx-v2", _ret(cf) == "self.base_offset + self.last_offset_delta + 1", "compiled v2 next_offset")
    cl = px.fn(f"{LEG}.LegacyRecordBatch.next_offset")
    ob(ctx, R, cl, cl.node.lineno, "pyx-legacy", _ret(cl) == "self._main_record.offset + 1", "compiled legacy next_offset")
    pl = ctx.fn(f"{PYL}._LegacyRecordBatchPy.next_offset")
    ctx.ob(R, pl, pl.node, _ret(pl) == "self._offset + 1", "python legacy next_offset", text="py-legacy")


def rule_mask_compare(ctx, px):
    R = "mask-compare"
    ctx.rep.rule(R, "a value obtained by masking attribute bits (`x = attrs & MASK`) is only compared with constants that the mask can produce "
                    "(C & MASK == C): comparing the raw timestamp-type bit (0 or 8) with the normalised constant 1 is never true, so the "
                    "LogAppendTime handling of one implementation silently disappears")
    n_cmp = 0
    funcs = [(f, True) for q, f in px.funcs.items() if ".LegacyRecordBatch." in q or ".DefaultRecordBatch." in q or ".LegacyRecord." in q or ".DefaultRecord." in q]
    funcs += [(f, False) for q, f in ctx.repo.funcs.items() if q.startswith((PYD + "._DefaultRecordBatchPy", PYL + "._LegacyRecordBatchPy"))]
    consts_py = {}
    for cname in ("DefaultRecordBase", "LegacyRecordBase"):
        mod = ctx.repo.module(PYD if cname.startswith("Default") else PYL)
        env = ConstEnv(mod.tree, cname)
        for k, v in env.vals.items():
            if isinstance(v, int) and not isinstance(v, bool):
                consts_py[f"self.{k}"] = v
    for fi, is_px in funcs:
        masked = {}
        for n in ast.walk(fi.node):
            if isinstance(n, ast.Assign) and len(n.targets) == 1 and isinstance(n.targets[0], ast.Name):
                v = strip_casts(n.value)
                if isinstance(v, ast.BinOp) and isinstance(v.op, ast.BitAnd):
                    for side in (v.left, v.right):
                        side = strip_casts(side)
                        mval = side.value if isinstance(side, ast.Constant) and isinstance(side.value, int) else consts_py.get(unparse(side))
                        if isinstance(mval, int) and not isinstance(mval, bool):
                            nm = n.targets[0].id
                            others = [m for m in ast.walk(fi.node) if isinstance(m, (ast.Assign, ast.AugAssign)) and m is not n and any(
                                isinstance(t, ast.Name) and t.id == nm for t in (m.targets if isinstance(m, ast.Assign) else [m.target]))]
                            if not others:
                                masked[nm] = mval
        for n in ast.walk(fi.node):
            if isinstance(n, ast.Compare) and len(n.ops) == 1 and isinstance(n.ops[0], (ast.Eq, ast.NotEq)):
                l, r = strip_casts(n.left), strip_casts(n.comparators[0])
                for a, b in ((l, r), (r, l)):
                    if isinstance(a, ast.Name) and a.id in masked:
                        cval = b.value if isinstance(b, ast.Constant) and isinstance(b.value, int) else consts_py.get(unparse(b))
                        if isinstance(cval, int) and not isinstance(cval, bool):
                            n_cmp += 1
                            ok = (cval & masked[a.id]) == cval
                            msg = f"`{unparse(n)}`: `{a.id}` is `... & {masked[a.id]:#x}` and can never equal {cval}"
                            if is_px:
                                ob(ctx, R, fi, n.lineno, f"cmp:{a.id}:{cval}", ok, msg)
                            else:
                                ctx.ob(R, fi, n, ok, msg, text=f"cmp:{a.id}:{cval}")
    ctx.anchor(n_cmp >= 1, "comparisons of masked attribute values in the record readers")



# ---- xerial snappy framing (aiokafka.codec) ---------------------------------------------------------------------------------
def rule_gzip_members(ctx):
    R = "gzip-members"
    ctx.rep.rule(R, "gzip_decode returns the WHOLE payload: a gzip stream may consist of several members (RFC 1952; producers that compress in "
                    "chunks write them) and the v0/v1 wrapper has no inner count that would reveal a truncated message set, so the decoder reads "
                    "through GzipFile.read() / gzip.decompress (which continue across members), not through a one-shot zlib decompress that stops "
                    "after the first member and ignores the rest; gzip_encode writes through GzipFile and returns the buffer after close()")
    fi = ctx.fn("aiokafka.codec.gzip_decode")
    c = ctx.cfg(fi)
    p0 = fi.params()[0]
    rets = [r for r in c.nodes if r.kind == "return"]
    ok, why = bool(rets), "no return"
    for r in rets:
        v = r.ast.value
        if isinstance(v, ast.Name):
            ds = local_defs(c, v.id)
            v = def_value(ds[0]) if len(ds) == 1 else v
        good = False
        if isinstance(v, ast.Call) and unparse(v.func) == "gzip.decompress" and v.args and unparse(v.args[0]) == p0:
            good = True
        elif isinstance(v, ast.Call) and isinstance(v.func, ast.Attribute) and v.func.attr == "read" and not v.args and isinstance(v.func.value, ast.Name):
            gd = local_defs(c, v.func.value.id)
            gv = def_value(gd[0]) if len(gd) == 1 else None
            if isinstance(gv, ast.Call) and unparse(gv.func) in ("gzip.GzipFile", "GzipFile", "gzip.open"):
                fo = arg_of(gv, kw="fileobj") or (gv.args[0] if gv.args and unparse(gv.func) == "gzip.open" else None)
                if isinstance(fo, ast.Name):
                    bd = local_defs(c, fo.id)
                    bv = def_value(bd[0]) if len(bd) == 1 else None
                    good = isinstance(bv, ast.Call) and unparse(bv.func) in ("io.BytesIO", "BytesIO") and bv.args and unparse(bv.args[0]) == p0
        if not good:
            ok, why = False, f"returns `{unparse(r.ast.value)[:50]}`" + (f" = `{unparse(v)[:60]}`" if v is not r.ast.value else "")
    ctx.ob(R, fi, fi.node, ok, f"gzip_decode {why}: not a read of the whole (possibly multi-member) gzip stream of the payload -- a one-shot decompress stops after the first "
                               "member, the batch decodes to fewer records and the position moves past the rest", text="decode-all-members")
    fe = ctx.fn("aiokafka.codec.gzip_encode")
    ce = ctx.cfg(fe)
    wr = [n for n in ce.calls(attr="write")]
    cl = [n for n in ce.calls(attr="close")]
    re_ = [r for r in ce.nodes if r.kind == "return"]
    oke = len(wr) == 1 and unparse(arg_of(wr[0].ast, 0)) == fe.params()[0] and len(cl) >= 1 and len(re_) == 1 and re_[0] not in ce.reachable([wr[0]], avoid=set(cl), exc=False) \
        and isinstance(re_[0].ast.value, ast.Call) and call_attr(re_[0].ast.value) == "getvalue"
    if not oke:
        # or the one-call form
        oke = len(re_) == 1 and isinstance(re_[0].ast.value, ast.Call) and unparse(re_[0].ast.value.func) == "gzip.compress" and unparse(re_[0].ast.value.args[0]) == fe.params()[0]
    ctx.ob(R, fe, fe.node, oke, "gzip_encode does not write the whole payload through a gzip writer and return the buffer after it was closed (trailer written)", text="encode-closed")


def rule_xerial(ctx):
    R = "xerial-framing"
    ctx.rep.rule(R, "snappy_decode's block scan (the 16-byte xerial header, then [int32 length][block] ...): cursor and loop bound are "
                    "offsets into the same buffer -- the bound is exactly the length of the buffer the cursor indexes, and the first "
                    "block is read at payload offset 16 = calcsize of the header format (linear resolution of the locals through their "
                    "single definitions); the cursor moves by 4 and then to cursor + block_size, the slice decompressed is [cursor:end]. "
                    "snappy_encode writes the header fields, then per chunk the big-endian int32 length of the compressed block and the block")
    import struct as _struct
    fi = ctx.fn("aiokafka.codec.snappy_decode")
    c = ctx.cfg(fi)
    mod = ctx.repo.module("aiokafka.codec")
    fmt = None
    for st in mod.tree.body:
        if isinstance(st, ast.Assign) and unparse(st.targets[0]) == "_XERIAL_V1_FORMAT" and isinstance(st.value, ast.Constant):
            fmt = st.value.value
    ctx.anchor(isinstance(fmt, str), "_XERIAL_V1_FORMAT literal")
    hdr = _struct.calcsize("!" + fmt)
    ctx.ob(R, fi, fi.node, hdr == 16, f"xerial header format {fmt!r} is {hdr} bytes, the format has 16", text="header-size")
    pay = fi.params()[0]
    loops = [h for h in c.nodes if h.kind == "loop" and isinstance(h.ast, ast.While)]
    ctx.anchor(len(loops) == 1, "one block loop in snappy_decode")
    loop = loops[0].ast

    def single_def(name):
        ds = [n for n in ast.walk(fi.node) if isinstance(n, ast.Assign) and len(n.targets) == 1 and isinstance(n.targets[0], ast.Name) and n.targets[0].id == name]
        outside = [d for d in ds if not any(d is x for x in ast.walk(loop))]
        return outside[0].value if len(outside) == 1 else None

    def buf(e, depth=0):
        """(offset of the buffer expression's first byte in payload, True) or None."""
        if depth > 6:
            return None
        if isinstance(e, ast.Name):
            if e.id == pay:
                return 0
            d = single_def(e.id)
            return buf(d, depth + 1) if d is not None else None
        if isinstance(e, ast.Call) and unparse(e.func) in ("memoryview", "bytes", "bytearray") and len(e.args) == 1:
            return buf(e.args[0], depth + 1)
        if isinstance(e, ast.Subscript) and isinstance(e.slice, ast.Slice) and e.slice.upper is None and e.slice.step is None:
            b = buf(e.value, depth + 1)
            k = val(e.slice.lower, depth + 1) if e.slice.lower is not None else (0, 0)
            if b is None or k is None or k[0] != 0:
                return None
            return b + k[1]
        return None

    def val(e, depth=0):
        """integer expression as (coefficient of len(payload), constant) or None."""
        if depth > 6:
            return None
        if isinstance(e, ast.Constant) and isinstance(e.value, int):
            return (0, e.value)
        if isinstance(e, ast.Name):
            d = single_def(e.id)
            return val(d, depth + 1) if d is not None else None
        if isinstance(e, ast.Call) and unparse(e.func) == "len" and len(e.args) == 1:
            b = buf(e.args[0], depth + 1)
            return (1, -b) if b is not None else None
        if isinstance(e, ast.Call) and unparse(e.func) == "struct.calcsize" and len(e.args) == 1:
            a = e.args[0]
            txt = None
            if isinstance(a, ast.Constant) and isinstance(a.value, str):
                txt = a.value
            elif isinstance(a, ast.BinOp) and isinstance(a.op, ast.Add) and isinstance(a.left, ast.Constant) and unparse(a.right) == "_XERIAL_V1_FORMAT":
                txt = a.left.value + fmt
            try:
                return (0, _struct.calcsize(txt)) if txt is not None else None
            except Exception:
                return None
        if isinstance(e, ast.BinOp) and isinstance(e.op, (ast.Add, ast.Sub)):
            a, b = val(e.left, depth + 1), val(e.right, depth + 1)
            if a is None or b is None:
                return None
            sg = 1 if isinstance(e.op, ast.Add) else -1
            return (a[0] + sg * b[0], a[1] + sg * b[1])
        return None
    t = loop.test
    ok_form = isinstance(t, ast.Compare) and len(t.ops) == 1 and isinstance(t.ops[0], (ast.Lt, ast.NotEq)) and isinstance(t.left, ast.Name)
    ctx.anchor(ok_form, "block loop test `cursor < bound`")
    cur = t.left.id
    bound = val(t.comparators[0])
    start = val(ast.Name(id=cur, ctx=ast.Load()))
    # the buffer the cursor indexes inside the loop
    bufs = set()
    for n in ast.walk(loop):
        if isinstance(n, ast.Subscript) and isinstance(n.slice, ast.Slice) and n.slice.lower is not None and cur in {x.id for x in ast.walk(n.slice.lower) if isinstance(x, ast.Name)}:
            bufs.add(unparse(n.value))
        if isinstance(n, ast.Call) and unparse(n.func) == "struct.unpack_from" and len(n.args) == 3 and cur in {x.id for x in ast.walk(n.args[2]) if isinstance(x, ast.Name)}:
            bufs.add(unparse(n.args[1]))
    okb = len(bufs) == 1
    base = buf(ast.parse(next(iter(bufs)), mode="eval").body) if okb else None
    okb = okb and base is not None and bound is not None and start is not None
    if okb:
        # bound == len(buffer)  and  first block at payload offset == header size
        okb = bound == (1, -base) and start[0] == 0 and start[1] + base == hdr
    ctx.ob(R, fi, loops[0], okb, f"block scan of snappy_decode: bound {bound} (coefficient of len(payload), constant) over a buffer starting at payload offset {base}, "
                                 f"cursor starting at {start}: the scan must begin at offset {hdr} and end exactly at the end of the buffer it indexes "
                                 "(a shorter bound silently drops the final block)", text="scan-covers-buffer")
    # cursor movement (locals of the loop body resolved through their single definition in the loop)
    def in_loop_def(name):
        ds = [n for n in ast.walk(loop) if isinstance(n, ast.Assign) and len(n.targets) == 1 and isinstance(n.targets[0], ast.Name) and n.targets[0].id == name]
        return ds[0].value if len(ds) == 1 else None

    def res(e):
        if isinstance(e, ast.Name) and e.id != cur:
            d = in_loop_def(e.id)
            if d is not None:
                return d
        return e
    adv4 = any(isinstance(n, ast.AugAssign) and unparse(n.target) == cur and isinstance(n.op, ast.Add) and unparse(n.value) == "4" for n in ast.walk(loop)) \
        or any(isinstance(n, ast.Assign) and unparse(n.targets[0]) == cur and unparse(n.value) in (f"{cur} + 4", f"4 + {cur}") for n in ast.walk(loop))
    bs = in_loop_def("block_size")
    okbs = bs is not None and isinstance(bs, ast.Subscript) and unparse(bs.slice) == "0" and isinstance(bs.value, ast.Call) and unparse(bs.value.func) == "struct.unpack_from" \
        and bs.value.args and isinstance(bs.value.args[0], ast.Constant) and bs.value.args[0].value in ("!i", ">i")
    decs = [n for n in ast.walk(loop) if isinstance(n, ast.Call) and unparse(n.func).endswith("decompress_raw") and n.args]
    okd = False
    endv = None
    if len(decs) == 1:
        sl = res(decs[0].args[0])
        if isinstance(sl, ast.Subscript) and isinstance(sl.slice, ast.Slice) and sl.slice.lower is not None and sl.slice.upper is not None and unparse(sl.slice.lower) == cur:
            up = res(sl.slice.upper)
            okd = isinstance(up, ast.BinOp) and isinstance(up.op, ast.Add) and {unparse(up.left), unparse(up.right)} == {cur, "block_size"}
            endv = unparse(sl.slice.upper)
    mv = [n for n in ast.walk(loop) if isinstance(n, ast.Assign) and unparse(n.targets[0]) == cur and endv is not None
          and (unparse(n.value) == endv or unparse(res(n.value)) in (f"{cur} + block_size", f"block_size + {cur}"))]
    okm = adv4 and okbs and okd and len(mv) == 1
    ctx.ob(R, fi, loops[0], okm, "snappy_decode does not read a big-endian int32 block length, skip it, decompress [cursor:cursor+length] and continue after it", text="block-step")
    fe = ctx.fn("aiokafka.codec.snappy_encode")
    se = unparse(fe.node)
    oke = "struct.pack('!i', block_size)" in se and "block_size = len(block)" in se and "out.write(block)" in se \
        and "zip(_XERIAL_V1_FORMAT, _XERIAL_V1_HEADER" in se and "range(0, len(payload), xerial_blocksize)" in se
    ctx.ob(R, fe, fe.node, oke, "snappy_encode does not write header fields, then per chunk the int32 length of the compressed block and the block", text="encode-framing")



# ---- size accounting agrees with what the writer emits ----------------------------------------------------------------------------
def _resolve_local(fn, e, depth=0):
    """Expression with single-definition locals of `fn` replaced by their defining expression (text)."""
    if depth > 4:
        return unparse(e)
    if isinstance(e, ast.Name):
        ds = [n for n in ast.walk(fn) if isinstance(n, ast.Assign) and len(n.targets) == 1 and isinstance(n.targets[0], ast.Name) and n.targets[0].id == e.id]
        if len(ds) == 1:
            return _resolve_local(fn, ds[0].value, depth + 1)
    return unparse(e)


def _measured_writer(fn):
    """What the python writer measures and writes, in order: for every `encode_varint(len_func(X))` immediately followed by `write(Y)`
    the pair (resolved X, resolved Y)."""
    out = []
    stmts = [n for n in ast.walk(fn) if isinstance(n, (ast.For, ast.If, ast.FunctionDef))]
    for blk in [fn] + stmts:
        for field in ("body", "orelse"):
            lst = getattr(blk, field, None) or []
            for a, b in zip(lst, lst[1:]):
                if isinstance(a, ast.Expr) and isinstance(a.value, ast.Call) and unparse(a.value.func) == "encode_varint" and a.value.args \
                        and isinstance(a.value.args[0], ast.Call) and unparse(a.value.args[0].func) in ("len_func", "len") \
                        and isinstance(b, ast.Expr) and isinstance(b.value, ast.Call) and unparse(b.value.func) == "write" and b.value.args:
                    out.append((a.lineno, _resolve_local(fn, a.value.args[0].args[0]), _resolve_local(fn, b.value.args[0])))
    return [(x, y) for _l, x, y in sorted(out)]


def _measured_sizer(fn):
    """What size_of measures, in order: for every `size += size_of_varint(L) + L` the resolved expression whose len() L is."""
    out = []
    for n in ast.walk(fn):
        if isinstance(n, ast.AugAssign) and isinstance(n.op, ast.Add) and isinstance(n.value, ast.BinOp) and isinstance(n.value.op, ast.Add):
            l, r = n.value.left, n.value.right
            if isinstance(l, ast.Call) and unparse(l.func) == "size_of_varint" and l.args and unparse(l.args[0]) == unparse(r):
                txt = _resolve_local(fn, r)
                m = re.fullmatch(r"len\((.*)\)", txt)
                out.append((n.lineno, m.group(1) if m else "?" + txt))
    return [x for _l, x in sorted(out)]


def rule_size_accounting(ctx, px):
    R = "size-accounting"
    ctx.rep.rule(R, "the size the builders predict for a record (size_of, behind size_in_bytes / estimate_size_in_bytes, which decide whether a "
                    "record still fits its batch) is computed from the same byte strings the writer emits: element by element, every "
                    "`size_of_varint(L) + L` term measures len() of exactly the expression whose length varint and bytes append() writes "
                    "(in particular the UTF-8 encoding of a header key, not its character count); the compiled sizer measures the encoded "
                    "header key too")
    pw = ctx.fn(f"{PYD}._DefaultRecordBatchBuilderPy.append")
    ps = ctx.fn(f"{PYD}._DefaultRecordBatchBuilderPy.size_of")
    w = _measured_writer(pw.node)
    z = _measured_sizer(ps.node)
    ctx.anchor(len(w) == 4, f"measured runs in the python writer: {w}")
    ctx.ob(R, pw, pw.node, all(x == y for x, y in w), f"the python writer writes a run whose length varint was taken of another expression: {w}", text="writer-measures-what-it-writes")
    ctx.ob(R, ps, ps.node, z == [x for x, _y in w], f"size_of measures {z}, the writer emits {[x for x, _y in w]}: predicted and written sizes differ "
                                                    "(a batch can outgrow the size it was admitted for)", text="py-sizer-matches-writer")
    cs = px.fn(f"{DEF}.DefaultRecordBatchBuilder._size_of_header") if f"{DEF}.DefaultRecordBatchBuilder._size_of_header" in px.funcs else None
    cands = [q for q in px.funcs if q.startswith(f"{DEF}.") and "size" in q.rsplit(".", 1)[-1].lower()]
    hk = []
    for q in cands:
        f = px.funcs[q]
        for n in ast.walk(f.node):
            if isinstance(n, ast.Call) and unparse(n.func) == "_bytelike_len" and n.args and "h_key" in unparse(n.args[0]):
                hk.append((q, f, unparse(n.args[0])))
    ctx.anchor(len(hk) >= 1, f"header-key measurement in the compiled sizer (searched {cands})")
    for q, f, txt in hk:
        ob(ctx, R, f, f.node.lineno, "pyx-sizer-header-key", txt == "h_key.encode('utf-8')", f"the compiled sizer measures `{txt}` for a header key, the writer emits h_key.encode('utf-8')")



def rule_legacy_append_atomic(ctx):
    R = "refuse-is-pure"
    # the v0/v1 Python builder: a record is registered (buffer list, size cursor) only after it was encoded successfully -- the encode
    # step validates types and ranges and may raise; the producer then reports the error for THAT record and keeps using the batch
    fi = ctx.fn(f"{PYL}._LegacyRecordBatchBuilderPy.append")
    c = ctx.cfg(fi)
    enc = [n for n in c.nodes if n.kind == "call" and call_attr(n.ast) == "_encode_msg"]
    ctx.anchor(len(enc) == 1, "_encode_msg call in the legacy builder's append")
    writes = [n for n in c.nodes if (n.kind == "store" and isinstance(n.ast, ast.Attribute) and unparse(n.ast.value) == "self")
              or (n.kind == "call" and call_attr(n.ast) in ("append", "extend") and unparse(n.ast.func.value).startswith("self."))]
    ctx.anchor(len(writes) >= 2, "builder state writes in the legacy append")
    for w in writes:
        ctx.ob(R, fi, w, c.dominates(enc[0], w) and not c.path_exists(w, enc[0]),
               f"`{w.text()[:50]}` registers the record before it has been encoded: when encoding raises (bad type, out-of-range timestamp) a half-written phantom record stays in the batch",
               text="legacy-registered-after-encode:" + w.text()[:40])
    # a refused record (batch full) leaves no trace
    rn = [r for r in c.nodes if r.kind == "return" and (r.ast.value is None or (isinstance(r.ast.value, ast.Constant) and r.ast.value.value is None))]
    ok = bool(rn) and all(not any(c.path_exists(w, r, exc=False) for w in writes) for r in rn)
    ctx.ob(R, fi, fi.node, ok, "a refused record (`return None`) can follow a write to the builder", text="legacy-refuse-pure")


def _is_null_marker(n):
    """A call that writes the wire's null length: an argument that is the literal -1, or write_byte(zero_len_varint)."""
    if not isinstance(n, ast.Call):
        return False
    if call_attr(n) == "write_byte" or unparse(n.func) == "write_byte":
        return any(isinstance(a, ast.Name) and a.id == "zero_len_varint" for a in n.args)
    for a in n.args:
        a = strip_casts(a)
        if unparse(a) == "-1":
            return True
    return False


def _direct(nodes):
    """Sub-nodes of the statements/expressions not below a nested If / IfExp."""
    todo = list(nodes)
    while todo:
        n = todo.pop()
        yield n
        for ch in ast.iter_child_nodes(n):
            if not isinstance(ch, (ast.If, ast.IfExp)):
                todo.append(ch)


def rule_null_is_none(ctx, px):
    R = "null-iff-none"
    ctx.rep.rule(R, "all four record writers (v0/v1 and v2, Python and compiled) emit the wire's null length (-1; the one-byte varint 0x01 in v2) "
                    "for a key, value or header value exactly when the object IS None: the guard of every null marker is `X is None` / "
                    "`X is not None`, never truthiness -- the empty byte string b\"\" is a value of length 0, distinct from null, and both readers "
                    "return it as b\"\"")
    sites = 0
    for fi, is_px in ((ctx.fn(f"{PYD}._DefaultRecordBatchBuilderPy.append"), False), (ctx.fn(f"{PYL}._LegacyRecordBatchBuilderPy._encode_msg"), False),
                      (px.fn(f"{DEF}.DefaultRecordBatchBuilder._encode_msg"), True), (px.fn(f"{LEG}._encode_msg"), True)):
        def report(node, ok, msg, key):
            if is_px:
                ob(ctx, R, fi, getattr(node, "lineno", fi.node.lineno), key, ok, msg)
            else:
                ctx.ob(R, fi, node, ok, msg, text=key)
        n_here = 0
        for n in ast.walk(fi.node):
            if isinstance(n, ast.If):
                arms = (n.body, n.orelse)
                mk_ = [any(_is_null_marker(x) for x in _direct(a)) for a in arms]
            elif isinstance(n, ast.IfExp):
                arms = ([n.body], [n.orelse])
                mk_ = [unparse(strip_casts(a[0])) == "-1" for a in arms]
                # only an IfExp that is the argument of a pack call is a wire length
            else:
                continue
            if mk_[0] == mk_[1]:
                if mk_[0]:
                    report(n, False, f"both arms of `{unparse(n.test)[:40]}` write the null length", f"null-guard:{n_here}")
                continue
            n_here += 1
            sites += 1
            t = n.test
            exact = (isinstance(t, ast.Compare) and len(t.ops) == 1 and isinstance(t.ops[0], (ast.Is, ast.IsNot)) and isinstance(t.left, ast.Name)
                     and isinstance(t.comparators[0], ast.Constant) and t.comparators[0].value is None)
            ok = exact and (mk_[0] if isinstance(t.ops[0], ast.Is) else mk_[1])
            report(n, ok, f"the null length (-1) is written under `{unparse(t)[:40]}`, not exactly when the object is None: an empty key/value (b\"\") "
                          "would be sent as null and come back as None", f"null-guard:{unparse(t.left) if exact else n_here}:{n_here}")
        ctx.anchor(n_here >= 2, f"null-length sites in {fi.qualname} ({n_here})")
    ctx.anchor(sites >= 12, f"null-length sites in the four writers ({sites})")
    # readers: the field is None exactly when the decoded length is negative (-1)
    rsites = 0
    for fi, is_px in ((ctx.fn(f"{PYD}._DefaultRecordBatchPy._read_msg"), False), (ctx.fn(f"{PYL}._LegacyRecordBatchPy._read_key_value"), False),
                      (px.fn(f"{DEF}.DefaultRecordBatch._read_msg"), True), (px.fn(f"{LEG}.LegacyRecordBatch._read_record"), True)):
        n_here = 0
        # the reader and the module-level / sibling helpers it calls (a nullable field may be decoded by a shared helper)
        scope = [fi.node]
        weight = {}
        if is_px:
            called = [call_attr(x) or (x.func.id if isinstance(x.func, ast.Name) else None) for x in ast.walk(fi.node) if isinstance(x, ast.Call)]
            for q2, f2 in px.funcs.items():
                if f2 is not fi and f2.module is fi.module and f2.name in called and f2.name not in ("_check_bounds", "new"):
                    scope.append(f2.node)
                    weight[id(f2.node)] = called.count(f2.name)      # one site in a helper decodes one field per call
        for n, w_ in [(y, weight.get(id(sc), 1)) for sc in scope for y in ast.walk(sc)]:
            if not isinstance(n, ast.If):
                continue
            def none_assigned(arm):
                return {unparse(x.targets[0]) for x in _direct(arm) if isinstance(x, ast.Assign) and len(x.targets) == 1 and isinstance(x.targets[0], ast.Name)
                        and isinstance(x.value, ast.Constant) and x.value.value is None}
            def data_assigned(arm):
                return {unparse(x.targets[0]) for x in _direct(arm) if isinstance(x, ast.Assign) and len(x.targets) == 1 and isinstance(x.targets[0], ast.Name)
                        and not (isinstance(x.value, ast.Constant) and x.value.value is None)} | \
                       {unparse(x.target) for x in _direct(arm) if isinstance(x, ast.AnnAssign) and x.value is not None and isinstance(x.target, ast.Name)
                        and not (isinstance(x.value, ast.Constant) and x.value.value is None)}
            a_none, b_none = none_assigned(n.body), none_assigned(n.orelse)
            # `x = None` before the test and an assignment in one arm only is the same decision written with a default
            dflt = {unparse(x.targets[0] if isinstance(x, ast.Assign) else x.target) for sc in scope for x in ast.walk(sc)
                    if ((isinstance(x, ast.Assign) and len(x.targets) == 1) or (isinstance(x, ast.AnnAssign) and x.value is not None))
                    and isinstance(x.value, ast.Constant) and x.value.value is None and x.lineno < n.lineno}
            a_none |= (dflt & data_assigned(n.orelse)) - data_assigned(n.body)
            b_none |= (dflt & data_assigned(n.body)) - data_assigned(n.orelse)
            fld = (a_none & data_assigned(n.orelse)) or (b_none & data_assigned(n.body))
            if not fld:
                continue
            n_here += w_
            rsites += w_
            none_in_body = bool(a_none & data_assigned(n.orelse))
            t = n.test
            ok = False
            if isinstance(t, ast.Compare) and len(t.ops) == 1 and isinstance(strip_casts(t.left), ast.Name):
                try:
                    cv = int(unparse(strip_casts(t.comparators[0])))
                except ValueError:
                    cv = None
                form = (type(t.ops[0]).__name__, cv)
                none_forms = {("Lt", 0), ("LtE", -1), ("Eq", -1)}
                data_forms = {("GtE", 0), ("Gt", -1), ("NotEq", -1)}
                ok = form in (none_forms if none_in_body else data_forms)
            msg = (f"`{sorted(fld)[0]}` is None under `{unparse(t)[:40]}` ({'if' if none_in_body else 'else'} arm), not exactly when the decoded length is negative: "
                   "a zero-length key/value would be returned as None (or a null one as b\"\")")
            key = f"null-read:{sorted(fld)[0]}:{n_here}"
            if is_px:
                ob(ctx, R, fi, n.lineno, key, ok, msg)
            else:
                ctx.ob(R, fi, n, ok, msg, text=key)
        ctx.anchor(n_here >= 2, f"nullable-field sites in reader {fi.qualname} ({n_here})")
    ctx.anchor(rsites >= 10, f"nullable-field sites in the four readers ({rsites})")


def run(ctx):
    rep = ctx.rep
    rep.explanation = ("C09: the shape-level part of codec agreement: header layout stated five times and compared with the format's reference "
                       "table, constants, the sequence of wire elements of the four v2 record readers/writers, CRC ordering and regions, the batch "
                       "splitter of both implementations, the CRC-32C table, purity of a refused append, next_offset.")
    px = Pyx(ctx)
    rule_header_table(ctx, px)
    rule_consts(ctx, px)
    rule_record_grammar(ctx, px)
    rule_reader_result(ctx, px)
    rule_crc_order(ctx, px)
    rule_legacy_crc(ctx, px)
    rule_legacy_iter(ctx, px)
    rule_batch_timestamps(ctx, px)
    rule_splitter(ctx, px)
    rule_crc_table(ctx)
    rule_refuse_pure(ctx, px)
    rule_legacy_append_atomic(ctx)
    rule_next_offset(ctx, px)
    rule_mask_compare(ctx, px)
    rule_xerial(ctx)
    rule_gzip_members(ctx)
    rule_size_accounting(ctx, px)
    rule_null_is_none(ctx, px)
    from .common import rule_send_headers_verbatim
    rule_send_headers_verbatim(ctx, "record-grammar")
    from .common import rule_instance_state
    rule_instance_state(ctx, ("aiokafka.record.",))
    rep.nd("value-level round-trip for all record sequences (varint arithmetic, timestamps beyond int32 deltas, compression codecs)")
    rep.nd("byte-identical output of the two builders (they differ by design at the batch-size boundary and in the compression fallback)")
    rep.nd("the fixed parts of size accounting (record overhead constants, estimate slack)")
