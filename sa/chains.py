"""Error -> effect tables of `if error_type is X ... elif ... else` chains.

For each error class named in a chain on a given variable the rule computes what the
arm does along every normal path until the function returns / raises / goes to the
next loop iteration: the calls made and the terminal.  Handlers of one protocol are
then cross-checked against the table the protocol demands.
"""
from __future__ import annotations

import ast

from .cfg import enum_paths
from .loader import call_attr, unparse


def _classes_of_test(e, var):
    """`var is X` / `var == X` / `var in (X, Y)` -> [names]; else None."""
    if isinstance(e, ast.Compare) and len(e.ops) == 1 and unparse(e.left) == var:
        op = e.ops[0]
        rhs = e.comparators[0]
        if isinstance(op, (ast.Is, ast.Eq)):
            return [unparse(rhs).split(".")[-1]]
        if isinstance(op, ast.In) and isinstance(rhs, (ast.Tuple, ast.List, ast.Set)):
            return [unparse(x).split(".")[-1] for x in rhs.elts]
    return None


class Arm:
    def __init__(self, cls, test):
        self.cls = cls
        self.test = test
        self.paths = []  # list of (calls:[names], terminal:str, nodes)

    def calls(self):
        s = set()
        for c, _t, _n in self.paths:
            s |= set(c)
        return s

    def all_paths_call(self, name):
        return bool(self.paths) and all(name in c for c, _t, _n in self.paths)

    def terminals(self):
        return sorted({t for _c, t, _n in self.paths})

    def describe(self):
        return f"calls={sorted(self.calls())} end={self.terminals()}"


def _terminal(c, path):
    last = path[-1]
    prev = path[-2] if len(path) > 1 else None
    if last is c.exit:
        if prev is not None and prev.kind == "return":
            v = prev.ast.value
            if v is None or (isinstance(v, ast.Constant) and v.value is None):
                return "return:None"
            if isinstance(v, ast.Constant):
                return f"return:{v.value!r}"
            return "return:" + unparse(v)
        return "return:None"
    if last is c.raise_exit or last.kind == "handler":
        if prev is not None and prev.kind == "raise":
            x = prev.ast.exc
            if x is None:
                return "raise:<reraise>"
            if isinstance(x, ast.Call):
                return "raise:" + unparse(x.func).split(".")[-1]
            return "raise:" + unparse(x).split(".")[-1]
        return "raise:?"
    if last.kind == "loop":
        return "next-iteration"
    return "?"


def chain_arms(c, var, stop_at_loop=True):
    """dict class name -> Arm, plus the 'else' arm under key '<else>' (entered when every test is false)."""
    tests = []
    for n in c.nodes:
        if n.kind == "test":
            cl = _classes_of_test(n.ast, var)
            if cl:
                tests.append((n, cl))
    arms = {}
    if not tests:
        return arms
    ends = [c.exit, c.raise_exit] + [n for n in c.nodes if n.kind == "loop"] + [n for n in c.nodes if n.kind == "handler"]
    testnodes = {t for t, _ in tests}

    def follow(start_nodes):
        out = []
        for s in start_nodes:
            if s in ends:
                out.append(([], _terminal(c, [s, s]) if s is not c.exit else "return:None", [s]))
                continue
            for p in enum_paths(c, s, ends, exc=False, follow_back=False):
                calls = [call_attr(n.ast) for n in p if n.kind == "call" and call_attr(n.ast)]
                out.append((calls, _terminal(c, p), p))
            # a start node that is itself a return/raise
        return out

    for t, cl in tests:
        starts = [m for m, l in t.succ if l == "T"]
        for name in cl:
            a = arms.setdefault(name, Arm(name, t))
            a.paths += follow(starts)
    # else arm: F-successors that are not tests of the chain, reached only through F edges of chain tests
    else_starts = []
    for t, _ in tests:
        for m, l in t.succ:
            if l == "F" and m not in testnodes:
                # m may be the first node of evaluating the next test (call nodes of `a or b`) -- skip when it leads to a chain test directly
                nxt = m
                hops = 0
                while nxt.kind in ("call",) and len(nxt.succ) >= 1 and hops < 4:
                    nxt = [x for x, lab in nxt.succ if lab != "exc"][0]
                    hops += 1
                if nxt in testnodes:
                    continue
                else_starts.append(m)
    if else_starts:
        a = Arm("<else>", None)
        a.paths = follow(else_starts)
        arms["<else>"] = a
    return arms
