"""Demonstrates (pre-fix) that with two configured assignors the first JoinGroup advertises only the
first strategy and that a successful JoinGroup reply is followed by ANOTHER JoinGroup: the KIP-394
retry loop was nested inside the loop over the assignors."""
import asyncio
from unittest import mock
from aiokafka.consumer.group_coordinator import CoordinatorGroupRebalance
from aiokafka.coordinator.assignors.range import RangePartitionAssignor
from aiokafka.coordinator.assignors.roundrobin import RoundRobinPartitionAssignor
from aiokafka.protocol.group import JoinGroupRequest


def test_join_advertises_all_strategies_once():
    async def main():
        coord = mock.MagicMock()
        coord.member_id = "m1"
        coord._group_instance_id = None
        coord._rebalance_timeout_ms = 30000
        sent = []

        async def send_req(request):
            sent.append(request)
            resp = mock.MagicMock()
            if isinstance(request, JoinGroupRequest):
                resp.error_code = 0
                resp.member_id = "m1"
                resp.leader_id = "other"
                resp.generation_id = 1
                resp.group_protocol = "range"
            else:
                resp.error_code = 0
                resp.member_assignment = b"x"
            return resp

        coord._send_req = send_req
        sub = mock.MagicMock()
        sub.topics = {"t"}
        sub.active = True
        rb = CoordinatorGroupRebalance(coord, "g", 0, sub, (RangePartitionAssignor, RoundRobinPartitionAssignor), 10000, 100)
        await rb.perform_group_join()
        joins = [r for r in sent if isinstance(r, JoinGroupRequest)]
        assert len(joins) == 1, f"{len(joins)} JoinGroup requests for one successful join"
        assert [p[0] for p in joins[0]._group_protocols] == ["range", "roundrobin"]
    asyncio.run(main())
