"""Check-before-use analysis of raw-pointer reads in the lowered Cython decoders.

Forward dataflow over the event CFG of one function.  Abstract state:
  cov : {cursor text -> set of (const, syms)}   meaning  cursor + const + sum(syms) <= LEN   (LEN = length of the input buffer)
  lb  : {symbol text -> int}                    meaning  symbol >= int
Facts are created by `self._check_bounds(e, s)` (verified separately to be the comparison it claims to be), by branch
conditions that compare a linear expression with LEN, and by assignments from other cursors; they are transferred through
`pos += c` / `pos += sym` / `pos -= ...`, killed by any other write to a name they mention (including `&pos` handed to a
callee), and intersected (minimum) at joins.  A read of N bytes at `buf + cursor + k` is covered when a live fact gives
cursor + k + N <= LEN using only known lower bounds of the remaining symbols.
"""
from __future__ import annotations

import ast

from .cfg import CFG
from .loader import AnalysisError, call_attr, call_name, unparse
from .pyxlower import strip_casts

VARINT_MAX = 10
FIXED_READERS = {"unpack_int64": 8, "unpack_int32": 4, "unpack_int16": 2, "unpack_int8": 1}
SIZED_READERS = {  # callee -> (index of pointer arg, index of size arg)
    "PyBytes_FromStringAndSize": (0, 1), "PyMemoryView_FromMemory": (0, 1), "calc_crc32c": (1, 2), "calc_crc32": (1, 2),
    "PyByteArray_FromStringAndSize": (0, 1),
}
MEMCPY = "memcpy"  # (dst, src, n): src is a read, dst a write


# ---- linear expressions ---------------------------------------------------------------------------------
class Lin:
    """const + sum(coeff * term); terms are source texts of non-arithmetic sub-expressions."""

    def __init__(self, const=0, terms=None):
        self.const = const
        self.terms = {k: v for k, v in (terms or {}).items() if v != 0}

    def __add__(self, o):
        t = dict(self.terms)
        for k, v in o.terms.items():
            t[k] = t.get(k, 0) + v
        return Lin(self.const + o.const, t)

    def neg(self):
        return Lin(-self.const, {k: -v for k, v in self.terms.items()})

    def __sub__(self, o):
        return self + o.neg()

    def scale(self, c):
        return Lin(self.const * c, {k: v * c for k, v in self.terms.items()})

    def __repr__(self):
        return " + ".join([str(self.const)] + [f"{v}*{k}" for k, v in sorted(self.terms.items())])


def lin_of(e, env=None):
    """Lin of an expression (casts already stripped) or None when not linear."""
    if isinstance(e, ast.Constant) and isinstance(e.value, int) and not isinstance(e.value, bool):
        return Lin(e.value)
    if isinstance(e, ast.UnaryOp) and isinstance(e.op, ast.USub):
        x = lin_of(e.operand, env)
        return None if x is None else x.neg()
    if isinstance(e, ast.BinOp):
        a, b = lin_of(e.left, env), lin_of(e.right, env)
        if a is None or b is None:
            return None
        if isinstance(e.op, ast.Add):
            return a + b
        if isinstance(e.op, ast.Sub):
            return a - b
        if isinstance(e.op, ast.Mult):
            if not a.terms:
                return b.scale(a.const)
            if not b.terms:
                return a.scale(b.const)
        return None
    if isinstance(e, (ast.Name, ast.Attribute)):
        t = unparse(e)
        if env is not None and t in env:
            return env[t]
        return Lin(0, {t: 1})
    if isinstance(e, ast.Subscript) and isinstance(e.slice, ast.Constant) and isinstance(e.value, (ast.Name, ast.Attribute)):
        return Lin(0, {unparse(e): 1})
    if isinstance(e, ast.Call) and call_attr(e) in ("PyBytes_GET_SIZE", "len"):
        t = unparse(e)
        if env is not None and t in env:
            return env[t]
        return Lin(0, {t: 1})
    return None


# ---- abstract state -----------------------------------------------------------------------------------------
class State:
    __slots__ = ("cov", "lb", "eq")

    def __init__(self, cov=None, lb=None, eq=None):
        self.cov = cov or {}
        self.lb = lb or {}
        self.eq = eq or {}     # variable text -> known integer value

    def copy(self):
        return State({k: set(v) for k, v in self.cov.items()}, dict(self.lb), dict(self.eq))

    def __eq__(self, o):
        return self.cov == o.cov and self.lb == o.lb and self.eq == o.eq

    def join(self, o):
        cov = {}
        for k in self.cov.keys() & o.cov.keys():
            s = set()
            for c1, y1 in self.cov[k]:
                for c2, y2 in o.cov[k]:
                    if y1 == y2:
                        s.add((min(c1, c2), y1))
            # a fact with symbols on one side may be weaker/stronger than a constant one on the other: keep constants
            # implied by lower bounds
            if s:
                cov[k] = _prune(s)
        lb = {k: min(self.lb[k], o.lb[k]) for k in self.lb.keys() & o.lb.keys()}
        eq = {k: v for k, v in self.eq.items() if o.eq.get(k) == v}
        return State(cov, lb, eq)

    def add_cov(self, cursor, const, syms=()):
        self.cov.setdefault(cursor, set()).add((const, tuple(sorted(syms))))
        self.cov[cursor] = _prune(self.cov[cursor])

    def kill(self, name):
        """Forget everything that mentions variable text `name`."""
        for k in list(self.cov):
            if _mentions(k, name):
                del self.cov[k]
                continue
            keep = {(c, y) for c, y in self.cov[k] if not any(_mentions(s, name) for s in y)}
            if keep:
                self.cov[k] = keep
            else:
                del self.cov[k]
        for k in list(self.lb):
            if _mentions(k, name):
                del self.lb[k]
        for k in list(self.eq):
            if _mentions(k, name):
                del self.eq[k]


def _prune(s):
    best = {}
    for c, y in s:
        if y not in best or c > best[y]:
            best[y] = c
    return {(c, y) for y, c in best.items()}


def _mentions(text, name):
    if text == name:
        return True
    try:
        t = ast.parse(text, mode="eval")
    except SyntaxError:
        return name in text
    for x in ast.walk(t):
        if isinstance(x, (ast.Name, ast.Attribute)) and unparse(x) == name:
            return True
    return False


# ---- the analysis of one function ---------------------------------------------------------------------------------
class Read:
    def __init__(self, node, kind, ptr, index, size, what):
        self.node = node      # CFG node at which the state is taken
        self.kind = kind      # 'byte' | 'fixed' | 'sized' | 'varint' | 'memcpy'
        self.ptr = ptr        # pointer variable name
        self.index = index    # ast expression of the index (casts stripped)
        self.size = size      # int, or ast expression, or ('varint',)
        self.what = what      # text of the construct
        self.limit = None
        self.covered = None
        self.partial = None   # for varints: covered for the first byte only
        self.detail = ""
        self.size_nonneg = None

    @property
    def lineno(self):
        return self.node.lineno


class FnBounds:
    def __init__(self, fi, len_texts=("self._buffer.len",), cursors=("pos", "self._pos"), entry_facts=(), check_fn="_check_bounds",
                 pointer_names=None, assume=None, check_summary=None, consts=None):
        """assume: {test text: bool} prunes the contradicting branch (function specialised for a call context);
        check_summary: what a successful call of the bounds helper guarantees: {'covers': bool, 'size_nonneg': bool}."""
        self.assume = assume or {}
        self.consts = consts or {}     # immutable class constants: text -> int
        self.check_summary = check_summary or {"covers": True, "size_nonneg": False}
        self.fi = fi
        self.cfg = CFG(fi.node, fi.qualname)
        self.len_texts = set(len_texts)
        self.cursors = set(cursors)
        self.entry_facts = entry_facts
        self.check_fn = check_fn
        self.ptrs = self._pointers() if pointer_names is None else dict(pointer_names)
        self._alias_len()
        self.rd = self.cfg.reaching_defs()
        self.IN = {}
        self._solve()

    # -- pointer / length identification
    def _pointers(self):
        """char* locals / params that point at the INPUT buffer: name -> origin text."""
        out = {}
        for nm, t in getattr(self.fi, 'ctypes', {}).items():
            if t.replace("unsigned ", "") in ("char*",) :
                origin = "param" if nm in self.fi.params() else None
                for n in ast.walk(self.fi.node):
                    if isinstance(n, ast.Assign) and len(n.targets) == 1 and isinstance(n.targets[0], ast.Name) and n.targets[0].id == nm:
                        origin = unparse(strip_casts(n.value))
                if origin is not None:
                    out[nm] = origin
        return out

    def input_pointers(self):
        return {k: v for k, v in self.ptrs.items() if not v.startswith("PyByteArray_AS_STRING") and "NULL" != v}

    def _alias_len(self):
        for n in ast.walk(self.fi.node):
            if isinstance(n, ast.Assign) and len(n.targets) == 1 and isinstance(n.targets[0], ast.Name):
                v = unparse(strip_casts(n.value))
                if v in self.len_texts or (v.startswith("PyBytes_GET_SIZE(") and True):
                    # single assignment only
                    nm = n.targets[0].id
                    defs = [m for m in ast.walk(self.fi.node) if isinstance(m, (ast.Assign, ast.AugAssign)) and any(
                        isinstance(t, ast.Name) and t.id == nm for t in (m.targets if isinstance(m, ast.Assign) else [m.target]))]
                    if len(defs) == 1:
                        self.len_texts.add(nm)
                        if v.startswith("PyBytes_GET_SIZE("):
                            self.len_texts.add(v)

    # -- expression helpers
    def _lin(self, e, node=None, use_eq=False):
        e = strip_casts(e)
        x = lin_of(e)
        if x is None:
            return None
        # fold LEN aliases
        t = {}
        for k, v in x.terms.items():
            kk = "LEN" if k in self.len_texts else k
            t[kk] = t.get(kk, 0) + v
        x = Lin(x.const, t)
        if node is not None:
            x = self._expand(x, node, 0)
        cur = getattr(self, "_cur", None)
        if use_eq and cur is not None and cur.eq:
            y = Lin(x.const)
            for k, v in x.terms.items():
                y = y + (Lin(cur.eq[k] * v) if k in cur.eq else Lin(0, {k: v}))
            x = y
        return x

    def _expand(self, x, node, depth):
        """Replace single-definition local aliases (remaining = LEN - pos) by their definition when still valid at `node`."""
        if depth > 3:
            return x
        out = Lin(x.const)
        for k, v in x.terms.items():
            rep = None
            if k.isidentifier() and k not in self.cursors and k != "LEN":
                defs = self.rd.get(node, {}).get(k)
                if defs is not None and len(defs) == 1:
                    d = next(iter(defs))
                    s = d.stmt
                    if d.kind == "store" and isinstance(s, ast.Assign) and len(s.targets) == 1 and s.targets[0] is d.ast:
                        r = self._lin(s.value)
                        if r is not None and (r.terms.keys() - {k}) and any(t == "LEN" or t in self.cursors for t in r.terms):
                            # every variable of the definition must still hold the value it had at the definition
                            ok = True
                            for t in r.terms:
                                if t == "LEN":
                                    continue
                                base = t.split(".")[0] if not t.isidentifier() else t
                                if t.isidentifier():
                                    if self.rd.get(node, {}).get(t) != self.rd.get(d, {}).get(t):
                                        ok = False
                                else:
                                    if self._attr_written_between(t, d, node):
                                        ok = False
                            if ok:
                                rep = self._expand(r, d, depth + 1)
            out = out + (rep.scale(v) if rep is not None else Lin(0, {k: v}))
        return out

    def _attr_written_between(self, text, a, b):
        c = self.cfg
        mid = c.reachable([a]) & (c.co_reachable([b]) | {b})
        for n in mid:
            if n.kind == "store" and unparse(n.ast) == text:
                return True
            if n.kind == "call" and isinstance(n.ast.func, ast.Attribute) and unparse(n.ast.func.value) == "self" and call_attr(n.ast) != self.check_fn:
                return True
        return False

    # -- transfer
    def _solve(self):
        st0 = State()
        for cur, const, syms in self.entry_facts:
            st0.add_cov(cur, const, syms)
        self._solve_from(st0)

    def _solve_from(self, st0):
        c = self.cfg
        self.IN = {c.entry: st0}
        work = [c.entry]
        iters = 0
        cnt = {}
        while work:
            n = work.pop()
            iters += 1
            if iters > 200000:
                raise AnalysisError(f"{self.fi.qualname}: bounds dataflow did not converge")
            s_in = self.IN[n]
            for m, label in n.succ:
                out = self._transfer(n, label, s_in)
                if out is None:
                    continue
                old = self.IN.get(m)
                new = out if old is None else old.join(out)
                if old is None or not (new == old):
                    cnt[m] = cnt.get(m, 0) + 1
                    if old is not None and cnt[m] > 30:
                        # widening: a bound that keeps moving (counter decremented in a loop) is dropped
                        new.lb = {k: v for k, v in new.lb.items() if old.lb.get(k) == v}
                    self.IN[m] = new
                    if m not in work:
                        work.append(m)

    def _transfer(self, n, label, s):
        if label == "exc" or label == "raise":
            return None  # facts are not needed on exceptional paths (they leave the decoder)
        if n.kind == "test" and label in ("T", "F"):
            forced = self.assume.get(unparse(strip_casts(n.ast)))
            if forced is not None and forced != (label == "T"):
                return None
        s = s.copy()
        self._cur = s
        if n.kind == "call":
            self._call(n, s)
        elif n.kind in ("store", "delete"):
            self._store(n, s)
        elif n.kind == "test" and label in ("T", "F"):
            self._assume(n, label == "T", s)
        elif n.kind == "fornext":
            pass
        return s

    def _call(self, n, s):
        call = n.ast
        nm = call_attr(call)
        if nm == self.check_fn and isinstance(call.func, ast.Attribute) and len(call.args) == 2:
            pos = self._lin(call.args[0], n, use_eq=True)
            size = self._lin(call.args[1], n)
            pos_s = self._lin(call.args[0], n, use_eq=False)   # symbolic form survives joins where the constant does not
            if pos_s is not None and size is not None and self.check_summary.get("covers"):
                self._fact_le_len(pos_s + size, s)
            if pos is not None and size is not None:
                if self.check_summary.get("covers"):
                    self._fact_le_len(pos + size, s)
                if self.check_summary.get("size_nonneg"):
                    pt = [k for k, v in size.terms.items() if v == 1]
                    if len(size.terms) == 1 and len(pt) == 1 and size.const == 0:
                        s.lb[pt[0]] = max(s.lb.get(pt[0], 0), 0)
            return
        # pointers to locals handed to the callee
        for a in call.args:
            a = strip_casts(a)
            if isinstance(a, ast.Call) and isinstance(a.func, ast.Name) and a.func.id == "__addr__" and a.args:
                tgt = a.args[0]
                if isinstance(tgt, (ast.Name, ast.Attribute)):
                    t = unparse(tgt)
                    if nm == "decode_varint64" and t in s.cov and call.args.index(a) == 1 if a in call.args else False:
                        pass
                    if nm == "decode_varint64" and t in self.cursors and self._arg_index(call, tgt) == len(call.args) - 2:
                        old = s.cov.get(t, set())
                        lbv = s.lb.get(t)
                        s.kill(t)
                        keep = {(c - VARINT_MAX, y) for c, y in old if c - VARINT_MAX >= 0}
                        if len(call.args) == 4 and unparse(strip_casts(call.args[1])) in self.len_texts:
                            keep.add((0, ()))   # the bounded decoder never moves the cursor past buf_len (verified on its body)
                        if keep:
                            s.cov[t] = _prune(keep)
                        if lbv is not None:
                            s.lb[t] = lbv + 1
                    else:
                        s.kill(t)
        if isinstance(call.func, ast.Attribute) and unparse(call.func.value) == "self" and nm != self.check_fn:
            # a method of self may replace the buffer or move the cursor fields
            for k in list(s.cov):
                if "self." in k or any("self." in y for _c, ys in s.cov[k] for y in ys):
                    del s.cov[k]
            for k in list(s.lb):
                if "self." in k:
                    del s.lb[k]
        if nm in ("PyBuffer_Release", "PyObject_GetBuffer"):
            s.cov.clear()

    def _arg_index(self, call, tgt):
        for i, a in enumerate(call.args):
            a = strip_casts(a)
            if isinstance(a, ast.Call) and isinstance(a.func, ast.Name) and a.func.id == "__addr__" and a.args and a.args[0] is tgt:
                return i
        # strip_casts deep-copies: compare by text
        for i, a in enumerate(call.args):
            if unparse(strip_casts(a)) == f"__addr__({unparse(tgt)})":
                return i
        return -1

    def _store(self, n, s):
        t = n.ast
        st = n.stmt
        text = unparse(t) if isinstance(t, (ast.Name, ast.Attribute)) else None
        if text is None:
            if isinstance(t, ast.Subscript):
                return
            return
        if isinstance(st, ast.AugAssign) and st.target is t:
            d = self._lin(st.value, n)
            old = s.cov.get(text, set())
            oldlb = s.lb.get(text)
            s.kill(text)
            if d is None or not isinstance(st.op, (ast.Add, ast.Sub)):
                return
            if isinstance(st.op, ast.Sub):
                d = d.neg()
            new = set()
            for c, y in old:
                ys = list(y)
                ok = True
                cc = c - d.const
                for term, coeff in d.terms.items():
                    if coeff == 1 and term in ys:
                        ys.remove(term)
                    elif coeff == -1:
                        ys.append(term)
                    else:
                        ok = False
                if ok and (cc >= 0 or ys):
                    new.add((cc, tuple(sorted(ys))))
            if new:
                s.cov[text] = _prune(new)
            if oldlb is not None:
                inc = self._lower(d, s)
                if inc is not None:
                    s.lb[text] = oldlb + inc
            return
        if isinstance(st, ast.Assign) and len(st.targets) == 1 and st.targets[0] is t:
            v = self._lin(st.value, n)
            src = {k: set(x) for k, x in s.cov.items()}
            srclb = dict(s.lb)
            s.kill(text)
            if v is None:
                return
            lo = self._lower_with(v, srclb)
            if lo is not None:
                s.lb[text] = lo
            if not v.terms:
                s.eq[text] = v.const
            # x = y + c (+ syms): transfer coverage from cursor y
            curs = [k for k in v.terms if k in src and v.terms[k] == 1]
            if len(curs) == 1 and all(c == 1 for c in v.terms.values()):
                y = curs[0]
                extra = [k for k in v.terms if k != y]
                new = set()
                for c, ys in src[y]:
                    ys = list(ys)
                    ok = True
                    for e in extra:
                        if e in ys:
                            ys.remove(e)
                        else:
                            ok = False
                    cc = c - v.const
                    if ok and (cc >= 0 or ys):
                        new.add((cc, tuple(sorted(ys))))
                if new and not _mentions(y, text):
                    s.cov[text] = _prune(new)
            return
        s.kill(text)

    def _lower(self, d, s):
        return self._lower_with(d, s.lb)

    def _lower_with(self, d, lb):
        """Lower bound of linear expr d using known lower bounds (positive coefficients only)."""
        tot = d.const
        for k, v in d.terms.items():
            if k in self.consts:
                tot += v * self.consts[k]
            elif v > 0 and k in lb:
                tot += v * lb[k]
            else:
                return None
        return tot

    def _fact_le_len(self, x, s):
        """Record x <= LEN where x is a Lin without LEN."""
        if "LEN" in x.terms:
            return
        curs = [k for k, v in x.terms.items() if k in self.cursors and v == 1]
        if len(curs) > 1:
            return
        cur = curs[0] if curs else "0"
        syms = []
        for k, v in x.terms.items():
            if k == cur:
                continue
            if v == 1:
                syms.append(k)
            elif v > 1:
                syms += [k] * v
            else:
                return  # negative terms: not a coverage fact
        s.add_cov(cur, x.const, syms)

    def _assume(self, n, truth, s):
        self._assume1(n, truth, s, False)
        if s.eq:
            self._assume1(n, truth, s, True)

    def _assume1(self, n, truth, s, use_eq):
        e = strip_casts(n.ast)
        if isinstance(e, ast.Compare) and len(e.ops) == 1:
            a = self._lin(e.left, n, use_eq=use_eq)
            b = self._lin(e.comparators[0], n, use_eq=use_eq)
            if a is None or b is None:
                return
            op = type(e.ops[0])
            if not truth:
                op = {ast.Lt: ast.GtE, ast.LtE: ast.Gt, ast.Gt: ast.LtE, ast.GtE: ast.Lt, ast.Eq: ast.NotEq, ast.NotEq: ast.Eq}.get(op)
            if op is None:
                return
            # normalise to  L <= 0  (strict: L + 1 <= 0 on integers)
            if op is ast.Lt:
                L = a - b + Lin(1)
            elif op is ast.LtE:
                L = a - b
            elif op is ast.Gt:
                L = b - a + Lin(1)
            elif op is ast.GtE:
                L = b - a
            elif op is ast.Eq:
                self._le0(a - b, s)
                L = b - a
            else:
                return
            self._le0(L, s)
        elif isinstance(e, (ast.Name, ast.Attribute)) and truth is False:
            # `if x:` false branch => x == 0 : nothing useful
            return

    def _le0(self, L, s):
        cl = L.terms.get("LEN", 0)
        if cl == -1:
            rest = Lin(L.const, {k: v for k, v in L.terms.items() if k != "LEN"})
            self._fact_le_len(rest, s)   # rest <= LEN
        elif cl == 0:
            # bound on a single symbol:  c - sym <= 0  => sym >= c ;  with other symbols of known lower bound
            neg = [k for k, v in L.terms.items() if v == -1]
            if len(neg) == 1:
                sym = neg[0]
                rest = Lin(L.const, {k: v for k, v in L.terms.items() if k != sym})
                lo = self._lower(rest, s)
                if lo is not None:
                    if sym not in s.lb or s.lb[sym] < lo:
                        s.lb[sym] = lo

    # -- reads
    def reads(self):
        out = []
        inp = self.input_pointers()
        c = self.cfg
        first = {}
        for n in c.nodes:
            if n.stmt is not None and id(n.stmt) not in first:
                first[id(n.stmt)] = n
        seen = set()
        for n in c.nodes:
            if n.kind == "call":
                call = n.ast
                nm = call_attr(call)
                args = [strip_casts(a) for a in call.args]

                def ptr_arg(a):
                    """(&buf[e]) or (buf) -> (ptr name, index ast)"""
                    if isinstance(a, ast.Call) and isinstance(a.func, ast.Name) and a.func.id == "__addr__" and a.args:
                        a = a.args[0]
                        if isinstance(a, ast.Subscript) and isinstance(a.value, ast.Name) and a.value.id in inp:
                            return a.value.id, a.slice, a
                    if isinstance(a, ast.Name) and a.id in inp:
                        return a.id, ast.Constant(value=0), a
                    return None
                if nm in FIXED_READERS and args:
                    p = ptr_arg(args[0])
                    if p:
                        out.append(Read(n, "fixed", p[0], p[1], FIXED_READERS[nm], unparse(call)))
                        seen.add(unparse(p[2]))
                elif nm in SIZED_READERS:
                    pi, si = SIZED_READERS[nm]
                    if len(args) > max(pi, si):
                        p = ptr_arg(args[pi])
                        if p:
                            out.append(Read(n, "sized", p[0], p[1], args[si], unparse(call)))
                elif nm == MEMCPY and len(args) == 3:
                    p = ptr_arg(args[1])
                    if p:
                        out.append(Read(n, "sized", p[0], p[1], args[2], unparse(call)))
                elif nm == "decode_varint64" and len(args) in (3, 4):
                    a0 = args[0]
                    if isinstance(a0, ast.Name) and a0.id in inp:
                        cur = args[-2]
                        if isinstance(cur, ast.Call) and cur.args:
                            r = Read(n, "varint", a0.id, cur.args[0], ("varint",), unparse(call))
                            r.limit = args[1] if len(args) == 4 else None
                            out.append(r)
                else:
                    # an input pointer escaping into an unknown callee
                    for a in args:
                        p = ptr_arg(a)
                        if p and nm not in ("__cast__", "__addr__"):
                            out.append(Read(n, "escape", p[0], p[1], None, unparse(call)))
        # bare loads buf[e]
        for st in ast.walk(self.fi.node):
            if not isinstance(st, ast.stmt) or isinstance(st, (ast.FunctionDef,)):
                continue
            exprs = []
            if isinstance(st, (ast.If, ast.While)):
                exprs = [st.test]
            elif isinstance(st, ast.For):
                exprs = [st.iter]
            elif isinstance(st, (ast.Try, ast.With)):
                exprs = []
            else:
                exprs = [x for x in ast.iter_child_nodes(st) if isinstance(x, ast.expr)]
            for ex in exprs:
                for x in ast.walk(ex):
                    if isinstance(x, ast.Subscript) and isinstance(x.ctx, ast.Load) and isinstance(x.value, ast.Name) and x.value.id in inp:
                        par = getattr(x, "_parent", None)
                        if isinstance(par, ast.Call) and isinstance(par.func, ast.Name) and par.func.id == "__addr__":
                            continue
                        node = first.get(id(st))
                        if isinstance(st, (ast.If, ast.While)):
                            # state at the first CFG node that evaluates this test
                            cands = [m for m in c.nodes if m.stmt is st and m.kind in ("test", "call")]
                            node = cands[0] if cands else node
                        if node is not None:
                            out.append(Read(node, "byte", x.value.id, strip_casts(x.slice), 1, unparse(x)))
        for r in out:
            self._decide(r)
        return out

    def _decide(self, r):
        s = self.IN.get(r.node)
        self._cur = s
        if s is None:
            r.covered = True
            r.detail = "unreachable"
            return
        if r.kind == "escape":
            r.covered = False
            r.detail = "input pointer handed to a callee the analysis does not model"
            return
        idx = self._lin(r.index, r.node)
        if idx is None:
            r.covered = False
            r.detail = f"index `{unparse(r.index)}` is not linear"
            return
        self._idx_eq = self._lin(r.index, r.node, use_eq=True)
        if r.kind == "varint" and getattr(r, "limit", None) is not None:
            lim = self._lin(r.limit, r.node)
            ok = lim is not None and lim.const == 0 and lim.terms == {"LEN": 1}
            r.covered = ok
            r.partial = ok
            r.detail = "" if ok else f"length handed to the varint decoder is `{unparse(r.limit)}`, not the length of this buffer"
            return
        if r.kind == "varint":
            need1, need = idx + Lin(1), idx + Lin(VARINT_MAX)
            r.partial = self._covered(need1, s)
            r.covered = self._covered(need, s)
            r.detail = "" if r.covered else (f"only the first of up to {VARINT_MAX} bytes is bounds-checked" if r.partial else "not bounds-checked at all")
            return
        if isinstance(r.size, int):
            need = idx + Lin(r.size)
        else:
            sz = self._lin(r.size, r.node)
            if sz is None:
                r.covered = False
                r.detail = f"size `{unparse(r.size)}` is not linear"
                return
            if sz.terms.get("LEN", 0) == 1:
                # size = LEN - k : covered iff idx <= k and k <= LEN
                rest = sz - Lin(0, {"LEN": 1})            # -k
                end = idx + rest                           # idx - k  must be <= 0
                ok = not end.terms and end.const <= 0
                k = rest.neg()
                ok2 = self._covered(k, s)
                r.covered = ok and ok2
                r.size_nonneg = ok2
                r.detail = "" if r.covered else f"size `{unparse(r.size)}` underflows when the buffer is shorter than {k}"
                return
            need = idx + sz
            lo = self._lower(sz, s)
            r.size_nonneg = lo is not None and lo >= 0
        r.covered = self._covered(need, s)
        if not r.covered:
            r.detail = f"no dominating check establishes {need} <= LEN (facts: {self._fmt(s)})"

    def _covered(self, need, s):
        """need (Lin without LEN) <= LEN provable from s?"""
        if "LEN" in need.terms:
            return False
        curs = [k for k, v in need.terms.items() if k in self.cursors and v == 1]
        cur = curs[0] if len(curs) == 1 else ("0" if not curs else None)
        if cur is None:
            return False
        rest = {k: v for k, v in need.terms.items() if k != cur}
        if any(v < 0 for v in rest.values()):
            # a negative symbolic term only helps when it is known non-negative... be conservative
            return False
        for c, ys in s.cov.get(cur, ()):
            have = {}
            for y in ys:
                have[y] = have.get(y, 0) + 1
            slack = c - need.const
            ok = True
            for k, v in rest.items():
                if have.get(k, 0) >= v:
                    have[k] -= v
                else:
                    ok = False
                    break
            if not ok:
                continue
            for k, v in have.items():
                if v:
                    if k in s.lb:
                        slack += v * s.lb[k]
                    else:
                        ok = False
                        break
            if ok and slack >= 0:
                return True
        if cur != "0" and not rest:
            # absolute facts do not help a cursor-relative read
            pass
        return False

    def _fmt(self, s):
        parts = []
        for k, v in sorted(s.cov.items()):
            for c, ys in sorted(v):
                parts.append(f"{k}+{c}" + "".join(f"+{y}" for y in ys) + "<=LEN")
        for k, v in sorted(s.lb.items()):
            parts.append(f"{k}>={v}")
        return ", ".join(parts) or "none"
