#!/venv/bin/python
"""All claimed checks x all stored behaviour-preserving refactorings (neutral/<id>/patch.diff): every run should exit 0.
Prints alarms (exit 1) and analysis errors (exit 2) and refreshes neutral/<id>/meta.json."""
import glob
import json
import os
import shutil
import subprocess
import sys
import tempfile
from concurrent.futures import ProcessPoolExecutor

VERIF = os.path.dirname(os.path.dirname(os.path.abspath(__file__)))
sys.path.insert(0, VERIF)
from sa.selftest import _copy_pkg  # noqa: E402


def one(args):
    nid, patch, pids = args
    tmp = tempfile.mkdtemp(prefix="verif-neutral-")
    try:
        _copy_pkg("/repo", tmp)
        p = subprocess.run(["patch", "-p1", "-s", "--fuzz=3", "--no-backup-if-mismatch", "-d", tmp, "-i", patch], capture_output=True, text=True)
        if p.returncode != 0:
            return nid, None, "patch does not apply: " + (p.stdout + p.stderr)[-200:]
        res = {}
        env = dict(os.environ, VERIF_EVIDENCE_DIR=os.path.join(tmp, "ev"), VERIF_REPLAY_DIR=os.path.join(tmp, "rp"))
        for pid in pids:
            r = subprocess.run([os.path.join(VERIF, "check"), pid, "--tier", "quick", "--repo", tmp], capture_output=True, text=True, env=env, timeout=300)
            if r.returncode != 0:
                res[pid] = (r.returncode, [l.strip()[:300] for l in r.stdout.splitlines() if l.strip().startswith("FAIL") or "ANALYSIS-ERROR" in l][:4])
        return nid, res, None
    finally:
        shutil.rmtree(tmp, ignore_errors=True)


def main():
    man = json.load(open(os.path.join(VERIF, "MANIFEST.json")))
    pids = [c["property_id"] for c in man["checks"]]
    only = [a for a in sys.argv[1:] if not a.startswith("-")]
    verbose = "-v" in sys.argv
    jobs = []
    for meta in sorted(glob.glob(os.path.join(VERIF, "neutral", "*", "meta.json"))):
        nid = os.path.basename(os.path.dirname(meta))
        if only and nid not in only:
            continue
        jobs.append((nid, os.path.join(os.path.dirname(meta), "patch.diff"), pids))
    ex = ProcessPoolExecutor(max_workers=16)
    n_alarm = n_err = n_all = 0
    for nid, res, err in ex.map(one, jobs):
        n_all += 1
        mp = os.path.join(VERIF, "neutral", nid, "meta.json")
        m = json.load(open(mp))
        v = m.setdefault("verification", {})
        if err:
            print(f"{nid:8s} ERROR {err}")
            continue
        alarms = sorted(p for p, (rc, _l) in res.items() if rc == 1)
        errs = sorted(p for p, (rc, _l) in res.items() if rc == 2)
        documented = sorted(set(errs) & set(m.get("undecided", [])))
        errs = [p for p in errs if p not in documented]
        v["alarms"] = {p: {"rc": rc, "lines": l} for p, (rc, l) in res.items() if rc == 1}
        v["analysis_errors"] = {p: {"rc": rc, "lines": l} for p, (rc, l) in res.items() if rc == 2}
        json.dump(m, open(mp, "w"), indent=1)
        n_alarm += bool(alarms)
        n_err += bool(errs) and not alarms
        print(f"{nid:8s} alarms={alarms} analysis_errors={errs}" + (f" undecided(documented)={documented}" if documented else "") + ("" if (alarms or errs) else "  silent"), flush=True)
        if verbose:
            for p, (rc, l) in res.items():
                for x in l[:2]:
                    print("      ", p, x[:230])
    print(f"refactorings: {n_all}  with false alarm: {n_alarm}  only analysis errors: {n_err}  silent: {n_all - n_alarm - n_err}")


if __name__ == "__main__":
    main()
