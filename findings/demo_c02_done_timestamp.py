"""Demonstrates (pre-fix) MessageBatch.done carrying record 1's timestamp to records 2..n
when the broker answers timestamp=-1 (CreateTime). Run: /venv/bin/python -m pytest -q <this file>"""
import asyncio
from unittest import mock
from aiokafka.producer.message_accumulator import BatchBuilder, MessageBatch
from aiokafka.structs import TopicPartition


def test_done_per_record_timestamp():
    async def main():
        tp = TopicPartition("t", 0)
        b = MessageBatch(tp, BatchBuilder(1 << 20, 0), 30, 0)
        futs = [b.append(None, b"v%d" % i, 1000 + i) for i in range(3)]
        b.done(100, -1)
        return [f.result().timestamp for f in futs]
    assert asyncio.run(main()) == [1000, 1001, 1002]
