"""Rules shared by several properties."""
from __future__ import annotations

from ..rulekit import shared_class_containers


def rule_instance_state(ctx, prefixes, R="instance-state"):
    ctx.rep.rule(R, "the state the property's mechanism keeps is PER INSTANCE: no class of the analysed modules has a class-level mutable container "
                    "(list / dict / set / deque / defaultdict ...) that its methods mutate in place through `self.<attr>` without __init__ binding a fresh "
                    "one -- such an object is shared by every producer / consumer / connection / batch of the process (sequence counters, waiter lists, "
                    "aborted-producer sets of one instance would be read and changed by another)")
    cls = [q for q, ci in ctx.repo.classes.items() if any(q.startswith(p) for p in prefixes)]
    ctx.anchor(len(cls) >= 1, f"classes under {prefixes}")
    bad = {id(ci): (ci, attr, st, hit) for ci, attr, st, hit in shared_class_containers(ctx.repo, cls)}
    n = 0
    for q in cls:
        ci = ctx.repo.classes[q]
        if not ci.methods:
            continue
        n += 1
        b = bad.get(id(ci))
        site = f"{ci.module.relpath}:{(b[2].lineno if b else ci.node.lineno)} {q}"
        ctx.rep.ob(R, site, f"{q}|instance-state" + (f":{b[1]}" if b else ""), b is None,
                   (f"class attribute `{b[1]}` is one mutable object shared by all instances, and {b[3][0]}() (line {b[3][1]}) mutates it in place; __init__ does not "
                    f"create a per-instance one") if b else "")
    ctx.anchor(n >= 1, "classes with methods examined for shared state")


# ---- the layers around the mechanisms (client, public API, helpers): rules added after seed round K --------------------------------
import ast  # noqa: E402

from ..loader import call_attr, unparse, walk_own  # noqa: E402
from ..rulekit import arg_of, def_value, local_defs, must_facts  # noqa: E402


def rule_shared_metadata_future(ctx, R):
    """force_metadata_update() hands every caller the ONE future the metadata synchronizer resolves (the sender, _maybe_wait_metadata and
    _wait_on_metadata of every send() await it): it leaves the client only inside asyncio.shield(), or a cancelled / timed-out caller
    cancels it for everybody -- the sender then ends as if it had been stopped and accepted records never resolve."""
    fi = ctx.fn("aiokafka.client.AIOKafkaClient.force_metadata_update")
    c = ctx.cfg(fi)
    rets = [r for r in c.nodes if r.kind == "return"]
    ok = bool(rets) and all(isinstance(r.ast.value, ast.Call) and unparse(r.ast.value.func) in ("asyncio.shield", "shield") and unparse(arg_of(r.ast.value, 0)) == "self._md_update_fut" for r in rets)
    ctx.ob(R, fi, fi.node, ok, "force_metadata_update() returns the shared metadata future without asyncio.shield(): a caller's cancellation cancels it for the sender and every other waiter",
           text="metadata-future-shielded")


def rule_client_send_errors_retriable(ctx, R):
    """What AIOKafkaClient.send() itself raises when a node cannot be used is a RETRIABLE error: the produce handler classifies whatever it
    gets by `error.retriable`, and a batch failed on a routing hiccup burns its sequence numbers."""
    fi = ctx.fn("aiokafka.client.AIOKafkaClient.send")
    c = ctx.cfg(fi)
    n = 0
    for r in [x for x in c.nodes if x.kind == "raise" and x.ast.exc is not None]:
        e = r.ast.exc
        cname = unparse(e.func if isinstance(e, ast.Call) else e).split(".")[-1]
        cis = [ci for ci in ctx.repo.classes_by_name.get(cname, []) if ci.module.name == "aiokafka.errors"]
        if not cis:
            continue       # re-raise of a caught error object
        n += 1
        retri = None
        for k in [cis[0]] + list(ctx.repo.mro(cis[0])):
            for st in k.node.body:
                if isinstance(st, ast.Assign) and len(st.targets) == 1 and unparse(st.targets[0]) == "retriable" and isinstance(st.value, ast.Constant):
                    retri = st.value.value
                    break
            if retri is not None:
                break
        ctx.ob(R, fi, r, retri is True, f"AIOKafkaClient.send() raises {cname}, which is not retriable: an accepted batch is failed (and its sequence numbers burnt) on a transient routing failure",
               text=f"send-raises-retriable:{cname}")
    ctx.anchor(n >= 2, f"error classes raised by AIOKafkaClient.send ({n})")


def rule_explicit_partitions_kept(ctx, R):
    """The public consumer methods that take `*partitions` use the caller's set as given: the parameter is re-bound only on the arm on which
    it is EMPTY (the `no partitions named -> all assigned` default).  A computed replacement (an intersection with the assignment, say) can be
    empty although the caller named partitions, and empty means ALL to everything downstream."""
    n = 0
    for m in ("getone", "getmany", "seek_to_beginning", "seek_to_end", "pause", "resume", "end_offsets", "beginning_offsets"):
        q = f"aiokafka.consumer.consumer.AIOKafkaConsumer.{m}"
        if q not in ctx.repo.funcs:
            continue
        fi = ctx.fn(q)
        va = fi.node.args.vararg.arg if fi.node.args.vararg is not None else None
        if va is None:
            continue
        n += 1
        c = ctx.cfg(fi)
        facts = must_facts(c)
        bad = []
        for d in local_defs(c, va):
            f_ = facts[d] or ()
            if not any(a[0] == va and a[1] == "falsy" for a in f_):
                bad.append(d)
        ctx.ob(R, fi, (bad[0] if bad else fi.node), not bad, f"{m}(): the caller's `{va}` is replaced by `{unparse(def_value(bad[0]))[:50] if bad else ''}` outside the `nothing named` default: "
                                                        "when that is empty the call silently applies to ALL assigned partitions", text=f"{m}:explicit-partitions-kept")
    ctx.anchor(n >= 4, f"consumer methods taking *partitions ({n})")


def rule_unsubscribe_leaves(ctx, R):
    """unsubscribe() of a group member leaves the group: maybe_leave_group() is called whenever there is a group (the subscription has
    already been reset at that point, so nothing about it may guard the call)."""
    fi = ctx.fn("aiokafka.consumer.consumer.AIOKafkaConsumer.unsubscribe")
    c = ctx.cfg(fi)
    ml = c.calls(attr="maybe_leave_group")
    ok = len(ml) == 1
    if ok:
        f_ = [a for a in (must_facts(c)[ml[0]] or ())]
        extra = [a for a in f_ if not (a[0].endswith("_group_id") or a[0].endswith("_coordinator") or a[2].endswith("_group_id") or a[2].endswith("_coordinator"))]
        ok = not extra and c.exit not in c.reachable([c.entry], avoid={ml[0]}, exc=False) or (not extra and any(a[0].endswith("_group_id") for a in f_))
        why = f"guarded by {extra[:2]}" if extra else "not reached on every path with a group"
    else:
        why = f"{len(ml)} calls"
    ctx.ob(R, fi, fi.node, ok, f"unsubscribe(): maybe_leave_group() is {why if not ok else ''}: the member keeps heartbeating with partitions nobody consumes", text="unsubscribe-leaves-group")


def call_keywords(ctx, fi, call):
    """Keyword arguments of a call as {name: source text}; `**self.helper()` is opened up when the helper is a method of the same class whose
    only return is a dict display with constant keys (the arguments gathered once for several call sites)."""
    out = {}
    for k in call.keywords:
        if k.arg is not None:
            out[k.arg] = unparse(k.value)
            continue
        v = k.value
        if isinstance(v, ast.Call) and not v.args and not v.keywords and isinstance(v.func, ast.Attribute) and unparse(v.func.value) == "self" and fi.owner_cls is not None:
            q = fi.qualname.rsplit(".", 1)[0] + "." + v.func.attr
            h = ctx.repo.funcs.get(q)
            if h is not None:
                rets = [r for r in ast.walk(h.node) if isinstance(r, ast.Return)]
                body = [b for b in h.node.body if not (isinstance(b, ast.Expr) and isinstance(b.value, ast.Constant))]
                if len(rets) == 1 and len(body) == 1 and body[0] is rets[0] and isinstance(rets[0].value, ast.Dict) and all(isinstance(x, ast.Constant) and isinstance(x.value, str) for x in rets[0].value.keys):
                    for kk, vv in zip(rets[0].value.keys, rets[0].value.values):
                        out[kk.value] = unparse(vv)
    return out


def rule_credentials_verbatim(ctx, R):
    """The SASL user name and password reach the authenticator exactly as configured: stored from the constructor parameters unchanged and
    passed on unchanged (a normalised password is a different password)."""
    fi = ctx.fn("aiokafka.client.AIOKafkaClient.__init__")
    c = ctx.cfg(fi)
    for attr, par in (("_sasl_plain_username", "sasl_plain_username"), ("_sasl_plain_password", "sasl_plain_password")):
        st = c.stores(attr=attr)
        ok = len(st) == 1 and isinstance(st[0].stmt, ast.Assign) and unparse(st[0].stmt.value) == par and not local_defs(c, par)
        ctx.ob(R, fi, (st[0] if st else fi.node), ok, f"the client stores `{unparse(st[0].stmt.value)[:40] if st and isinstance(st[0].stmt, ast.Assign) else '?'}` as {attr} "
                                                      f"(or re-binds `{par}`), not the configured value", text=f"credentials-verbatim:{attr}")
    n = 0
    for q in ("aiokafka.client.AIOKafkaClient.bootstrap", "aiokafka.client.AIOKafkaClient._get_conn"):
        f2 = ctx.fn(q)
        for call in [x for x in ast.walk(f2.node) if isinstance(x, ast.Call) and (call_attr(x) == "create_conn" or unparse(x.func) == "create_conn")]:
            kws = call_keywords(ctx, f2, call)
            n += 1
            ctx.ob(R, f2, call, kws.get("sasl_plain_username") == "self._sasl_plain_username" and kws.get("sasl_plain_password") == "self._sasl_plain_password",
                   f"{f2.name}: create_conn is not given the stored credentials", text="credentials-passed:" + f2.name)
    ctx.anchor(n >= 2, f"create_conn calls of the client ({n})")


def rule_send_headers_verbatim(ctx, R):
    """producer.send() hands the caller's headers to the batch builder as an ordered list of (key, value) pairs: the only re-binding is the
    `headers or []` default (a dict round trip drops repeated keys)."""
    fi = ctx.fn("aiokafka.producer.producer.AIOKafkaProducer.send")
    c = ctx.cfg(fi)
    bad = []
    for d in local_defs(c, "headers"):
        v = def_value(d)
        ok = isinstance(v, ast.BoolOp) and isinstance(v.op, ast.Or) and len(v.values) == 2 and unparse(v.values[0]) == "headers" and isinstance(v.values[1], (ast.List, ast.Tuple)) and not v.values[1].elts
        ok = ok or (isinstance(v, (ast.List, ast.Tuple)) and not v.elts and any(a[0] == "headers" and (a[1] == "falsy" or (a[1] == "is" and a[2] == "None")) for a in (must_facts(c)[d] or ())))
        if not ok:
            bad.append(d)
    ctx.ob(R, fi, (bad[0] if bad else fi.node), not bad, f"send() rebuilds the record headers as `{unparse(def_value(bad[0]))[:50] if bad else ''}`: order and repeated keys of the caller's list are not preserved",
           text="send-headers-verbatim")


def rule_commit_structure_copy(ctx, R):
    """commit_structure_validate() returns a mapping of its own: the transaction manager queues it, deletes acknowledged partitions from it and
    re-reads it on retries -- it must not be the caller's dict."""
    fi = ctx.fn("aiokafka.util.commit_structure_validate")
    c = ctx.cfg(fi)
    p0 = fi.params()[0]
    rets = [r for r in c.nodes if r.kind == "return"]
    ok = bool(rets)
    for r in rets:
        v = r.ast.value
        fresh = False
        if isinstance(v, ast.Name) and v.id != p0:
            ds = local_defs(c, v.id)
            fresh = bool(ds) and all(isinstance(def_value(d), (ast.Dict, ast.DictComp)) or (isinstance(def_value(d), ast.Call) and unparse(def_value(d).func) == "dict") for d in ds)
        elif isinstance(v, (ast.Dict, ast.DictComp)):
            fresh = True
        ok = ok and fresh
    ctx.ob(R, fi, fi.node, ok, "commit_structure_validate() can return the caller's own mapping: pending transactional offsets would alias an object the application keeps mutating "
                               "(and the library would delete the application's entries)", text="returns-own-mapping")


def rule_isolation_mapping(ctx, R):
    """The configured isolation level reaches the fetcher as an exact mapping: "read_uncommitted" -> READ_UNCOMMITTED, "read_committed" ->
    READ_COMMITTED, anything else raises.  A catch-all arm turns a mis-spelt read_committed into read_uncommitted without a word."""
    fi = ctx.fn("aiokafka.consumer.fetcher.Fetcher.__init__")
    c = ctx.cfg(fi)
    facts = must_facts(c)
    want = {"READ_UNCOMMITTED": "'read_uncommitted'", "READ_COMMITTED": "'read_committed'"}
    st = [s for s in c.stores(attr="_isolation_level") if isinstance(s.stmt, ast.Assign)]
    ok = len(st) == 2 and {unparse(s.stmt.value) for s in st} == set(want)
    if ok:
        for s in st:
            lit = want[unparse(s.stmt.value)]
            ok = ok and any(a[1] == "==" and {a[0], a[2]} == {"isolation_level", lit} for a in (facts[s] or ()))
        # no normal exit without one of the two stores
        ok = ok and c.exit not in c.reachable([c.entry], avoid=set(st), exc=False)
    ctx.ob(R, fi, fi.node, ok, "Fetcher.__init__ does not map the isolation level by two exact string comparisons with a raising default: an unrecognised spelling silently selects a level",
           text="isolation-mapping-exact")


def rule_iterator_reraises(ctx, R):
    """`async for` over the consumer surfaces what getone() raises: only RecordTooLargeError is logged and skipped, ConsumerStoppedError ends the
    iteration -- NoOffsetForPartition / OffsetOutOfRange / authorization errors reach the application."""
    fi = ctx.fn("aiokafka.consumer.consumer.AIOKafkaConsumer.__anext__")
    hs = [h for h in ast.walk(fi.node) if isinstance(h, ast.ExceptHandler)]
    bad = []
    for h in hs:
        types = [unparse(t).split(".")[-1] for t in (h.type.elts if isinstance(h.type, ast.Tuple) else [h.type])] if h.type is not None else ["<bare>"]
        raises = any(isinstance(x, ast.Raise) for st in h.body for x in ast.walk(st))
        unconditional = any(isinstance(st, ast.Raise) for st in h.body)
        if not unconditional and not set(types) <= {"RecordTooLargeError"}:
            bad.append((types, raises))
    ctx.ob(R, fi, fi.node, bool(hs) and not bad, f"the consumer iterator swallows {bad[0][0] if bad else ''} (logged, retried): with auto_offset_reset='none' NoOffsetForPartition never reaches "
                                                 "the application and the lookup is repeated for ever", text="iterator-reraises")


def rule_timeouts_verbatim(ctx, R, cls_q):
    """The `*_ms` settings the application passes reach the mechanism as given: such a constructor parameter is re-bound only on the arm on which
    it is None (its documented default).  A silent clamp changes what the group coordinator / broker is told."""
    fi = ctx.fn(f"{cls_q}.__init__")
    c = ctx.cfg(fi)
    facts = must_facts(c)
    n = 0
    for p in fi.params():
        if not p.endswith("_ms"):
            continue
        n += 1
        bad = [d for d in local_defs(c, p) if not any(a[0] == p and a[1] == "is" and a[2] == "None" for a in (facts[d] or ()))]
        ctx.ob(R, fi, (bad[0] if bad else fi.node), not bad, f"{cls_q.split('.')[-1]}: `{p}` is replaced by `{unparse(def_value(bad[0]))[:50] if bad else ''}` although the application set it",
               text=f"timeout-verbatim:{p}")
    ctx.anchor(n >= 3, f"*_ms constructor parameters of {cls_q} ({n})")


def rule_metadata_leader_verbatim(ctx, R):
    """ClusterMetadata.update_metadata records, per partition, the leader the reply names: the unpacked `leader` field is not re-bound before it
    is stored (a remembered old leader makes a leaderless partition look available to the partitioner and the sender)."""
    fi = ctx.fn("aiokafka.cluster.ClusterMetadata.update_metadata")
    c = ctx.cfg(fi)
    stores = [d for d in local_defs(c, "leader")]
    unpack = [d for d in stores if isinstance(getattr(d, "stmt", None), (ast.For, ast.AsyncFor)) or (isinstance(d.stmt, ast.Assign) and isinstance(d.stmt.targets[0], (ast.Tuple, ast.List)))
              or d.kind in ("fornext", "foriter")]
    rebinds = [d for d in stores if isinstance(d.stmt, ast.Assign) and isinstance(d.stmt.targets[0], ast.Name)]
    ctx.anchor(bool(stores), "`leader` of the partition metadata entries in update_metadata")
    ctx.ob(R, fi, (rebinds[0] if rebinds else fi.node), not rebinds, f"update_metadata replaces the reply's leader by `{unparse(def_value(rebinds[0]))[:50] if rebinds else ''}`: a partition "
                                                                     "the cluster reports leaderless stays 'available'", text="leader-verbatim")


def rule_get_conn_contains(ctx, R):
    """AIOKafkaClient._get_conn turns every failure to obtain a connection -- including its own StaleMetadata for a node the metadata does not
    list -- into `None` (+ metadata refresh): ready() must not raise for retriable conditions, the callers (coordinator lookup of the sender
    and the group coordinator) call it outside any try."""
    fi = ctx.fn("aiokafka.client.AIOKafkaClient._get_conn")
    c = ctx.cfg(fi)
    bad = []
    for r in [x for x in c.nodes if x.kind == "raise" and x.ast.exc is not None]:
        cname = unparse(r.ast.exc.func if isinstance(r.ast.exc, ast.Call) else r.ast.exc).split(".")[-1]
        cis = [ci for ci in ctx.repo.classes_by_name.get(cname, []) if ci.module.name == "aiokafka.errors"]
        if not cis:
            continue
        anc = {cis[0].name} | {k.name for k in ctx.repo.mro(cis[0])}
        hs = [a for a, role in r.within if isinstance(a, ast.Try) and role == "body"]
        caught = False
        for t in hs:
            for h in t.handlers:
                types = [unparse(x).split(".")[-1] for x in (h.type.elts if isinstance(h.type, ast.Tuple) else [h.type])] if h.type is not None else ["BaseException"]
                if set(types) & (anc | {"Exception", "BaseException"}):
                    caught = True
        if not caught:
            bad.append((r, cname))
    ctx.ob(R, fi, (bad[0][0] if bad else fi.node), not bad, f"_get_conn raises {bad[0][1] if bad else ''} past its own handlers: ready() raises instead of returning False, the transactional / "
                                                          "coordination task dies on a retriable condition", text="get-conn-contains-errors")


def _lookup_args_ok(fi, ctor_calls):
    ptype, pkey = fi.params()[1], fi.params()[2]
    ok = True
    for v in ctor_calls:
        got = {"coordinator_key": None, "coordinator_type": None}
        for i, a in enumerate(v.args[:2]):
            got[("coordinator_key", "coordinator_type")[i]] = unparse(a)
        for k in v.keywords:
            if k.arg in got:
                got[k.arg] = unparse(k.value)
        ok = ok and got == {"coordinator_key": pkey, "coordinator_type": ptype}
    return ok


def rule_requests_built_per_call(ctx, R):
    """A request the client layer sends is BUILT IN THE CALL THAT SENDS IT, from that call's own arguments: the builder object carries the
    values of one API call (coordinator key and type, topic list), and prepare() picks the version and drops what the version cannot say
    from those values -- a builder kept in instance state and reused sends the values of an earlier call under the name of this one."""
    n = 0
    for q, fi in sorted(ctx.repo.funcs.items()):
        if not q.startswith("aiokafka.client.AIOKafkaClient."):
            continue
        c = None
        for call in [x for x in walk_own(fi.node) if isinstance(x, ast.Call) and call_attr(x) == "send"]:
            idx = 1 if unparse(call.func) == "self.send" else 0       # client.send(node, request) / conn.send(request)
            if len(call.args) <= idx:
                continue
            if isinstance(call.args[idx], ast.Call) and unparse(call.args[idx].func).split(".")[-1].endswith("Request"):
                n += 1          # built in the argument position itself
                if fi.name == "coordinator_lookup":
                    ctx.ob(R, fi, call, _lookup_args_ok(fi, [call.args[idx]]), "coordinator_lookup does not build FindCoordinatorRequest(coordinator_key, coordinator_type) "
                                                                                "from its own two arguments", text="lookup-request-from-arguments")
                continue
            if not isinstance(call.args[idx], ast.Name):
                continue
            name = call.args[idx].id
            if name in fi.params():
                continue            # a forwarding method: the caller built it
            c = c or ctx.cfg(fi)
            site = [m for m in c.nodes if m.kind == "call" and m.ast is call]
            if not site:
                continue
            ds = local_defs(c, name)
            reach = [d for d in ds if site[0] in c.reachable([d], avoid=[x for x in ds if x is not d], exc=False)]
            n += 1

            def built(v):
                return isinstance(v, ast.Call) and unparse(v.func).split(".")[-1].endswith("Request")
            bad = [d for d in reach if not built(def_value(d))]
            ctx.ob(R, fi, (bad[0] if bad else site[0]), bool(reach) and not bad,
                   f"{fi.name}: the request handed to send() can be `{unparse(def_value(bad[0]))[:60] if bad else '?'}`, not a request built in this call: it carries the "
                   f"arguments of whichever call built it", text=f"request-built-here:{fi.name}")
            if fi.name == "coordinator_lookup" and reach and not bad:
                ok = _lookup_args_ok(fi, [def_value(d) for d in reach])
                ctx.ob(R, fi, site[0], ok, "coordinator_lookup does not build FindCoordinatorRequest(coordinator_key, coordinator_type) from its own two arguments",
                       text="lookup-request-from-arguments")
    ctx.anchor(n >= 2, f"requests built and sent by the client layer ({n})")
