#!/venv/bin/python
"""Re-run every claimed check against every stored seeded change (scratch copies, static checks only) and refresh
`verification.detected_by` / `analysis_errors` in seeded/<id>/meta.json.  Prints the detection matrix."""
import glob
import json
import os
import shutil
import subprocess
import sys
import tempfile
from concurrent.futures import ProcessPoolExecutor

VERIF = os.path.dirname(os.path.dirname(os.path.abspath(__file__)))
sys.path.insert(0, VERIF)
from sa.selftest import _copy_pkg  # noqa: E402


def one(args):
    sid, patch, pids = args
    tmp = tempfile.mkdtemp(prefix="verif-matrix-")
    try:
        _copy_pkg("/repo", tmp)
        p = subprocess.run(["patch", "-p1", "-s", "--fuzz=3", "--no-backup-if-mismatch", "-d", tmp, "-i", patch], capture_output=True, text=True)
        if p.returncode != 0:
            return sid, None, "patch does not apply: " + (p.stdout + p.stderr)[-200:]
        res = {}
        env = dict(os.environ, VERIF_EVIDENCE_DIR=os.path.join(tmp, "ev"), VERIF_REPLAY_DIR=os.path.join(tmp, "rp"))
        for pid in pids:
            r = subprocess.run([os.path.join(VERIF, "check"), pid, "--tier", "quick", "--repo", tmp], capture_output=True, text=True, env=env, timeout=300)
            fails = [l.strip() for l in r.stdout.splitlines() if l.strip().startswith("FAIL") or "ANALYSIS-ERROR" in l]
            res[pid] = (r.returncode, fails[:3])
        return sid, res, None
    finally:
        shutil.rmtree(tmp, ignore_errors=True)


def main():
    man = json.load(open(os.path.join(VERIF, "MANIFEST.json")))
    pids = [c["property_id"] for c in man["checks"]]
    only = [a for a in sys.argv[1:] if not a.startswith("-")]
    jobs = []
    for meta in sorted(glob.glob(os.path.join(VERIF, "seeded", "*", "meta.json"))):
        sid = os.path.basename(os.path.dirname(meta))
        if only and sid not in only:
            continue
        jobs.append((sid, os.path.join(os.path.dirname(meta), "patch.diff"), pids))
    ex = ProcessPoolExecutor(max_workers=16)
    missed = []
    for sid, res, err in ex.map(one, jobs):
        mp = os.path.join(VERIF, "seeded", sid, "meta.json")
        m = json.load(open(mp))
        v = m.setdefault("verification", {})
        if err:
            print(f"{sid:8s} ERROR {err}")
            v["matrix_error"] = err
        else:
            det = sorted(p for p, (rc, _f) in res.items() if rc == 1)
            errs = sorted(p for p, (rc, _f) in res.items() if rc == 2)
            v["detected_by"] = det
            v["analysis_errors"] = errs
            v["checks"] = {p: {"rc": rc, "fails": f} for p, (rc, f) in res.items() if rc != 0}
            own = m.get("property")
            flag = "" if own in det else ("  (own check silent)" if det else "  ** MISSED **")
            if not det:
                missed.append(sid)
            print(f"{sid:8s} property={own} detected_by={det} errors={errs}{flag}", flush=True)
        json.dump(m, open(mp, "w"), indent=1)
    print("missed:", missed)


if __name__ == "__main__":
    main()
