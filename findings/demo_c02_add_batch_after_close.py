"""Demonstrates (pre-fix) MessageAccumulator.add_batch enqueuing a batch after close():
the closed flag is tested only before the wait for the previous batch to drain."""
import asyncio
from unittest import mock
import pytest
from aiokafka.errors import ProducerClosed
from aiokafka.producer.message_accumulator import MessageAccumulator
from aiokafka.structs import TopicPartition


def test_add_batch_after_close():
    async def main():
        cluster = mock.MagicMock()
        cluster.leader_for_partition.return_value = 0
        tp = TopicPartition("t", 0)
        acc = MessageAccumulator(cluster, 1000, 0, 30)
        b1 = acc.create_builder(); b1.append(key=None, value=b"1", timestamp=None)
        b2 = acc.create_builder(); b2.append(key=None, value=b"2", timestamp=None)
        await acc.add_batch(b1, tp, 1)
        t = asyncio.ensure_future(acc.add_batch(b2, tp, 5))   # waits for b1 to drain
        await asyncio.sleep(0)
        closer = asyncio.ensure_future(acc.close())           # stop(): closed, flush waits for b1
        await asyncio.sleep(0)
        batches, _ = acc.drain_by_nodes(ignore_nodes=[])
        batches[0][tp].done(0, -1)
        await closer
        with pytest.raises(ProducerClosed):
            await t
        assert not acc._batches, "a batch was queued after close(): nobody will ever send or resolve it"
    asyncio.run(main())
