#!/venv/bin/python
"""Mechanical mutants of the functions the rules analyse, to find blind spots of the checks (a discovery aid, not a verdict).

usage: mutants.py [--limit N] [--ops NEG,DEL,...] [--out FILE] [--only C05,C07]

For every Python function listed under `functions_analysed` of some evidence file, every mutation point of these operators is
applied on its own to a scratch copy of the package:
  NEG        negate the test of an if / while
  DEL        delete a call statement (not logging)
  DELSTORE   delete an assignment to an attribute
  BOUND      < <-> <=, > <-> >=
  BOOL       and <-> or
  EQ         == <-> != , is <-> is not, in <-> not in   (inside a larger test only: a whole-test flip is NEG)
and the checks whose analysed functions include the mutated function are run on the copy (quick tier).  Output: one JSON line per
mutant {id, function, op, line, text, checks_run, detected_by, analysis_errors}.  A mutant nobody reports is a candidate blind spot --
or an equivalent / irrelevant change: it has to be read before anything is concluded."""
import ast
import glob
import json
import os
import shutil
import subprocess
import sys
import tempfile
from concurrent.futures import ProcessPoolExecutor

VERIF = os.path.dirname(os.path.dirname(os.path.abspath(__file__)))
sys.path.insert(0, VERIF)
from sa.selftest import _copy_pkg  # noqa: E402

REPO = "/repo"


def targets(only=None):
    """function qualname -> set of property ids analysing it."""
    out = {}
    for ev in sorted(glob.glob(os.path.join(VERIF, "evidence", "C*.json"))):
        d = json.load(open(ev))
        pid = d["property_id"]
        if only and pid not in only:
            continue
        for q in d["coverage"].get("functions_analysed", []):
            out.setdefault(q, set()).add(pid)
    return out


def find_function(tree, parts):
    node = tree
    for p in parts:
        nxt = None
        for ch in ast.walk(node) if node is tree else ast.iter_child_nodes(node):
            if isinstance(ch, (ast.ClassDef, ast.FunctionDef, ast.AsyncFunctionDef)) and ch.name == p:
                nxt = ch
                break
        if nxt is None:
            return None
        node = nxt
    return node


def own(fn):
    stack = list(ast.iter_child_nodes(fn))
    while stack:
        n = stack.pop()
        yield n
        if not isinstance(n, (ast.FunctionDef, ast.AsyncFunctionDef, ast.ClassDef, ast.Lambda)):
            stack.extend(ast.iter_child_nodes(n))


def points(fn):
    """[(op, node index in own-order, description)]"""
    pts = []
    nodes = list(own(fn))
    for i, n in enumerate(nodes):
        if isinstance(n, (ast.If, ast.While)) and not isinstance(n.test, ast.Constant):
            pts.append(("NEG", i, f"if/while {ast.unparse(n.test)[:60]}"))
        if isinstance(n, ast.Expr) and isinstance(n.value, (ast.Call, ast.Await)):
            c = n.value.value if isinstance(n.value, ast.Await) else n.value
            if isinstance(c, ast.Call) and not ast.unparse(c.func).startswith(("log.", "warnings.")):
                pts.append(("DEL", i, ast.unparse(n)[:70]))
        if isinstance(n, (ast.Assign, ast.AugAssign)):
            tg = n.targets[0] if isinstance(n, ast.Assign) else n.target
            if isinstance(tg, ast.Attribute):
                pts.append(("DELSTORE", i, ast.unparse(n)[:70]))
        if isinstance(n, ast.Compare) and len(n.ops) == 1:
            if isinstance(n.ops[0], (ast.Lt, ast.LtE, ast.Gt, ast.GtE)):
                pts.append(("BOUND", i, ast.unparse(n)[:70]))
        if isinstance(n, ast.BoolOp):
            pts.append(("BOOL", i, ast.unparse(n)[:70]))
            for j, v in enumerate(n.values):
                if isinstance(v, ast.Compare) and len(v.ops) == 1 and isinstance(v.ops[0], (ast.Eq, ast.NotEq, ast.Is, ast.IsNot, ast.In, ast.NotIn)):
                    pts.append(("EQ", (i, j), ast.unparse(v)[:70]))
    return pts


def apply(fn, op, idx):
    nodes = list(own(fn))
    if op == "EQ":
        n = nodes[idx[0]].values[idx[1]]
    else:
        n = nodes[idx]
    if op == "NEG":
        n.test = ast.UnaryOp(op=ast.Not(), operand=n.test)
    elif op in ("DEL", "DELSTORE"):
        # replace the statement by `pass` in its parent list
        for p in [fn] + nodes:
            for f in ("body", "orelse", "finalbody"):
                lst = getattr(p, f, None)
                if isinstance(lst, list):
                    for k, x in enumerate(lst):
                        if x is n:
                            lst[k] = ast.Pass()
                            return True
            if isinstance(p, ast.Try):
                for h in p.handlers:
                    for k, x in enumerate(h.body):
                        if x is n:
                            h.body[k] = ast.Pass()
                            return True
        return False
    elif op == "BOUND":
        sw = {ast.Lt: ast.LtE, ast.LtE: ast.Lt, ast.Gt: ast.GtE, ast.GtE: ast.Gt}
        n.ops = [sw[type(n.ops[0])]()]
    elif op == "BOOL":
        n.op = ast.Or() if isinstance(n.op, ast.And) else ast.And()
    elif op == "EQ":
        sw = {ast.Eq: ast.NotEq, ast.NotEq: ast.Eq, ast.Is: ast.IsNot, ast.IsNot: ast.Is, ast.In: ast.NotIn, ast.NotIn: ast.In}
        n.ops = [sw[type(n.ops[0])]()]
    return True


def module_file(q):
    parts = q.split(".")
    for k in range(len(parts), 0, -1):
        p = os.path.join(REPO, *parts[:k]) + ".py"
        if os.path.exists(p):
            return p, parts[k:]
    return None, None


def run_one(job):
    mid, q, op, idx, desc, line, pids = job
    path, rest = module_file(q)
    tmp = tempfile.mkdtemp(prefix="verif-mut-")
    try:
        _copy_pkg(REPO, tmp)
        tree = ast.parse(open(path, encoding="utf-8").read())
        fn = find_function(tree, [r.split("#")[0] for r in rest])
        if fn is None or not apply(fn, op, idx):
            return None
        ast.fix_missing_locations(tree)
        src = ast.unparse(tree)
        try:
            compile(src, path, "exec")
        except SyntaxError:
            return None
        rel = os.path.relpath(path, REPO)
        open(os.path.join(tmp, rel), "w", encoding="utf-8").write(src + "\n")
        det, errs = [], []
        env = dict(os.environ, VERIF_EVIDENCE_DIR=os.path.join(tmp, "ev"), VERIF_REPLAY_DIR=os.path.join(tmp, "rp"))
        for pid in sorted(pids):
            r = subprocess.run([os.path.join(VERIF, "check"), pid, "--tier", "quick", "--repo", tmp], capture_output=True, text=True, env=env, timeout=600)
            if r.returncode == 1:
                det.append(pid)
            elif r.returncode != 0:
                errs.append(pid)
        return {"id": mid, "function": q, "op": op, "line": line, "text": desc, "checks_run": sorted(pids), "detected_by": det, "analysis_errors": errs}
    finally:
        shutil.rmtree(tmp, ignore_errors=True)


def main():
    limit = None
    ops = None
    out = os.path.join(tempfile.gettempdir(), "mutants.jsonl")
    only = None
    a = sys.argv[1:]
    for i, x in enumerate(a):
        if x == "--limit":
            limit = int(a[i + 1])
        if x == "--ops":
            ops = set(a[i + 1].split(","))
        if x == "--out":
            out = a[i + 1]
        if x == "--only":
            only = set(a[i + 1].split(","))
    tg = targets(only)
    jobs = []
    for q, pids in sorted(tg.items()):
        path, rest = module_file(q)
        if path is None or not rest:
            continue
        tree = ast.parse(open(path, encoding="utf-8").read())
        fn = find_function(tree, [r.split("#")[0] for r in rest])
        if fn is None or not isinstance(fn, (ast.FunctionDef, ast.AsyncFunctionDef)):
            continue
        nodes = list(own(fn))
        for op, idx, desc in points(fn):
            if ops and op not in ops:
                continue
            n = nodes[idx[0]] if isinstance(idx, tuple) else nodes[idx]
            jobs.append((len(jobs), q, op, idx, desc, getattr(n, "lineno", 0), pids))
    for i, x in enumerate(a):
        if x == "--ids":
            want = {int(v) for v in a[i + 1].split(",")}
            jobs = [j for j in jobs if j[0] in want]
    if limit:
        import random
        random.Random(1).shuffle(jobs)
        jobs = jobs[:limit]
    print(f"{len(jobs)} mutants of {len(tg)} analysed functions", file=sys.stderr)
    n = det = err = 0
    with ProcessPoolExecutor(max_workers=16) as ex, open(out, "w") as fo:
        for r in ex.map(run_one, jobs, chunksize=4):
            if r is None:
                continue
            n += 1
            det += bool(r["detected_by"])
            err += bool(r["analysis_errors"]) and not r["detected_by"]
            fo.write(json.dumps(r) + "\n")
            fo.flush()
    print(f"mutants {n}: reported {det}, analysis-error only {err}, silent {n - det - err}  -> {out}")


# ---- second stage: which silent mutants also survive the pinned test suite -----------------------------------------------------
_WORK = {}


def _suite_one(job):
    mid, q, op, idx, desc, line, pids = job
    pid = os.getpid()
    root = _WORK.get(pid)
    if root is None:
        root = tempfile.mkdtemp(prefix="verif-mutsuite-")
        subprocess.run(["rsync", "-a", "--exclude", ".git", "--exclude", "build", "--exclude", "__pycache__", REPO + "/", root + "/"], check=True)
        _WORK[pid] = root
    path, rest = module_file(q)
    rel = os.path.relpath(path, REPO)
    orig = open(path, encoding="utf-8").read()
    tree = ast.parse(orig)
    fn = find_function(tree, [r.split("#")[0] for r in rest])
    if fn is None or not apply(fn, op, idx):
        return None
    ast.fix_missing_locations(tree)
    dst = os.path.join(root, rel)
    open(dst, "w", encoding="utf-8").write(ast.unparse(tree) + "\n")
    try:
        r = subprocess.run(["/venv/bin/python", "-m", "pytest", "-x", "-q", "-p", "no:cacheprovider", "--timeout=120", "tests"], cwd=root, capture_output=True, text=True,
                           timeout=900, env=dict(os.environ, PYTHONDONTWRITEBYTECODE="1"))
        tail = (r.stdout.strip().splitlines() or [""])[-1]
        ok = r.returncode == 0
    except subprocess.TimeoutExpired:
        ok, tail = False, "timeout"
    finally:
        open(dst, "w", encoding="utf-8").write(orig)
    return {"id": mid, "function": q, "op": op, "line": line, "text": desc, "suite_passes": ok, "tail": tail[-80:]}


def survive(src, out):
    silent = {json.loads(l)["id"] for l in open(src) if not json.loads(l)["detected_by"] and not json.loads(l)["analysis_errors"]}
    tg = targets(None)
    jobs = []
    k = 0
    for q, pids in sorted(tg.items()):
        path, rest = module_file(q)
        if path is None or not rest:
            continue
        tree = ast.parse(open(path, encoding="utf-8").read())
        fn = find_function(tree, [r.split("#")[0] for r in rest])
        if fn is None or not isinstance(fn, (ast.FunctionDef, ast.AsyncFunctionDef)):
            continue
        nodes = list(own(fn))
        for op, idx, desc in points(fn):
            n = nodes[idx[0]] if isinstance(idx, tuple) else nodes[idx]
            if k in silent and not q.endswith(".__init__"):
                jobs.append((k, q, op, idx, desc, getattr(n, "lineno", 0), pids))
            k += 1
    print(f"{len(jobs)} silent mutants (constructors excluded) go through the pinned suite", file=sys.stderr)
    n = surv = 0
    with ProcessPoolExecutor(max_workers=14) as ex, open(out, "w") as fo:
        for r in ex.map(_suite_one, jobs, chunksize=1):
            if r is None:
                continue
            n += 1
            surv += r["suite_passes"]
            fo.write(json.dumps(r) + "\n")
            fo.flush()
    print(f"silent mutants {n}: killed by the suite {n - surv}, survive {surv} -> {out}")


if __name__ == "__main__":
    if len(sys.argv) > 1 and sys.argv[1] == "--survive":
        survive(sys.argv[2], sys.argv[3])
    else:
        main()
