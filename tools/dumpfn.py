#!/venv/bin/python
"""dumpfn.py <repo-root> <qualname>... : print functions as the loader normalised them (debug aid)."""
import ast
import sys
sys.path.insert(0, "/verif")
from sa.loader import Repo
r = Repo(sys.argv[1])
for q in sys.argv[2:]:
    print("#", q)
    print(ast.unparse(r.func(q).node))
