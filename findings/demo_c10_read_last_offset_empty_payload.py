"""C10 defect found by ./check C10 (rule index-nonneg): LegacyRecordBatch._read_last_offset read BEFORE an empty buffer.

The compiled v1 reader finds the last inner message of a compressed wrapper by walking the decompressed payload and then stepping the
cursor back by the size of the last message (`pos -= LOG_OVERHEAD + length`).  With an EMPTY payload (a gzip stream of zero bytes) the
loop never ran: pos = 0 - (12 + 0) = -12 and `hton.unpack_int64(&buf[-12])` read eight bytes in front of the buffer (the header of the
bytes object: not a crash, but outside the supplied buffer), and the batch then "decoded" to no records without any error, while the
pure-Python reader raises for the same input.  The walk now starts with `_check_bounds(0, LOG_OVERHEAD)`: CorruptRecordException.
(The out-of-bounds read itself is not observable from Python -- the static rule shows it -- the silent acceptance is.)
"""
import gzip
import struct
import zlib

import pytest

from aiokafka.errors import CorruptRecordException
from aiokafka.record._crecords.legacy_records import LegacyRecordBatch
from aiokafka.record.legacy_records import _LegacyRecordBatchPy


def _msg_v1(offset, key, value, attrs=0, ts=1000):
    body = struct.pack(">bbq", 1, attrs, ts)
    body += struct.pack(">i", -1) if key is None else struct.pack(">i", len(key)) + key
    body += struct.pack(">i", -1) if value is None else struct.pack(">i", len(value)) + value
    m = struct.pack(">I", zlib.crc32(body) & 0xFFFFFFFF) + body
    return struct.pack(">qi", offset, len(m)) + m


def test_compressed_v1_wrapper_with_an_empty_payload_is_rejected_by_both_readers():
    wrapper = _msg_v1(10, None, gzip.compress(b""), attrs=1)
    with pytest.raises(Exception):
        list(_LegacyRecordBatchPy(bytearray(wrapper), 1))
    with pytest.raises(CorruptRecordException):
        list(LegacyRecordBatch(bytearray(wrapper), 1))
