#!/venv/bin/python
"""Evaluate a behaviour-preserving refactoring: neutral_eval.py <src dir with patch.diff, meta.json[, equiv_test.py]> <id> [--no-suite]

Applies it in a scratch worktree of /repo, runs the pinned suite (must pass) and the optional equivalence test with and
without the change, runs every claimed check against the changed tree (every one should exit 0) and stores the case under
/verif/neutral/<id>/.  /repo itself is never modified."""
import glob
import json
import os
import shutil
import subprocess
import sys

VERIF = os.path.dirname(os.path.dirname(os.path.abspath(__file__)))
PY = "/venv/bin/python"


def sh(cmd, cwd=None, timeout=1800):
    p = subprocess.run(cmd, shell=True, cwd=cwd, capture_output=True, text=True, timeout=timeout)
    return p.returncode, p.stdout + p.stderr


def main():
    src, nid = sys.argv[1], sys.argv[2]
    no_suite = "--no-suite" in sys.argv
    wt = f"/tmp/ev/{nid}"
    os.makedirs("/tmp/ev", exist_ok=True)
    sh(f"git -C /repo worktree remove --force {wt}")
    rc, out = sh(f"git -C /repo worktree add -q --detach {wt} HEAD")
    res = {"id": nid}
    try:
        for so in glob.glob("/repo/aiokafka/record/_crecords/*.so"):
            shutil.copy(so, os.path.join(wt, "aiokafka/record/_crecords/"))
        patch = os.path.abspath(os.path.join(src, "patch.diff"))
        rc, out = sh(f"git apply {patch}", cwd=wt)
        if rc:
            res["error"] = "patch does not apply: " + out[-300:]
            print(json.dumps(res))
            return 3
        rc, diff = sh("git diff --stat", cwd=wt)
        res["diffstat"] = diff.strip().splitlines()[-1:] if diff.strip() else []
        if ".pyx" in diff:
            rc, out = sh(f"{PY} setup.py build_ext --inplace", cwd=wt, timeout=1200)
            res["rebuild_rc"] = rc
        env = "PYTHONDONTWRITEBYTECODE=1"
        eq = os.path.abspath(os.path.join(src, "equiv_test.py"))
        if os.path.exists(eq):
            rc, out = sh(f"{env} {PY} -m pytest -q -p no:cacheprovider {eq}", cwd=wt, timeout=600)
            res["equiv_with_change"] = {"rc": rc, "tail": out.strip().splitlines()[-1:]}
        if not no_suite:
            rc, out = sh(f"{env} {PY} -m pytest -q -p no:cacheprovider --timeout=900 tests", cwd=wt, timeout=1500)
            res["suite_with_change"] = {"rc": rc, "tail": out.strip().splitlines()[-1:]}
        man = json.load(open(os.path.join(VERIF, "MANIFEST.json")))
        det = {}
        for ch in man["checks"]:
            pid = ch["property_id"]
            rc, out = sh(f"VERIF_EVIDENCE_DIR=/tmp/ev/evidence VERIF_REPLAY_DIR=/tmp/ev/replay ./check {pid} --tier quick --repo {wt}", cwd=VERIF, timeout=600)
            if rc != 0:
                det[pid] = {"rc": rc, "lines": [l.strip()[:300] for l in out.splitlines() if l.strip().startswith("FAIL") or "ANALYSIS-ERROR" in l][:5]}
        res["alarms"] = {k: v for k, v in det.items() if v["rc"] == 1}
        res["analysis_errors"] = {k: v for k, v in det.items() if v["rc"] == 2}
    finally:
        sh(f"git -C /repo worktree remove --force {wt}")
    dst = os.path.join(VERIF, "neutral", nid)
    os.makedirs(dst, exist_ok=True)
    for f in ("patch.diff", "equiv_test.py"):
        if os.path.exists(os.path.join(src, f)) and os.path.abspath(src) != os.path.abspath(dst):
            shutil.copy(os.path.join(src, f), os.path.join(dst, f))
    try:
        meta = json.load(open(os.path.join(src, "meta.json")))
    except Exception as e:
        meta = {"note": f"meta.json unreadable: {e}"}
    old = meta.get("verification", {})
    if "suite_with_change" not in res and "suite_with_change" in old:
        res["suite_with_change"] = old["suite_with_change"]
    meta["verification"] = res
    json.dump(meta, open(os.path.join(dst, "meta.json"), "w"), indent=1)
    print(nid, "| suite:", res.get("suite_with_change", {}).get("tail"), "| equiv:", res.get("equiv_with_change", {}).get("tail"),
          "| false alarms:", sorted(res["alarms"]), "| analysis errors:", sorted(res["analysis_errors"]))
    for k, v in {**res["alarms"], **res["analysis_errors"]}.items():
        for l in v["lines"][:3]:
            print("   ", k, l[:260])


if __name__ == "__main__":
    sys.exit(main())
