#!/venv/bin/python
"""Regenerate /verif/MANIFEST.json from the table below (keeps it valid at all times)."""
import json
import os

HERE = os.path.dirname(os.path.dirname(os.path.abspath(__file__)))

NOTE = ("Trusted base: CPython's ast (and Cython's parser for the .pyx files) represent the source faithfully; "
        "asyncio runs coroutine steps atomically between suspension points; implicit exceptions are modelled at "
        "call/await/yield nodes only; reference tables in DESIGN.md Appendix A. Only the structural clauses listed in "
        "DESIGN.md section 4 are decided, not the run-time behaviour as a whole.")

CLAIMED = {
    "C01": ("CFG path rules (no suspension between drain and mute, dominance of guards), who-writes tables, "
            "exhaustive path classification, interval analysis of the sequence wrap",
            "Decides the necessary structure of 'one batch per partition in flight, retries to the front, sequence stamped "
            "once': mute/unmute pairing, drain guards, deque discipline, seq-once, outcome classification, retriable table, "
            "no expiry for idempotent producers, wrap interval. The broker-side log order under fault sequences is not decided."),
    "C02": ("dominance of not-done guards, loop-carried reaching definitions, typestate path enumeration of popped batches, "
            "schema-table arity check of the produce reply per version, who-writes tables, ordering by dominators",
            "Decides: once-only resolution guards; per-record metadata uses no loop-carried state and the right offset/timestamp "
            "expressions; every popped batch is filed/acknowledged/failed/requeued exactly once on every path; reply unpacking matches "
            "ProduceResponse_vN for every selectable N; flush/close/stop cover queued and pending batches in the right order; a dying "
            "sender fails everything and later sends. Liveness ('within bounded time') is not decided."),
    "C07": ("CFG dominance / no-suspension path rules, who-writes and who-calls tables, error->effect tables extracted from if/elif "
            "chains and cross-checked against KIP-98",
            "Decides: pending partitions are muted for produce and acknowledged only on NoError of AddPartitionsToTxn; one transactional "
            "request at a time in protocol priority; EndTxn dominated by the flush of the transaction's batches; send() guarded with no "
            "suspension before enqueue; coordinator-side registry forgotten only when the transaction ended; handler error tables. "
            "Atomicity as observed by a reader over all fault histories is not decided."),
    "C16": ("exhaustive finite evaluation of the transition predicate on its AST (49 pairs) against the protocol table; who-writes "
            "(state only via the validated transition); dominance rules on API guards, abortable and fatal paths",
            "Decides: the transition table admits exactly the protocol order; all state writes go through it; API calls check before "
            "acting and raise before any effect; commit after an abortable error re-raises, abort re-arms the waiter and reaches the "
            "coordinator; fatal errors kill the sender, fail all batches, and the context manager does not abort afterwards."),
    "C03": ("CFG dominance / unreachable-from-branch rules, symbolic evaluation of check_assignment and of the fetch reply handling "
            "against every FetchResponse_vN schema, who-writes table of the position, generator ordering rules",
            "Decides: a fetch reply is accepted per partition only at the position it was requested for (all effects incl. error arms); "
            "hand-out re-validates assignment/pause/position and moves the position with no suspension; position writers; skip-below, "
            "advance-before-yield and progress in the unpack generator; seek drops buffered data; paused/filtered partitions; reply shape "
            "of all 11 fetch versions. Equality with the broker's visible log for all log shapes is not decided."),
    "C08": ("CFG dominance and ordering rules on the unpack generator, finite evaluation of the index comparison over the three orderings, "
            "constant tables, argument-flow checks",
            "Decides: control batches never reach the record loop at any level; under READ_COMMITTED the aborted index is consumed for every "
            "batch before the abort marker is processed, which precedes the aborted-producer skip; index sorted by first offset and consumed "
            "with <=; progress past filtered batches; the level reaches Fetch/ListOffsets requests. Exactness for all producer interleavings "
            "is not decided."),
    "C06": ("CFG dominance over loop exits, flag-driven retry-loop analysis, error->effect tables of the five group handlers extracted "
            "from if/elif chains and cross-checked, who-writes tables, def-use chains join -> sync -> complete",
            "Decides: JoinGroup is built after the assignor loop from the complete protocol list and re-sent only on MEMBER_ID_REQUIRED; a "
            "successful reply is followed by the member's SyncGroup carrying the identity the reply assigned; error handling resets "
            "generation / marks the coordinator dead / requests a rejoin as the protocol demands; the rejoin future is re-armed before "
            "SyncGroup; heartbeat task lifetime. Convergence (liveness) is not decided."),
    "C05": ("CFG path rules (gate test on every path from the loop head to the hand-out, no foreign suspension), dominance over exits, "
            "who-writes tables, def-use chains, symbolic evaluation of the member tuple per JoinGroup version",
            "Decides: the reassignment gate is closed first thing in the revoke step, released only by _assign and tested inside the hand-out "
            "loops; the revoke step precedes JoinGroup and every non-trivial exit of ensure_active_group; the member installs exactly the "
            "decoded SyncGroup assignment before the assigned-callback; the leader feeds all members to the agreed assignor and forwards all "
            "pairs; stale data is dropped. Pairwise disjointness (assignor output) and the group-wide barrier are not decided."),
    "C04": ("argument-flow and no-suspension rules on every commit site, who-writes table of the position and generator ordering rules "
            "(shared with C03), gate path rules (shared with C05), dominance order of the revoke step, error-before-payload path rule on "
            "the OffsetFetch reply",
            "Decides: every automatic / default commit sends the consumed positions computed at that moment; the position moves only at "
            "hand-out (to next_fetch_offset) or past proven-invisible batches; hand-out is atomic and gated during rebalance; gate -> last "
            "commit -> revoke order; commit identity is current; an errored OffsetFetch entry is never taken as 'nothing committed'. The "
            "group-wide at-least-once consequence across crashes is not decided."),
    "C13": ("path rule 'every effect is separated from every suspension point by a re-test', state-transition stores, policy-arm dominance, "
            "symbolic evaluation of the ListOffsets reply per version, def-use of the asked-partitions list",
            "Decides: a seek() landing during the committed-offset lookup or the ListOffsets round-trip wins; the policy arms (committed / "
            "unknown / out of range x latest|earliest|none) do what the property states; sentinels -1/-2; reply shape v0..v3; committed "
            "offsets are answered for exactly the partitions asked about. That the broker's offsets are right is not decided."),
    "C12": ("who-writes table of the in-flight queue, CFG path rule 'every completion of the head entry passes the correlation comparison', "
            "dominance rules on close(), handler-swallowing analysis of the reader loop, interval analysis of the id wrap",
            "Decides: queue discipline and write-before-queue without suspension; head-of-queue matching that compares the correlation id "
            "even for abandoned waiters; mismatch -> fail + close + no pop; close() fails every waiter; every transport failure (incl. EOF "
            "on a frame boundary) reaches close(); timeouts close the connection; ids stay within int31. Stream fragmentation is delegated "
            "to StreamReader and not decided."),
    "C18": ("dominance of the nonce test over all key derivation, must-pass-through of the signature verification on the generator's exit, "
            "structural def-use table of the RFC 5802 derivations, call-chain order of the escaping",
            "Decides: the server nonce must extend the client's before anything is derived; login completes only through a full-equality "
            "comparison of the server signature; every key / proof / transcript attribute has the single RFC 5802 definition, recomputed "
            "per login from this exchange's salt and iteration count; '=' is escaped before ','. HMAC/PBKDF2 values are not decided."),
    "C17": ("symbolic 32-bit term evaluation of murmur2's AST compared with the Java algorithm's terms (initial value, block step, four "
            "tails, finaliser), interval analysis of shift operands and result, data-flow rules on the partitioner and its inputs",
            "Decides: murmur2 computes, modulo 2^32, exactly the Java terms with the Java constants for every tail length; every value "
            "shifted right or returned is within [0,2^32); the keyed route is all_partitions[(hash & 0x7fffffff) % n] with no influence of "
            "availability; all_partitions is ordered by id; unkeyed records prefer available partitions. No concrete key is hashed."),
    "C11": ("static evaluation of the declarative protocol table from the AST, partial (symbolic) evaluation of every builder per selectable "
            "version, dominance rules on Request.prepare, schema-evolution and reference-table comparison, structural agreement of "
            "encode/decode of the primitive codecs",
            "Decides for all 95 selectable (builder, version) pairs: key/version pairing of request and reply schema, flexible-header "
            "consistency, that prepare() only builds a struct inside the broker's range (highest first), constructor arity and field "
            "alignment per version, no silent drop of a parameter (named ones never), type stability across versions, wire signatures "
            "against the reference table, that each primitive writes what it reads, and that every request the client layer itself sends is "
            "built in the call that sends it from that call's arguments. Value-level round-trips and varint arithmetic are not decided."),
    "C19": ("must-call chains on the CFGs of stop()/close(), release table of every task/timer creation site, cancel-then-await "
            "protection analysis (which suspension points of the cancelled coroutine let CancelledError escape), closing-aware cycle "
            "analysis of every suspending while-loop in the code stop() waits for, dominance rules on the closed flags",
            "Decides: consumer.stop()/producer.stop() must-reach every closer in order on all normal paths; every task and timer handle the "
            "package keeps is cancelled or awaited by a closer; no closer can end with CancelledError because of a task it cancelled itself; "
            "every retry loop that stop() waits for (not cancels) consults the closing flag or is bounded for a stated reason; waits on the "
            "coordination path include the closing future; stop is idempotent and later API calls raise the stopped/closed error; LeaveGroup "
            "is sent exactly for dynamic members with a generation; the metadata synchronizer never returns to its timed wait owing an "
            "update nobody can ask for again (typestate of update future and wake-up future over every path of one iteration); milliseconds "
            "never reach a seconds sink. The numeric latency bound and task leaks that depend on run-time callbacks are not decided."),
    "C10": ("check-before-use dataflow over the Cython parse tree lowered to a CFG (coverage facts cursor+n<=len created by bounds checks and "
            "branch conditions, transferred through cursor arithmetic, killed on reassignment, intersected at joins), summary of the bounds "
            "helper from its body (sign, overflow), constructor invariants, loop-progress analysis with lower bounds, structural checksum rules, "
            "taint scan of input-derived sizes in the Python readers",
            "Decides for all ~105 raw reads of the compiled decoders that a dominating check covers exactly the bytes read on the cursor value "
            "used; that every size handed to PyBytes_FromStringAndSize / checksum routines is proven non-negative and the helper cannot overflow; "
            "that constructors validate the minimum size first and the cursor never leaves the buffer; that every decoding loop (compiled and "
            "Python) makes positive progress or counts a bounded counter; that all four validate_crc compare stored with computed over the "
            "format's region; that Python readers wrap structural errors and never allocate an input-derived size. Codec libraries and "
            "value-level outcomes are not decided."),
    "C09": ("table agreement (static evaluation of struct formats / DEF chains / field reads and writes against a reference table of the "
            "format), extraction and comparison of the wire-element sequence of the four v2 record readers/writers, CFG ordering rules on "
            "CRC computation and build(), bounds-fact and def-use rules on both batch splitters, recomputation of the CRC-32C table, feasible-"
            "path enumeration of append() for purity of a refused record",
            "Decides: the v2 and v0/v1 header layouts agree between Python struct, Cython constants, compiled reader, both writers and the "
            "format's reference table, each header field is written from the state it denotes; the record element sequence is the same in all "
            "four implementations and every raw run is sized by the varint before it; CRC is computed last over [21:] and stored at 17; both "
            "splitters are cursor-relative and choose the class from the slice's own magic; the CRC-32C table is Castagnoli's; a refused "
            "append leaves the builder untouched. Value-level round-trips, codecs and varint arithmetic are not decided."),
}

NA = {
    "C14": "output-of-an-algorithm property over all inputs (exactly one owner, balance); no necessary clause is visible in "
           "code shape beyond a 4-site None check; needs bounded enumeration or proof, i.e. another technique family",
    "C15": "relates two consecutive outputs of the sticky assignor; truth lies in the reassignment search's arithmetic, "
           "not in code shape; not decidable by static analysis in reach",
}


def main():
    props = [json.loads(l)["id"] for l in open(os.path.join(HERE, "properties.jsonl"))]
    checks = []
    for pid in props:
        if pid not in CLAIMED:
            continue
        tech, text = CLAIMED[pid]
        checks.append({
            "property_id": pid,
            "quick_cmd": f"./check {pid} --tier quick",
            "thorough_cmd": f"./check {pid} --tier thorough",
            "evidence_file": f"evidence/{pid}.json",
            "replay_cmd_template": "cat {path}",
            "engine": "sa",
            "level_claimed": {"category": "other", "text": text, "design_ref": f"DESIGN.md section 4, {pid}"},
            "level_note": NOTE,
            "technique": "static analysis: " + tech,
        })
    na = []
    for pid in props:
        if pid in CLAIMED:
            continue
        na.append({"property_id": pid, "reason": NA.get(pid, "static check not built yet (work in progress)")})
    m = {
        "version": 1,
        "setup_cmd": "/venv/bin/python -m compileall -q sa >/dev/null 2>&1 || true",
        "hooks": {
            "guard": "AIOKAFKA_VERIF",
            "enable": "no hooks: every check parses /repo's working tree (ast / Cython parser); nothing is instrumented",
            "baseline_off_cmd": "cd /repo && /venv/bin/python -m pytest -q -p no:cacheprovider --timeout=900",
            "source_commits": [],
            "add_only": True,
        },
        "engines": [
            {"name": "sa", "path": "sa/", "serves_properties": sorted(CLAIMED),
             "kind_free_text": "repository-specific static analysis: per-function event CFG with dominators, path queries, "
                               "reaching definitions, package-wide who-writes/who-calls indexes, interval and finite abstract "
                               "evaluation, protocol-table partial evaluation, Cython parse-tree bounds analysis"},
        ],
        "checks": checks,
        "not_applicable": na,
        "notes": "All checks: exit 0 holds / exit 1 + VIOLATION line / exit 2 + ANALYSIS-ERROR (anchor vanished: checker must be "
                 "re-confirmed). Known findings: known_findings.json.",
    }
    with open(os.path.join(HERE, "MANIFEST.json"), "w") as f:
        json.dump(m, f, indent=1)
    print("claimed", len(checks), "not_applicable", len(na))


if __name__ == "__main__":
    main()
